package srv

import (
	"context"
	"fmt"
	"io"
	"net"
	"os"
	"path/filepath"
	"sync"
	"sync/atomic"
	"time"

	"github.com/cloudwego/hertz/pkg/app"
	"github.com/cloudwego/hertz/pkg/app/server"
	"github.com/cloudwego/hertz/pkg/common/config"
	"github.com/cloudwego/hertz/pkg/network/netpoll"
	"github.com/cloudwego/hertz/pkg/network/standard"

	"verifharness/sconn"
	"verifharness/wire"
)

// NetEcho is the echo server of Echo behind a real listener (unix socket in the
// working directory) and a real transport ("netpoll" or "standard"): the bytes
// travel through the kernel and the transport's own connection type instead of
// the scripted connection. One connection is served at a time.
type NetEcho struct {
	H         *server.Hertz
	Cfg       Config
	Transport string
	sock      string
	mu        sync.Mutex
	obs       []Obs
	runErr    chan error
	// Timeout bounds one exchange (default 20 s); MaxLate is the worst wake-up lateness of a 1 ms
	// heartbeat during the last Run (a timeout on a machine that was late is no verdict).
	Timeout time.Duration
	MaxLate time.Duration
	// PauseAfter: extra pause after the fragment with the given index has been written (reset by Run)
	PauseAfter map[int]time.Duration
}

var netEchoCounter int32

// NewNetEcho starts the server and waits until it accepts connections.
func NewNetEcho(cfg Config, transport string) (*NetEcho, error) {
	dir, _ := os.Getwd()
	e := &NetEcho{Cfg: cfg, Transport: transport}
	e.sock = filepath.Join(dir, fmt.Sprintf("ne%d-%d.sock", os.Getpid(), atomic.AddInt32(&netEchoCounter, 1)))
	if len(e.sock) > 100 {
		e.sock = filepath.Join(os.TempDir(), filepath.Base(e.sock))
	}
	os.Remove(e.sock)
	opts := []config.Option{server.WithNetwork("unix"), server.WithHostPorts(e.sock), server.WithStreamBody(cfg.Stream), server.WithExitWaitTime(50 * time.Millisecond), server.WithDisablePrintRoute(true)}
	if cfg.MaxBody > 0 {
		opts = append(opts, server.WithMaxRequestBodySize(cfg.MaxBody))
	}
	if transport == "netpoll" {
		opts = append(opts, server.WithTransport(netpoll.NewTransporter))
	} else {
		opts = append(opts, server.WithTransport(standard.NewTransporter))
	}
	opts = append(opts, cfg.Extra...)
	e.H = server.New(opts...)
	e.H.NoRoute(e.handle)
	e.runErr = make(chan error, 1)
	go func() { e.runErr <- e.H.Run() }()
	for i := 0; i < 600; i++ {
		c, err := net.Dial("unix", e.sock)
		if err == nil {
			c.Close()
			time.Sleep(10 * time.Millisecond)
			return e, nil
		}
		select {
		case err := <-e.runErr:
			return nil, fmt.Errorf("server did not start: %v", err)
		default:
		}
		time.Sleep(5 * time.Millisecond)
	}
	return nil, fmt.Errorf("server did not start listening on %s", e.sock)
}

func (e *NetEcho) handle(c context.Context, ctx *app.RequestContext) {
	if e.Cfg.BeforeEcho != nil {
		e.Cfg.BeforeEcho(c, ctx)
	}
	var o Obs
	o.Method = string(ctx.Request.Header.Method())
	o.URI = string(ctx.Request.Header.RequestURI())
	o.Proto = ctx.Request.Header.GetProtocol()
	ctx.Request.Header.VisitAll(func(k, v []byte) {
		o.Headers = append(o.Headers, wire.KV{K: string(k), V: string(v)})
	})
	if ctx.Request.IsBodyStream() {
		o.Streamed = true
		var b []byte
		var err error
		if e.Cfg.ReadBody != nil {
			b, err = e.Cfg.ReadBody(ctx.RequestBodyStream())
		} else {
			b, err = io.ReadAll(ctx.RequestBodyStream())
		}
		o.Body = b
		if err != nil {
			o.BodyErr = err.Error()
		}
	} else {
		o.Body = append([]byte(nil), ctx.Request.Body()...)
	}
	o.BodyLen = len(o.Body)
	ctx.Request.Header.Trailer().VisitAll(func(k, v []byte) {
		o.Trailers = append(o.Trailers, wire.KV{K: string(k), V: string(v)})
	})
	e.mu.Lock()
	idx := len(e.obs)
	e.obs = append(e.obs, o)
	e.mu.Unlock()
	ctx.SetStatusCode(200)
	ctx.Response.Header.Set("X-Echo-Index", fmt.Sprint(idx))
	ctx.SetBodyString(fmt.Sprintf("idx=%d;method=%s;uri=%s;bodylen=%d", idx, o.Method, o.URI, len(o.Body)))
	if e.Cfg.AfterEcho != nil {
		e.Cfg.AfterEcho(c, ctx)
	}
}

// ErrNetTimeout marks a run that did not finish within its deadline (inconclusive, not a verdict).
var ErrNetTimeout = fmt.Errorf("loopback exchange did not finish within the deadline")

// Run writes frags over one new connection (a pause after some of them lets the
// server see the fragment boundary, though a real socket cannot guarantee it) and
// reads everything the server writes until it closes the connection. The stream
// must make the server close (last request carries Connection: close, or is
// rejected); Result.Err is ErrNetTimeout otherwise.
func (e *NetEcho) Run(frags [][]byte, _ sconn.End) ([]Obs, sconn.Result, *sconn.Conn) {
	e.mu.Lock()
	e.obs = nil
	e.mu.Unlock()
	var res sconn.Result
	c, err := net.Dial("unix", e.sock)
	if err != nil {
		res.Err = err
		return nil, res, nil
	}
	defer c.Close()
	done := make(chan struct{})
	var out []byte
	var rerr error
	timeout := e.Timeout
	if timeout == 0 {
		timeout = 20 * time.Second
	}
	var maxLate int64
	go func() {
		for {
			select {
			case <-done:
				return
			default:
			}
			t0 := time.Now()
			time.Sleep(time.Millisecond)
			if late := int64(time.Since(t0) - time.Millisecond); late > atomic.LoadInt64(&maxLate) {
				atomic.StoreInt64(&maxLate, late)
			}
		}
	}()
	go func() {
		defer close(done)
		c.SetReadDeadline(time.Now().Add(timeout)) //nolint:errcheck
		out, rerr = io.ReadAll(c)
	}()
	pause := len(frags) <= 40
	go func() {
		for i, f := range frags {
			if len(f) == 0 {
				continue
			}
			if _, err := c.Write(f); err != nil {
				return
			}
			if d, ok := e.PauseAfter[i]; ok {
				time.Sleep(d)
			} else if pause && i < len(frags)-1 {
				time.Sleep(150 * time.Microsecond)
			}
		}
	}()
	<-done
	e.MaxLate = time.Duration(atomic.LoadInt64(&maxLate))
	res.Output = out
	if rerr != nil {
		if ne, ok := rerr.(net.Error); ok && ne.Timeout() {
			res.Err = ErrNetTimeout
		}
		// a reset after the server closed with unread input is a close
	}
	res.Closed = res.Err == nil
	e.mu.Lock()
	obs := e.obs
	e.obs = nil
	e.mu.Unlock()
	return obs, res, nil
}

// Close shuts the server down.
func (e *NetEcho) Close() {
	ctx, cancel := context.WithTimeout(context.Background(), time.Second)
	defer cancel()
	e.H.Shutdown(ctx) //nolint:errcheck
	os.Remove(e.sock)
}
