// Package srv wraps a real hertz engine (through sconn) with a catch-all echo
// handler that records what each handler invocation observed.
package srv

import (
	"context"
	"fmt"
	"io"
	"strings"

	"github.com/cloudwego/hertz/pkg/app"
	"github.com/cloudwego/hertz/pkg/app/server"
	"github.com/cloudwego/hertz/pkg/common/config"

	"verifharness/sconn"
	"verifharness/wire"
)

// Obs is what one handler invocation saw.
type Obs struct {
	Method   string    `json:"method"`
	URI      string    `json:"uri"`
	Proto    string    `json:"proto"`
	Headers  []wire.KV `json:"headers"`
	Body     []byte    `json:"-"`
	BodyLen  int       `json:"body_len"`
	BodyErr  string    `json:"body_err,omitempty"`
	Streamed bool      `json:"streamed,omitempty"`
	Trailers []wire.KV `json:"trailers,omitempty"`
}

// Config of an echo server.
type Config struct {
	Stream  bool
	MaxBody int // 0 = default (4 MiB)
	ReadBuf int
	Extra   []config.Option
	// BeforeEcho runs inside the handler before the observation is taken (may be nil).
	BeforeEcho func(c context.Context, ctx *app.RequestContext)
	// ReadBody overrides how the streaming body is consumed (nil = io.ReadAll).
	ReadBody func(r io.Reader) ([]byte, error)
	// AfterEcho runs at the end of the handler, after the response has been prepared (may be nil).
	AfterEcho func(c context.Context, ctx *app.RequestContext)
	// Setup may register real routes (the echo handler is passed in); everything else goes to NoRoute.
	Setup func(h *server.Hertz, echo app.HandlerFunc)
}

// Echo is a reusable echo server; Obs is reset by each Run.
type Echo struct {
	S    *sconn.Server
	Cfg  Config
	obs  []Obs
	conn *sconn.Conn
}

// NewEcho builds the engine. The default engine has no recovery middleware.
func NewEcho(cfg Config) *Echo {
	e := &Echo{Cfg: cfg}
	opts := []config.Option{server.WithStreamBody(cfg.Stream)}
	if cfg.MaxBody > 0 {
		opts = append(opts, server.WithMaxRequestBodySize(cfg.MaxBody))
	}
	opts = append(opts, cfg.Extra...)
	e.S = sconn.NewServer(func(h *server.Hertz) {
		h.NoRoute(e.handle)
		if cfg.Setup != nil {
			cfg.Setup(h, e.handle)
		}
	}, opts...)
	if cfg.ReadBuf > 0 {
		e.S.ReadBuf = cfg.ReadBuf
	}
	return e
}

func (e *Echo) handle(c context.Context, ctx *app.RequestContext) {
	if e.conn != nil {
		e.conn.SetHandlerPhase(true)
		defer e.conn.SetHandlerPhase(false)
	}
	if e.Cfg.BeforeEcho != nil {
		e.Cfg.BeforeEcho(c, ctx)
	}
	var o Obs
	o.Method = string(ctx.Request.Header.Method())
	o.URI = string(ctx.Request.Header.RequestURI())
	o.Proto = ctx.Request.Header.GetProtocol()
	ctx.Request.Header.VisitAll(func(k, v []byte) {
		o.Headers = append(o.Headers, wire.KV{K: string(k), V: string(v)})
	})
	if ctx.Request.IsBodyStream() {
		o.Streamed = true
		var b []byte
		var err error
		if e.Cfg.ReadBody != nil {
			b, err = e.Cfg.ReadBody(ctx.RequestBodyStream())
		} else {
			b, err = io.ReadAll(ctx.RequestBodyStream())
		}
		o.Body = b
		if err != nil {
			o.BodyErr = err.Error()
		}
	} else {
		o.Body = append([]byte(nil), ctx.Request.Body()...)
	}
	o.BodyLen = len(o.Body)
	ctx.Request.Header.Trailer().VisitAll(func(k, v []byte) {
		o.Trailers = append(o.Trailers, wire.KV{K: string(k), V: string(v)})
	})
	idx := len(e.obs)
	e.obs = append(e.obs, o)
	ctx.SetStatusCode(200)
	ctx.Response.Header.Set("X-Echo-Index", fmt.Sprint(idx))
	ctx.SetBodyString(fmt.Sprintf("idx=%d;method=%s;uri=%s;bodylen=%d", idx, o.Method, o.URI, len(o.Body)))
	if e.Cfg.AfterEcho != nil {
		e.Cfg.AfterEcho(c, ctx)
	}
}

// Run serves one scripted connection and returns the observations.
func (e *Echo) Run(frags [][]byte, end sconn.End) ([]Obs, sconn.Result, *sconn.Conn) {
	e.obs = nil
	c := sconn.New(frags, end)
	e.conn = c
	res := e.S.Serve(c)
	e.conn = nil
	obs := e.obs
	e.obs = nil
	return obs, res, c
}

// Close stops the engine.
func (e *Echo) Close() { e.S.Close() }

// Resps decodes the server output with the strict response reader. methods
// lists the request methods in order; interim 100-continue responses are
// returned inline (Status 100). It stops at the first error.
func Resps(out []byte, methods []string) ([]*wire.ParsedResp, error) {
	var rs []*wire.ParsedResp
	pos, mi := 0, 0
	for pos < len(out) {
		m := "GET"
		if mi < len(methods) {
			m = methods[mi]
		}
		r, err := wire.ReadResponse(out, pos, m)
		if err != nil {
			return rs, fmt.Errorf("response #%d at byte %d: %w", len(rs), pos, err)
		}
		rs = append(rs, r)
		pos = r.End
		if r.Status/100 != 1 {
			mi++
		}
	}
	return rs, nil
}

// IsRejection reports whether r is a server-originated rejection: a 4xx that
// carries Connection: close (the echo handler itself only ever answers 200).
func IsRejection(r *wire.ParsedResp) bool {
	return r.Status >= 400 && r.Status < 500 && wire.HasToken(r.Headers, "Connection", "close")
}

// EchoIndex extracts idx from an echo response body (or -1).
func EchoIndex(r *wire.ParsedResp) int {
	v := wire.Get(r.Headers, "X-Echo-Index")
	if len(v) != 1 {
		return -1
	}
	var n int
	if _, err := fmt.Sscanf(v[0], "%d", &n); err != nil {
		return -1
	}
	return n
}

// Short renders bytes for messages.
func Short(b []byte) string {
	if len(b) > 160 {
		return fmt.Sprintf("%q...(%d bytes)...%q", b[:80], len(b), b[len(b)-60:])
	}
	return fmt.Sprintf("%q", b)
}

// Describe renders an observation list.
func Describe(obs []Obs) string {
	var sb strings.Builder
	for i, o := range obs {
		fmt.Fprintf(&sb, "[%d] %s %s body=%s hdr=%v tr=%v err=%s\n", i, o.Method, o.URI, Short(o.Body), o.Headers, o.Trailers, o.BodyErr)
	}
	return sb.String()
}

// Match compares one observation with the abstract request it should be.
// foldedNames lists lower-case header names whose value was obs-folded (compared
// with whitespace runs squeezed). Returns "" when they agree.
func Match(r *wire.Req, foldedNames map[string]bool, o *Obs) string {
	if o.Method != r.Method {
		return fmt.Sprintf("method %q, want %q", o.Method, r.Method)
	}
	if o.URI != r.Target {
		return fmt.Sprintf("target %q, want %q", o.URI, r.Target)
	}
	if o.BodyErr != "" {
		return fmt.Sprintf("body stream error %q", o.BodyErr)
	}
	if string(o.Body) != string(r.Body) {
		d := 0
		for d < len(o.Body) && d < len(r.Body) && o.Body[d] == r.Body[d] {
			d++
		}
		return fmt.Sprintf("body differs: got %d bytes, want %d, first difference at %d; got %s want %s", len(o.Body), len(r.Body), d, Short(o.Body), Short(r.Body))
	}
	want := wire.NormLoose(r.Lines, foldedNames)
	got := wire.NormLoose(o.Headers, foldedNames)
	if strings.Join(want, "\n") != strings.Join(got, "\n") {
		return fmt.Sprintf("header fields differ:\n got  %q\n want %q", got, want)
	}
	// a field sent on several lines may reach the handler as several entries or combined into one
	// ("v, second-line", RFC 7230 3.2.2): both sides are compared in the combined form
	wt := wire.NormLoose(combineSameName(r.Trailers), foldedNames)
	gt := wire.NormLoose(combineSameName(o.Trailers), foldedNames)
	if strings.Join(wt, "\n") != strings.Join(gt, "\n") {
		return fmt.Sprintf("declared trailers differ: got %q want %q", gt, wt)
	}
	return ""
}

// combineSameName joins the values of entries with the same name (ignoring case), in order, with ", ".
func combineSameName(kvs []wire.KV) []wire.KV {
	var out []wire.KV
outer:
	for _, kv := range kvs {
		for i := range out {
			if strings.EqualFold(out[i].K, kv.K) {
				out[i].V = strings.Trim(wire.Unfold(out[i].V), " \t") + ", " + strings.Trim(wire.Unfold(kv.V), " \t")
				continue outer
			}
		}
		out = append(out, kv)
	}
	return out
}
