// Package ev collects per-run evidence counters inside a test binary and
// writes them to the file named by VERIF_EV_OUT, where the driver merges the
// shards into /verif/evidence/<id>.json.
package ev

import (
	"encoding/binary"
	"encoding/json"
	"fmt"
	"hash/fnv"
	"os"
	"sort"
	"strconv"
	"sync"
)

const (
	maxSamples = 6
	hashCap    = 150000
)

// Recorder accumulates the evidence of one unit (one Test function).
type Recorder struct {
	mu        sync.Mutex
	Unit      string
	evals     int64
	nontriv   int64 // non-trivial evaluations (not necessarily distinct)
	exactNT   int64 // distinct non-trivial by construction (exhaustive enumerators)
	hashes    map[uint64]struct{}
	capped    bool
	classes   map[string]int64
	samples   []interface{}
	excluded  map[string]int64
	exhaustiv bool
	bound     string
	notes     []string
}

var (
	regMu sync.Mutex
	reg   []*Recorder
)

// New registers a recorder for a unit.
func New(unit string) *Recorder {
	r := &Recorder{Unit: unit, hashes: map[uint64]struct{}{}, classes: map[string]int64{}, excluded: map[string]int64{}}
	regMu.Lock()
	reg = append(reg, r)
	regMu.Unlock()
	return r
}

// Hash is FNV-64a of the canonical encoding of a case.
func Hash(parts ...[]byte) uint64 {
	h := fnv.New64a()
	var l [8]byte
	for _, p := range parts {
		binary.LittleEndian.PutUint64(l[:], uint64(len(p)))
		h.Write(l[:])
		h.Write(p)
	}
	return h.Sum64()
}

// HashString hashes strings.
func HashString(parts ...string) uint64 {
	h := fnv.New64a()
	var l [8]byte
	for _, p := range parts {
		binary.LittleEndian.PutUint64(l[:], uint64(len(p)))
		h.Write(l[:])
		h.Write([]byte(p))
	}
	return h.Sum64()
}

// Case records one evaluated case. If nontrivial, hash identifies the case
// for distinct counting.
func (r *Recorder) Case(nontrivial bool, hash uint64, classes ...string) {
	r.mu.Lock()
	r.evals++
	if nontrivial {
		r.nontriv++
		if len(r.hashes) < hashCap {
			r.hashes[hash] = struct{}{}
		} else if _, ok := r.hashes[hash]; !ok {
			r.capped = true
		}
	}
	for _, c := range classes {
		r.classes[c]++
	}
	r.mu.Unlock()
}

// Class bumps a class counter without counting an evaluation.
func (r *Recorder) Class(c string, n int64) {
	r.mu.Lock()
	r.classes[c] += n
	r.mu.Unlock()
}

// Exact adds evaluations of an exhaustive enumerator whose cases are distinct
// by construction.
func (r *Recorder) Exact(evals, nontrivial int64) {
	r.mu.Lock()
	r.evals += evals
	r.nontriv += nontrivial
	r.exactNT += nontrivial
	r.mu.Unlock()
}

// Exhaustive marks the unit as a complete enumeration within bound.
func (r *Recorder) Exhaustive(bound string) {
	r.mu.Lock()
	r.exhaustiv = true
	r.bound = bound
	r.mu.Unlock()
}

// Note attaches a free-text note.
func (r *Recorder) Note(format string, a ...interface{}) {
	r.mu.Lock()
	if len(r.notes) < 20 {
		r.notes = append(r.notes, fmt.Sprintf(format, a...))
	}
	r.mu.Unlock()
}

// Excluded counts cases removed from the domain by construction.
func (r *Recorder) Excluded(reason string, n int64) {
	r.mu.Lock()
	r.excluded[reason] += n
	r.mu.Unlock()
}

// Sample keeps up to maxSamples cases, written out in full (JSON-encodable).
func (r *Recorder) Sample(v interface{}) {
	r.mu.Lock()
	if len(r.samples) < maxSamples {
		r.samples = append(r.samples, v)
	}
	r.mu.Unlock()
}

// WantSample reports whether another sample would be kept.
func (r *Recorder) WantSample() bool {
	r.mu.Lock()
	defer r.mu.Unlock()
	return len(r.samples) < maxSamples
}

type unitOut struct {
	Unit          string           `json:"unit"`
	Evaluations   int64            `json:"evaluations"`
	NonTrivial    int64            `json:"nontrivial_evaluations"`
	ExactDistinct int64            `json:"exact_distinct_nontrivial"`
	Hashes        []string         `json:"hashes"`
	Capped        bool             `json:"hash_cap_reached"`
	Classes       map[string]int64 `json:"classes"`
	Samples       []interface{}    `json:"samples"`
	Excluded      map[string]int64 `json:"excluded"`
	Exhaustive    bool             `json:"exhaustive"`
	Bound         string           `json:"bound,omitempty"`
	Notes         []string         `json:"notes,omitempty"`
}

// Flush writes all recorders to VERIF_EV_OUT (no-op if unset).
func Flush() {
	out := os.Getenv("VERIF_EV_OUT")
	if out == "" {
		return
	}
	regMu.Lock()
	defer regMu.Unlock()
	var units []unitOut
	for _, r := range reg {
		r.mu.Lock()
		if r.evals == 0 && len(r.classes) == 0 {
			r.mu.Unlock()
			continue
		}
		u := unitOut{Unit: r.Unit, Evaluations: r.evals, NonTrivial: r.nontriv, ExactDistinct: r.exactNT,
			Capped: r.capped, Classes: r.classes, Samples: r.samples, Excluded: r.excluded,
			Exhaustive: r.exhaustiv, Bound: r.bound, Notes: r.notes}
		hs := make([]uint64, 0, len(r.hashes))
		for h := range r.hashes {
			hs = append(hs, h)
		}
		sort.Slice(hs, func(i, j int) bool { return hs[i] < hs[j] })
		u.Hashes = make([]string, len(hs))
		for i, h := range hs {
			u.Hashes[i] = strconv.FormatUint(h, 36)
		}
		r.mu.Unlock()
		units = append(units, u)
	}
	b, err := json.Marshal(units)
	if err != nil {
		fmt.Fprintf(os.Stderr, "ev: marshal: %v\n", err)
		// samples may be unencodable; retry without them
		for i := range units {
			units[i].Samples = []interface{}{fmt.Sprintf("unencodable samples: %v", err)}
		}
		b, _ = json.Marshal(units)
	}
	if err := os.WriteFile(out, b, 0o644); err != nil {
		fmt.Fprintf(os.Stderr, "ev: write %s: %v\n", out, err)
	}
}

// Env helpers shared by the test packages.

// Tier returns "quick" or "thorough".
func Tier() string {
	if os.Getenv("VERIF_TIER") == "thorough" {
		return "thorough"
	}
	return "quick"
}

// Thorough reports whether the thorough tier is running.
func Thorough() bool { return Tier() == "thorough" }

// Shard returns this process's shard index and the number of shards.
func Shard() (int, int) {
	i, _ := strconv.Atoi(os.Getenv("VERIF_SHARD"))
	n, _ := strconv.Atoi(os.Getenv("VERIF_NSHARDS"))
	if n <= 0 {
		return 0, 1
	}
	return i, n
}

// Seed returns VERIF_SEED (default 1).
func Seed() int64 {
	s, err := strconv.ParseInt(os.Getenv("VERIF_SEED"), 10, 64)
	if err != nil {
		return 1
	}
	return s
}

// ReplayDir is where non-rapid failures write their replay inputs.
func ReplayDir() string {
	d := os.Getenv("VERIF_REPLAY_DIR")
	if d == "" {
		d = os.TempDir()
	}
	return d
}

// ReplayFile is the path of an input to re-run (driver --replay), or "".
func ReplayFile() string { return os.Getenv("VERIF_REPLAY_FILE") }

var failMu sync.Mutex
var failN int

// Fail writes a replay file for a non-rapid failure and prints the line the
// driver turns into a VIOLATION. It returns the path.
func Fail(prop, unit string, input interface{}, msg string) string {
	failMu.Lock()
	failN++
	n := failN
	failMu.Unlock()
	sh, _ := Shard()
	path := fmt.Sprintf("%s/%s-%s-s%d-%d.json", ReplayDir(), prop, unit, sh, n)
	b, err := json.MarshalIndent(map[string]interface{}{"property": prop, "unit": unit, "input": input, "message": msg}, "", " ")
	if err != nil {
		b = []byte(fmt.Sprintf("{\"property\":%q,\"unit\":%q,\"message\":%q}", prop, unit, msg))
	}
	_ = os.WriteFile(path, b, 0o644)
	fmt.Printf("VERIF-FAIL property=%s unit=%s replay=%s msg=%s\n", prop, unit, path, strconv.Quote(truncate(msg, 400)))
	return path
}

// Known prints a KNOWN-FINDING line (the driver forwards it).
func Known(prop, text string) {
	fmt.Printf("KNOWN-FINDING: property=%s %s\n", prop, text)
}

var (
	knownOnce sync.Once
	knownList map[string]string // id -> text of the entries with status "known"
	knownSaid = map[string]bool{}
)

// KnownListed reports whether the committed known-findings file lists the finding id with status
// "known" (a genuine defect that is recorded, not repaired). The file is only read, never written.
func KnownListed(id string) (string, bool) {
	knownOnce.Do(func() {
		knownList = map[string]string{}
		path := os.Getenv("VERIF_KNOWN")
		if path == "" {
			root := os.Getenv("VERIF_ROOT")
			if root == "" {
				root = "/verif"
			}
			path = root + "/known_findings.json"
		}
		b, err := os.ReadFile(path)
		if err != nil {
			return
		}
		var f struct {
			Findings []struct {
				Status, ID, Text string
			} `json:"findings"`
		}
		if json.Unmarshal(b, &f) != nil {
			return
		}
		for _, e := range f.Findings {
			if e.Status == "known" {
				knownList[e.ID] = e.Text
			}
		}
	})
	t, ok := knownList[id]
	return t, ok
}

// ReportKnown prints the KNOWN-FINDING line of a listed finding once per process. It returns false
// when the finding is not listed: the caller then treats the failing case as an ordinary violation.
func ReportKnown(prop, id string) bool {
	text, ok := KnownListed(id)
	if !ok {
		return false
	}
	failMu.Lock()
	said := knownSaid[id]
	knownSaid[id] = true
	failMu.Unlock()
	if !said {
		Known(prop, id+" "+text)
	}
	return true
}

func truncate(s string, n int) string {
	if len(s) > n {
		return s[:n] + "..."
	}
	return s
}

// LoadReplay reads the "input" member of a replay file into v.
func LoadReplay(path string, v interface{}) error {
	b, err := os.ReadFile(path)
	if err != nil {
		return err
	}
	var w struct {
		Input json.RawMessage `json:"input"`
	}
	if err := json.Unmarshal(b, &w); err != nil {
		return err
	}
	return json.Unmarshal(w.Input, v)
}
