// Package cli drives the real http1.HostClient through the scripted dialer.
package cli

import (
	"context"
	"fmt"
	"io"
	"net"
	"runtime/debug"
	"strings"

	"github.com/cloudwego/hertz/pkg/protocol"
	"github.com/cloudwego/hertz/pkg/protocol/http1"

	"verifharness/sconn"
	"verifharness/wire"
)

// Client wraps a HostClient whose every dial is answered by Next.
type Client struct {
	HC *http1.HostClient
	D  *sconn.Dialer
	// Resp, when set, is the one Response object used for every Do (an application that keeps its
	// request and response objects instead of acquiring them per call); nil = a pooled one per call.
	Resp *protocol.Response
	// SkipNext: the caller sets Response.SkipBody for the next Do (status and header fields only)
	SkipNext bool
}

// New builds a HostClient for example.com:80 with the scripted dialer.
func New(o http1.ClientOptions, next func(n int, addr string) (net.Conn, error)) *Client {
	d := &sconn.Dialer{Next: next}
	o.Dialer = d
	hc := http1.NewHostClient(&o).(*http1.HostClient)
	hc.Addr = "example.com:80"
	return &Client{HC: hc, D: d}
}

// RespObs is everything a caller can observe from one Do.
type RespObs struct {
	Err      string    `json:"err,omitempty"`
	Panic    string    `json:"panic,omitempty"`
	Status   int       `json:"status"`
	Headers  []wire.KV `json:"headers"`
	Body     []byte    `json:"-"`
	BodyLen  int       `json:"body_len"`
	BodyErr  string    `json:"body_err,omitempty"`
	Trailers []wire.KV `json:"trailers,omitempty"`
}

// Do performs one exchange and collects the observation. In stream mode the
// body stream is drained and closed.
func (c *Client) Do(req *protocol.Request) (o RespObs) {
	resp := c.Resp
	if resp == nil {
		resp = protocol.AcquireResponse()
		defer protocol.ReleaseResponse(resp)
	}
	defer func() {
		if r := recover(); r != nil {
			o.Panic = fmt.Sprintf("%v\n%s", r, debug.Stack())
		}
	}()
	if c.SkipNext {
		resp.SkipBody = true
		defer func() { resp.SkipBody = false }()
	}
	err := c.HC.Do(context.Background(), req, resp)
	if err != nil {
		o.Err = err.Error()
		return
	}
	o.Status = resp.StatusCode()
	resp.Header.VisitAll(func(k, v []byte) {
		o.Headers = append(o.Headers, wire.KV{K: string(k), V: string(v)})
	})
	if resp.IsBodyStream() {
		b, err := io.ReadAll(resp.BodyStream())
		o.Body = b
		if err != nil {
			o.BodyErr = err.Error()
		}
		if err := resp.CloseBodyStream(); err != nil && o.BodyErr == "" {
			o.BodyErr = "close: " + err.Error()
		}
	} else {
		o.Body = append([]byte(nil), resp.Body()...)
	}
	o.BodyLen = len(o.Body)
	resp.Header.Trailer().VisitAll(func(k, v []byte) {
		o.Trailers = append(o.Trailers, wire.KV{K: string(k), V: string(v)})
	})
	return
}

// String renders the observation canonically (for metamorphic comparison).
func (o RespObs) String() string {
	return fmt.Sprintf("err=%q panic=%v status=%d headers=%q body(%d)=%q bodyErr=%q trailers=%q", ErrClass(o.Err), o.Panic != "", o.Status, o.Headers, len(o.Body), o.Body, o.BodyErr, o.Trailers)
}

// ErrClass strips the diagnostic buffer dump that hertz appends to parse
// errors (buffer size and a quoted snippet of the buffered bytes, which
// legitimately depend on how much had been read when the error was found).
func ErrClass(e string) string {
	for _, cut := range []string{". Buffer size=", "\""} {
		if i := strings.Index(e, cut); i >= 0 {
			e = e[:i]
		}
	}
	return e
}
