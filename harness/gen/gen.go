// Package gen holds rapid generators shared by the connection-level checks.
package gen

import (
	"fmt"
	"sort"
	"strings"

	"pgregory.net/rapid"

	"verifharness/wire"
)

// BodyLen draws a body length from a mixture centred on the buffer boundaries
// the code imposes.
func BodyLen(t *rapid.T, label string, allowHuge bool) int {
	switch c := rapid.IntRange(0, 99).Draw(t, label+"Class"); {
	case c < 12:
		return 0
	case c < 45:
		return rapid.IntRange(1, 64).Draw(t, label)
	case c < 70:
		return rapid.SampledFrom([]int{1023, 1024, 1025, 4094, 4095, 4096, 4097, 8190, 8191, 8192, 8193, 8194}).Draw(t, label)
	case c < 86:
		return rapid.IntRange(65, 20000).Draw(t, label)
	case c < 97:
		return rapid.SampledFrom([]int{16384, 65535, 65536, 65537, 70000}).Draw(t, label)
	default:
		if allowHuge {
			return rapid.SampledFrom([]int{512*1024 - 1, 512 * 1024, 512*1024 + 1}).Draw(t, label)
		}
		return rapid.IntRange(20000, 40000).Draw(t, label)
	}
}

var lookAlikes = []string{"\r\n", "0\r\n\r\n", "GET /smuggled HTTP/1.1\r\nHost: h\r\n\r\n", "5\r\nhello\r\n", "\r\n\r\n", "ffff\r\n", "HTTP/1.1 200 OK\r\nContent-Length: 0\r\n\r\n", "a\r\n"}

// Body returns n position-dependent bytes salted with HTTP look-alikes so
// that a slipped boundary yields a parseable wrong message.
func Body(n, idx int, salt byte, flavor int) []byte {
	b := make([]byte, n)
	for i := range b {
		b[i] = "abcdefghijklmnopqrstuvwxyz0123456789ABCDEF"[(i*7+i/41+idx*13+int(salt))%42]
	}
	if flavor > 0 && n > 0 {
		la := lookAlikes[(flavor+idx)%len(lookAlikes)]
		// at the start, at the end and around the middle
		for _, off := range []int{0, n/2 - len(la)/2, n - len(la)} {
			if flavor&1 == 0 && off == 0 {
				continue
			}
			if off >= 0 && off+len(la) <= n {
				copy(b[off:], la)
			}
		}
	}
	return b
}

var methods = []string{"GET", "GET", "POST", "POST", "PUT", "HEAD", "DELETE", "OPTIONS", "PATCH", "FOO"}

var benignNames = []string{"X-A", "x-b", "Accept", "X-Custom-Header", "Foo", "X-mIxEd-cAsE", "accept-language", "X-A", "If-None-Match", "Cache-Control", "x_underscore", "X.dot", "Referer"}

// near-miss framing names: tokens that are not Content-Length / Transfer-Encoding
var nearMissNames = []string{"Content_Length", "Content-Lengt", "XContent-Length", "Content-Length2", "Content-Lengthx", "Content--Length", "ContentLength", "Content-Lenght",
	"Transfer_Encoding", "Transfer-Encodin", "XTransfer-Encoding", "Transfer-Encoding2", "TransferEncoding", "Content-length-", "content.length", "Content-Length!", "Content|Length", "Content~Length",
	"Transfer^Encoding", "Transfer.Encoding"}

// BitNearMiss returns token names that differ from a framing name in exactly one byte by ^0x20 / ^0x40 / ^0x01 perturbation and are still tokens but not case variants.
func bitNearMiss() []string {
	var out []string
	for _, base := range []string{"Content-Length", "Transfer-Encoding"} {
		for i := 0; i < len(base); i++ {
			for _, x := range []byte{0x01, 0x02, 0x10, 0x20, 0x40} {
				c := base[i] ^ x
				n := base[:i] + string(c) + base[i+1:]
				if strings.EqualFold(n, base) {
					continue
				}
				if !isToken(n) {
					continue
				}
				out = append(out, n)
			}
		}
	}
	sort.Strings(out)
	return out
}

var bitNearMissNames = bitNearMiss()

func isToken(s string) bool {
	if s == "" {
		return false
	}
	for i := 0; i < len(s); i++ {
		c := s[i]
		switch {
		case 'a' <= c && c <= 'z', 'A' <= c && c <= 'Z', '0' <= c && c <= '9':
		case strings.IndexByte("!#$%&'*+-.^_`|~", c) >= 0:
		default:
			return false
		}
	}
	return true
}

func mixCase(t *rapid.T, s string) string {
	mode := rapid.IntRange(0, 3).Draw(t, "caseMode")
	switch mode {
	case 0:
		return s
	case 1:
		return strings.ToLower(s)
	case 2:
		return strings.ToUpper(s)
	}
	b := []byte(s)
	mask := rapid.Uint32().Draw(t, "caseMask")
	for i := range b {
		if mask>>(uint(i)%32)&1 == 1 {
			if 'a' <= b[i] && b[i] <= 'z' {
				b[i] -= 32
			} else if 'A' <= b[i] && b[i] <= 'Z' {
				b[i] += 32
			}
		}
	}
	return string(b)
}

var valueAtoms = []string{"v", "value", "1", "5", "42", "a b", "a,b", "a;q=0.5", "\"quoted\"", "x=y", "é", "\xff\xfe", "a\tb", "*/*", "text/plain", "0", "chunked", "close", "100-continue", "keep-alive", "GET / HTTP/1.1", "a:b", "::", "", "  padded  ", "\ttab\t"}

// HeaderValue draws a field value; fold says whether obs-fold may be used.
func HeaderValue(t *rapid.T, fold bool) (string, bool) {
	n := rapid.IntRange(1, 3).Draw(t, "valueAtoms")
	var parts []string
	for i := 0; i < n; i++ {
		parts = append(parts, rapid.SampledFrom(valueAtoms).Draw(t, "atom"))
	}
	if fold && rapid.IntRange(0, 3).Draw(t, "fold") == 0 {
		sep := rapid.SampledFrom([]string{"\r\n ", "\r\n\t", "\r\n  ", " \r\n ", "\r\n \t "}).Draw(t, "foldSep")
		// a fold needs non-empty text on both sides to be unambiguous for every parser
		a := strings.Trim(strings.Join(parts, " "), " \t")
		if a == "" {
			a = "x"
		}
		b := rapid.SampledFrom([]string{"cont", "more words", "5", "k=v", "tail\ttab"}).Draw(t, "foldTail")
		v := a + sep + b
		// further continuation lines: a value folded over three or four lines
		for k := rapid.IntRange(0, 3).Draw(t, "moreFolds"); k > 1; k-- {
			v += rapid.SampledFrom([]string{"\r\n ", "\r\n\t", "\r\n  "}).Draw(t, "foldSep") + rapid.SampledFrom([]string{"gamma", "x y", "7"}).Draw(t, "foldTail")
		}
		return v, true
	}
	return strings.Join(parts, " "), false
}

// ReqOpts steers GenReq.
type ReqOpts struct {
	Fold      bool // may generate obs-folded values
	NearMiss  bool // may generate near-miss framing names
	Expect    bool // may generate Expect: 100-continue
	HTTP10    bool // may generate HTTP/1.0 requests
	Huge      bool // may generate 512 KiB bodies
	ChunkExt  bool // may generate chunk extensions (a recipient ignores them)
	TabOWS    bool // may put horizontal tabs (OWS = SP / HTAB) around the values of the framing fields
	NoBody    bool // never generate a body
	ForceBody bool // always generate a non-empty body
	MaxBody   int  // cap on the body length (0 = none)
}

// ReqInfo describes features of a generated request (for classification).
type ReqInfo struct {
	Folded, NearMiss, MixedFraming, Expect, DupCL, LeadingZeroCL, Trailers, H10, TabOWS bool
	FoldedNames                                                                         map[string]bool
}

// GenReq draws one well-formed, unambiguously framed request. last says the
// connection ends with it (Connection: close is then allowed but not forced).
func GenReq(t *rapid.T, idx int, o ReqOpts) (*wire.Req, *ReqInfo) {
	info := &ReqInfo{FoldedNames: map[string]bool{}}
	r := &wire.Req{Proto: "HTTP/1.1"}
	r.Method = rapid.SampledFrom(methods).Draw(t, "method")
	r.Target = fmt.Sprintf("/r%d", idx)
	switch rapid.IntRange(0, 4).Draw(t, "targetForm") {
	case 0:
		r.Target += "/sub/path"
	case 1:
		r.Target += "?a=1&b=%20x"
	case 2:
		r.Target += "/p?q=" + strings.Repeat("z", rapid.IntRange(0, 40).Draw(t, "queryLen"))
	}
	if o.HTTP10 && rapid.IntRange(0, 9).Draw(t, "http10") == 0 {
		r.Proto = "HTTP/1.0"
		info.H10 = true
	}

	// body and framing
	n := 0
	if !o.NoBody {
		n = BodyLen(t, "bodyLen", o.Huge)
		if o.ForceBody && n == 0 {
			n = rapid.IntRange(1, 300).Draw(t, "forcedBodyLen")
		}
		if o.MaxBody > 0 && n > o.MaxBody {
			n = o.MaxBody
		}
	}
	salt := byte(rapid.IntRange(0, 255).Draw(t, "bodySalt"))
	flavor := rapid.IntRange(0, 8).Draw(t, "bodyFlavor")
	r.Body = Body(n, idx, salt, flavor)
	r.BodyLen = n
	fr := rapid.IntRange(0, 9).Draw(t, "framing")
	switch {
	case n == 0 && fr < 5:
		r.Framing = wire.FrNone
	case fr < 5 || info.H10:
		r.Framing = wire.FrCL
	default:
		r.Framing = wire.FrChunked
	}

	var lines []wire.KV
	lines = append(lines, wire.KV{K: mixCase(t, "Host"), V: "example.com"})
	var framingLines []wire.KV
	switch r.Framing {
	case wire.FrCL:
		v := fmt.Sprint(n)
		if rapid.IntRange(0, 7).Draw(t, "clZeros") == 0 {
			v = strings.Repeat("0", rapid.IntRange(1, 3).Draw(t, "clZeroN")) + v
			info.LeadingZeroCL = true
		}
		name := mixCase(t, "Content-Length")
		if name != "Content-Length" {
			info.MixedFraming = true
		}
		if o.TabOWS && rapid.IntRange(0, 5).Draw(t, "tabOWS") == 0 {
			// optional whitespace around a field value is SP or HTAB; it is not part of the value
			v = rapid.SampledFrom([]string{"\t", " \t", "\t ", ""}).Draw(t, "owsBefore") + v + rapid.SampledFrom([]string{"\t", " \t ", "", "\t"}).Draw(t, "owsAfter")
			info.TabOWS = true
		} else if o.TabOWS && o.Fold && rapid.IntRange(0, 9).Draw(t, "foldedLength") == 0 {
			// the value on a continuation line of its own ("Content-Length:" CRLF SP "3"): a folded framing field
			v = rapid.SampledFrom([]string{"\r\n ", "\r\n\t", "\r\n  "}).Draw(t, "foldSep") + v
			if rapid.IntRange(0, 2).Draw(t, "emptyContinuationBehind") == 0 {
				// ... or in front of an empty continuation line: what is left around the value after unfolding is OWS
				v += rapid.SampledFrom([]string{" \r\n ", "\r\n\t", "\t\r\n "}).Draw(t, "foldSepBehind")
			}
			info.Folded = true
		}
		framingLines = append(framingLines, wire.KV{K: name, V: v})
		if rapid.IntRange(0, 9).Draw(t, "clDup") == 0 {
			framingLines = append(framingLines, wire.KV{K: mixCase(t, "Content-Length"), V: v})
			info.DupCL = true
		}
	case wire.FrChunked:
		name := mixCase(t, "Transfer-Encoding")
		if name != "Transfer-Encoding" {
			info.MixedFraming = true
		}
		te := "chunked"
		if o.TabOWS && rapid.IntRange(0, 5).Draw(t, "tabOWS") == 0 {
			te = rapid.SampledFrom([]string{"\t", " \t", "\t "}).Draw(t, "owsBefore") + te + rapid.SampledFrom([]string{"\t", " \t ", ""}).Draw(t, "owsAfter")
			info.TabOWS = true
		}
		framingLines = append(framingLines, wire.KV{K: name, V: te})
		nch := rapid.IntRange(1, 5).Draw(t, "nChunks")
		for i := 0; i < nch && n > 0; i++ {
			switch rapid.IntRange(0, 3).Draw(t, "chunkClass") {
			case 0:
				r.ChunkSizes = append(r.ChunkSizes, 1)
			case 1:
				r.ChunkSizes = append(r.ChunkSizes, n)
			default:
				r.ChunkSizes = append(r.ChunkSizes, rapid.IntRange(1, n).Draw(t, "chunkSize"))
			}
		}
		r.HexUpper = rapid.Bool().Draw(t, "hexUpper")
		if rapid.IntRange(0, 5).Draw(t, "chunkZeros") == 0 {
			r.LeadingZeros = rapid.IntRange(1, 3).Draw(t, "chunkZeroN")
		}
		if o.ChunkExt && rapid.IntRange(0, 5).Draw(t, "chunkExt") == 0 {
			r.ChunkExt = rapid.SampledFrom([]string{";ext=1", ";seq=1;sig=\"a1b2\"", ";0", " ;x", ";n", "\t;a=b", " \t ; x=y", "\t"}).Draw(t, "chunkExtText")
		}
		if rapid.IntRange(0, 2).Draw(t, "trailers") == 0 {
			nt := rapid.IntRange(1, 3).Draw(t, "nTrailers")
			var names []string
			for i := 0; i < nt; i++ {
				nm := rapid.SampledFrom([]string{"X-Trailer-A", "X-Checksum", "x-tr-b", "Foo-Trailer", "0-Trailer", "00"}).Draw(t, "trailerName")
				dup := false
				for _, e := range names {
					if strings.EqualFold(e, nm) {
						dup = true
					}
				}
				if dup {
					continue
				}
				names = append(names, nm)
				v, folded := HeaderValue(t, o.Fold)
				v = strings.Trim(v, " \t")
				if v == "" {
					v = "tv"
				}
				if folded {
					// trailer fields are header fields: obs-fold applies to them as well
					info.Folded = true
					info.FoldedNames[strings.ToLower(nm)] = true
				}
				r.Trailers = append(r.Trailers, wire.KV{K: nm, V: v})
			}
			if o.TabOWS && rapid.IntRange(0, 3).Draw(t, "trailerFieldOnTwoLines") == 0 {
				// a declared trailer field sent on two field lines (a list field spread over lines): both reach the handler
				i := rapid.IntRange(0, len(r.Trailers)-1).Draw(t, "trailerRepeated")
				r.Trailers = append(r.Trailers, wire.KV{K: r.Trailers[i].K, V: "second-line"})
			}
			seps := []string{",", ", "}
			if o.TabOWS {
				seps = append(seps, ",\t", " ,\t ") // optional whitespace around list elements is SP or HTAB
			}
			if o.TabOWS && len(names) >= 2 && rapid.IntRange(0, 3).Draw(t, "trailerTwoLines") == 0 {
				// a list field may be spread over several lines; they combine
				k := rapid.IntRange(1, len(names)-1).Draw(t, "trailerSplit")
				framingLines = append(framingLines, wire.KV{K: mixCase(t, "Trailer"), V: strings.Join(names[:k], rapid.SampledFrom(seps).Draw(t, "trailerSep"))})
				framingLines = append(framingLines, wire.KV{K: mixCase(t, "Trailer"), V: strings.Join(names[k:], rapid.SampledFrom(seps).Draw(t, "trailerSep"))})
			} else {
				framingLines = append(framingLines, wire.KV{K: mixCase(t, "Trailer"), V: strings.Join(names, rapid.SampledFrom(seps).Draw(t, "trailerSep"))})
			}
			info.Trailers = true
		}
	}
	if o.Expect && n > 0 && rapid.IntRange(0, 5).Draw(t, "expect") == 0 {
		framingLines = append(framingLines, wire.KV{K: "Expect", V: "100-continue"})
		// an HTTP/1.0 client does not know interim responses: the expectation is ignored there (RFC 7231 5.1.1),
		// the request is read and answered like any other and no "100 Continue" precedes its response
		r.Expect100 = !info.H10
		info.Expect = true
	}

	// extra header fields
	nh := rapid.IntRange(0, 8).Draw(t, "nHeaders")
	var extra []wire.KV
	for i := 0; i < nh; i++ {
		var name string
		c := rapid.IntRange(0, 9).Draw(t, "nameClass")
		switch {
		case o.NearMiss && c == 0:
			name = rapid.SampledFrom(nearMissNames).Draw(t, "nearMiss")
			info.NearMiss = true
		case o.NearMiss && c == 1:
			name = rapid.SampledFrom(bitNearMissNames).Draw(t, "bitNearMiss")
			info.NearMiss = true
		default:
			name = rapid.SampledFrom(benignNames).Draw(t, "name")
		}
		var v string
		if c <= 1 && o.NearMiss {
			v = rapid.SampledFrom([]string{"5", "0", "1", "chunked", "7", "100"}).Draw(t, "decoy")
		} else {
			var folded bool
			v, folded = HeaderValue(t, o.Fold)
			if folded {
				info.Folded = true
				info.FoldedNames[strings.ToLower(name)] = true
			}
		}
		extra = append(extra, wire.KV{K: name, V: v})
	}
	// now and then a header block larger than one read buffer / buffer node (4 KiB): a value of
	// distinct bytes, so that a misplaced copy shows
	if rapid.IntRange(0, 11).Draw(t, "bigHeader") == 0 {
		n := rapid.SampledFrom([]int{3000, 4000, 4096, 4600, 5000, 9000}).Draw(t, "bigHeaderLen")
		b := make([]byte, n)
		for i := range b {
			b[i] = "abcdefghijklmnopqrstuvwxyz0123456789"[(i*7+i/36+idx)%36]
		}
		extra = append(extra, wire.KV{K: "X-Big", V: string(b)})
	}
	// interleave framing lines at random positions among the extra lines
	pos := make([]int, len(framingLines))
	for i := range framingLines {
		pos[i] = rapid.IntRange(0, len(extra)).Draw(t, "framingPos")
	}
	sort.Ints(pos)
	fi := 0
	for i := 0; i <= len(extra); i++ {
		for fi < len(framingLines) && pos[fi] == i {
			lines = append(lines, framingLines[fi])
			fi++
		}
		if i < len(extra) {
			lines = append(lines, extra[i])
		}
	}
	r.Lines = lines
	return r, info
}

// SetClose marks the request as the last on its connection.
func SetClose(r *wire.Req) {
	if r.Proto == "HTTP/1.0" {
		r.Close = true // HTTP/1.0 without keep-alive closes
		return
	}
	r.Lines = append(r.Lines, wire.KV{K: "Connection", V: "close"})
	r.Close = true
}

// Cuts draws a segmentation of a stream of length n as ascending cut offsets.
// marks are offsets the cuts are biased towards.
func Cuts(t *rapid.T, n int, marks []int) []int {
	if n <= 1 {
		return nil
	}
	switch rapid.IntRange(0, 9).Draw(t, "segMode") {
	case 0: // whole
		return nil
	case 1: // byte-wise (bounded)
		if n <= 3000 {
			c := make([]int, n-1)
			for i := range c {
				c[i] = i + 1
			}
			return c
		}
		fallthrough
	case 2, 3: // fixed size reads
		sz := rapid.SampledFrom([]int{1, 2, 3, 7, 100, 1000, 4095, 4096, 4097, 8192}).Draw(t, "segSize")
		if n/sz > 4000 {
			sz = n / 4000
		}
		var c []int
		for p := sz; p < n; p += sz {
			c = append(c, p)
		}
		return c
	case 4: // one cut
		return []int{rapid.IntRange(1, n-1).Draw(t, "cut")}
	}
	// k-way, biased to marks and 4096 multiples
	k := rapid.IntRange(1, 8).Draw(t, "nCuts")
	set := map[int]bool{}
	for i := 0; i < k; i++ {
		var p int
		switch rapid.IntRange(0, 3).Draw(t, "cutClass") {
		case 0, 1:
			if len(marks) > 0 {
				p = rapid.SampledFrom(marks).Draw(t, "mark") + rapid.IntRange(-3, 3).Draw(t, "markDelta")
				break
			}
			fallthrough
		case 2:
			p = rapid.IntRange(1, n-1).Draw(t, "cut")
		case 3:
			p = 4096*rapid.IntRange(1, 1+n/4096).Draw(t, "cut4k") + rapid.IntRange(-2, 2).Draw(t, "cut4kDelta")
		}
		if p >= 1 && p <= n-1 {
			set[p] = true
		}
	}
	var c []int
	for p := range set {
		c = append(c, p)
	}
	sort.Ints(c)
	return c
}

// Stream is a generated pipelined request stream.
type Stream struct {
	Reqs  []*wire.Req
	Infos []*ReqInfo
	Bytes []byte
	Marks []wire.Marks
	Cuts  []int
}

// AllMarks returns the interesting offsets of the stream (message and part boundaries).
func (s *Stream) AllMarks() []int {
	var m []int
	for _, k := range s.Marks {
		m = append(m, k.Start, k.HeaderEnd, k.End)
		m = append(m, k.ChunkStarts...)
	}
	return m
}

// GenStream draws 1..maxReqs pipelined requests and a segmentation.
func GenStream(t *rapid.T, maxReqs int, o ReqOpts) *Stream {
	k := rapid.IntRange(1, maxReqs).Draw(t, "nReqs")
	s := &Stream{}
	for i := 0; i < k; i++ {
		r, info := GenReq(t, i, o)
		last := i == k-1
		if last {
			if rapid.IntRange(0, 2).Draw(t, "closeLast") == 0 {
				SetClose(r)
				if o.TabOWS && r.Proto != "HTTP/1.0" && rapid.IntRange(0, 2).Draw(t, "closeSpelledOtherwise") == 0 {
					// the close option is a case-insensitive token in a list that may span lines (RFC 7230 6.1)
					r.Lines = r.Lines[:len(r.Lines)-1]
					switch rapid.IntRange(0, 4).Draw(t, "closeSpelling") {
					case 0:
						r.Lines = append(r.Lines, wire.KV{K: "Connection", V: "Close"})
					case 1:
						r.Lines = append(r.Lines, wire.KV{K: "Connection", V: "CLOSE"})
					case 2:
						r.Lines = append(r.Lines, wire.KV{K: "Connection", V: "X-Hop, close"})
					case 3:
						r.Lines = append(r.Lines, wire.KV{K: "Connection", V: "close ,\tX-Hop"})
					case 4:
						r.Lines = append(r.Lines, wire.KV{K: "Connection", V: "close"}, wire.KV{K: "Connection", V: "X-Hop"})
					}
				}
			} else if r.Proto == "HTTP/1.0" {
				r.Close = true
			}
		} else if r.Proto == "HTTP/1.0" {
			r.Lines = append(r.Lines, wire.KV{K: "Connection", V: "keep-alive"})
		}
		s.Reqs = append(s.Reqs, r)
		s.Infos = append(s.Infos, info)
	}
	s.Encode()
	s.Cuts = Cuts(t, len(s.Bytes), s.AllMarks())
	return s
}

// Encode (re)builds Bytes and Marks from Reqs.
func (s *Stream) Encode() {
	s.Bytes = s.Bytes[:0]
	s.Marks = s.Marks[:0]
	for _, r := range s.Reqs {
		var m wire.Marks
		s.Bytes, m = r.Encode(s.Bytes)
		s.Marks = append(s.Marks, m)
	}
}

// ---------------------------------------------------------------------------
// Responses (client direction).

// RespOpts steers GenResp.
type RespOpts struct {
	FoldTrailers bool // obs-folded trailer values even when Fold is off
	Fold         bool
	UntilClose   bool // until-close framing allowed (last response on a connection)
	Huge         bool
	ChunkExt     bool // chunk extensions on chunk-size lines (a recipient ignores them)
	OtherInterim bool // interim responses other than 100 Continue (102, 103) before the final one
	// KeepAliveUntilClose: a read-until-close response may carry "Connection: keep-alive" (it closes all the same)
	KeepAliveUntilClose bool
}

// GenResp draws a well-formed response to a request with the given method.
func GenResp(t *rapid.T, idx int, method string, o RespOpts) *wire.Resp {
	r := &wire.Resp{Proto: "HTTP/1.1"}
	r.Status = rapid.SampledFrom([]int{200, 200, 200, 201, 204, 304, 404, 500, 206, 302}).Draw(t, "status")
	r.Reason = map[int]string{200: "OK", 201: "Created", 204: "No Content", 304: "Not Modified", 404: "Not Found", 500: "Internal Server Error", 206: "Partial Content", 302: "Found"}[r.Status]
	if rapid.IntRange(0, 9).Draw(t, "oddReason") == 0 {
		r.Reason = rapid.SampledFrom([]string{"", "Whatever Reason", "OK OK"}).Draw(t, "reason")
	}
	bodiless := wire.Bodiless(method, r.Status)
	n := BodyLen(t, "respBodyLen", o.Huge)
	salt := byte(rapid.IntRange(0, 255).Draw(t, "respSalt"))
	flavor := rapid.IntRange(0, 8).Draw(t, "respFlavor")
	var lines []wire.KV
	nh := rapid.IntRange(0, 5).Draw(t, "nRespHeaders")
	for i := 0; i < nh; i++ {
		name := rapid.SampledFrom([]string{"X-A", "x-b", "Cache-Control", "X-Custom-Header", "ETag", "Vary", "X-A", "Location", "Set-Cookie"}).Draw(t, "respName")
		var v string
		if name == "Set-Cookie" {
			v = fmt.Sprintf("k%d=v%d; Path=/", i, idx)
		} else {
			v, _ = HeaderValue(t, o.Fold)
		}
		lines = append(lines, wire.KV{K: name, V: v})
	}
	if rapid.IntRange(0, 3).Draw(t, "contentType") == 0 {
		lines = append(lines, wire.KV{K: "Content-Type", V: rapid.SampledFrom([]string{"text/plain", "application/json; charset=utf-8", "application/octet-stream"}).Draw(t, "ct")})
	}
	fr := rapid.IntRange(0, 9).Draw(t, "respFraming")
	switch {
	case bodiless:
		r.Framing = wire.FrNone
		// stray framing headers on bodiless responses are legal and must be ignored for framing
		switch rapid.IntRange(0, 3).Draw(t, "strayFraming") {
		case 0:
			lines = append(lines, wire.KV{K: "Content-Length", V: fmt.Sprint(n)})
		case 1:
			if r.Status != 204 && r.Status/100 != 1 {
				lines = append(lines, wire.KV{K: "Transfer-Encoding", V: "chunked"})
			}
		}
		n = 0
	case o.UntilClose && fr == 0:
		r.Framing = wire.FrUntilClose
	case fr < 5:
		r.Framing = wire.FrCL
		lines = append(lines, wire.KV{K: mixCase(t, "Content-Length"), V: fmt.Sprint(n)})
	default:
		r.Framing = wire.FrChunked
		lines = append(lines, wire.KV{K: mixCase(t, "Transfer-Encoding"), V: "chunked"})
		nch := rapid.IntRange(1, 4).Draw(t, "respNChunks")
		for i := 0; i < nch && n > 0; i++ {
			r.ChunkSizes = append(r.ChunkSizes, rapid.IntRange(1, n).Draw(t, "respChunk"))
		}
		r.HexUpper = rapid.Bool().Draw(t, "respHexUpper")
		if rapid.IntRange(0, 2).Draw(t, "respTrailers") == 0 {
			nm := rapid.SampledFrom([]string{"X-Trailer-A", "X-Checksum"}).Draw(t, "respTrailerName")
			tv := "tv" + fmt.Sprint(idx)
			if (o.Fold || o.FoldTrailers) && rapid.IntRange(0, 2).Draw(t, "respTrailerFold") == 0 {
				tv += rapid.SampledFrom([]string{"\r\n ", "\r\n\t", "\r\n  "}).Draw(t, "respTrailerFoldSep") + "cont"
			}
			r.Trailers = append(r.Trailers, wire.KV{K: nm, V: tv})
			lines = append(lines, wire.KV{K: "Trailer", V: nm})
		}
	}
	if r.Framing == wire.FrUntilClose {
		switch rapid.IntRange(0, 3).Draw(t, "connClose") {
		case 0, 1:
			lines = append(lines, wire.KV{K: "Connection", V: "close"})
		case 2:
			if o.KeepAliveUntilClose {
				// a server that announces keep-alive and then gives no length: the body still ends where the connection ends
				lines = append(lines, wire.KV{K: "Connection", V: "keep-alive"})
			}
		case 3:
			if o.KeepAliveUntilClose {
				// what Apache sends on plain responses when it offers h2c
				lines = append(lines, wire.KV{K: "Upgrade", V: "h2c"}, wire.KV{K: "Connection", V: "Upgrade"})
			}
		}
	}
	r.Body = Body(n, idx, salt, flavor)
	r.BodyLen = n
	r.Lines = lines
	if rapid.IntRange(0, 7).Draw(t, "interim") == 0 {
		r.Interim100 = rapid.IntRange(1, 2).Draw(t, "nInterim")
		if o.OtherInterim {
			r.InterimStatus = rapid.SampledFrom([]int{0, 0, 102, 103}).Draw(t, "interimStatus")
		}
	}
	if r.Framing == wire.FrChunked && o.ChunkExt && rapid.IntRange(0, 4).Draw(t, "respChunkExt") == 0 {
		r.ChunkExt = rapid.SampledFrom([]string{";seq=1", ";seq=2;sig=\"a1b2\"", ";x", "\t;a=b", " \t"}).Draw(t, "respChunkExtText")
	}
	return r
}

// ---------------------------------------------------------------------------
// Structure-aware mutation of encoded messages.

var hostileBytes = []byte{'\r', '\n', 0, ' ', '\t', ':', ';', ',', '=', '&', '%', '+', '/', '.', '\\', '"', '-', '0', '9', 'a', 'Z', 0x7f, 0x80, 0xff}

// hostileNumbers sit on every integer boundary a length parser can trip over, in decimal and in hex
// with exactly 8, 15, 16 and 17 digits (chunk sizes are hex; an int has 16 hex digits, its sign bit the top one).
var hostileNumbers = []string{"0", "1", "-1", "99999999999999999999", "18446744073709551615", "18446744073709551614", "18446744073709551616", "4294967296", "4294967295", "2147483648", "2147483647",
	"9223372036854775807", "9223372036854775806", "9223372036854775808", "00000000000000000001", "1e3", "0x5", "", " 7",
	"7fffffff", "80000000", "ffffffff", "100000000", "fffffffffffffff", "7fffffffffffffff", "7ffffffffffffffe", "8000000000000000", "8000000000000001", "fffffffffffffffe", "ffffffffffffffff", "FFFFFFFFFFFFFFFF", "10000000000000000", "0000000000000000000000001"}

var hostileSnippets = []string{
	"Trailer: a,,b\r\n", "Trailer: ,\r\n", "Trailer: Content-Length\r\n", "Trailer: \r\n", "Transfer-Encoding: chunked\r\n", "Content-Length: 5\r\n", "Content-Length: -1\r\n",
	"Content-Length: 18446744073709551616\r\n", "Content-Length: 9223372036854775807\r\n", "Content-Length: 99999999999999999999\r\n", "Content-Length: 0x10\r\n", "Content-Length: +5\r\n", "Content-Length: 5 5\r\n", "Content-Length:\r\n",
	"Transfer-Encoding: identity\r\n", "Transfer-Encoding: gzip, chunked\r\n", "Expect: 100-continue\r\n", "Connection: close\r\n", "Connection: keep-alive, close\r\n", "Host: \r\n", "Host: a\r\nHost: b\r\n",
	"Content-Type: multipart/form-data; boundary=\r\n", "Content-Type: multipart/form-data; boundary=\"\r\n", "Content-Type: multipart/form-data; boundary=x\r\n", "Content-Type: multipart/form-data\r\n",
	"Cookie: =; ;=; a\r\n", "Cookie: a=\"b; c\r\n", "Range: bytes=-\r\n", "If-Modified-Since: x\r\n", ": novalue\r\n", "NoColon\r\n", " leading: space\r\n", "\r\n", "\n", "\r", "\r\r\n", "\n\n",
	"ffffffffffffffffff\r\n", "7fffffffffffffff\r\n", "ffffffffffffffff\r\n", "8000000000000000\r\n", "7ffffffffffffffe\r\n", "1\r\na\r\n7fffffffffffffff\r\n", "-1\r\n", "0\r\n\r\n", "1;ext\r\na\r\n", "GET a:b HTTP/1.1\r\n\r\n", "GET * HTTP/1.1\r\nHost: h\r\n\r\n", "GET http://h/p HTTP/1.1\r\nHost: h\r\n\r\n", "GET //h//p HTTP/1.1\r\nHost: h\r\n\r\n",
	"OPTIONS * HTTP/1.1\r\nHost: h\r\n\r\n", "CONNECT h:1 HTTP/1.1\r\n\r\n", "GET / HTTP/1.1\r\n\r\n", "GET / HTTP/0.9\r\n\r\n", "GET /\r\n\r\n", " / HTTP/1.1\r\n\r\n", "GET  HTTP/1.1\r\nHost: h\r\n\r\n",
	"HTTP/1.1 200 OK\r\n\r\n", "HTTP/1.1 100 Continue\r\n\r\n", "HTTP/1.1 999\r\n\r\n", "HTTP/1.1 abc OK\r\n\r\n", "HTTP/1.1 20\r\n\r\n", "HTTP/1.1\r\n\r\n", "Set-Cookie: a=b; SameSite=\r\n", "Set-Cookie: =\r\n", "Set-Cookie: a=b; expires=x; max-age=y\r\n",
}

// Mutate applies 1..3 structure-aware mutations to b. marks are interesting
// offsets (line/part boundaries); it returns the mutant and the mutator names.
func Mutate(t *rapid.T, b []byte, marks []int) ([]byte, []string) {
	out := append([]byte(nil), b...)
	var names []string
	k := rapid.IntRange(1, 3).Draw(t, "nMutations")
	for i := 0; i < k; i++ {
		lines := lineStarts(out)
		m := rapid.IntRange(0, 11).Draw(t, "mutator")
		switch m {
		case 0: // delete a line
			if len(lines) >= 2 {
				j := rapid.IntRange(0, len(lines)-2).Draw(t, "line")
				out = append(out[:lines[j]:lines[j]], out[lines[j+1]:]...)
				names = append(names, "delete-line")
			}
		case 1: // duplicate a line
			if len(lines) >= 2 {
				j := rapid.IntRange(0, len(lines)-2).Draw(t, "line")
				l := append([]byte(nil), out[lines[j]:lines[j+1]]...)
				out = append(out[:lines[j+1]:lines[j+1]], append(l, out[lines[j+1]:]...)...)
				names = append(names, "duplicate-line")
			}
		case 2: // transpose two adjacent lines
			if len(lines) >= 3 {
				j := rapid.IntRange(0, len(lines)-3).Draw(t, "line")
				a := append([]byte(nil), out[lines[j]:lines[j+1]]...)
				bb := append([]byte(nil), out[lines[j+1]:lines[j+2]]...)
				copy(out[lines[j]:], bb)
				copy(out[lines[j]+len(bb):], a)
				names = append(names, "transpose-lines")
			}
		case 3: // truncate
			if len(out) > 1 {
				p := rapid.IntRange(1, len(out)-1).Draw(t, "truncateAt")
				if len(marks) > 0 && rapid.Bool().Draw(t, "truncateAtMark") {
					q := rapid.SampledFrom(marks).Draw(t, "mark") + rapid.IntRange(-3, 3).Draw(t, "delta")
					if q >= 1 && q < len(out) {
						p = q
					}
				}
				out = out[:p]
				names = append(names, "truncate")
			}
		case 4, 5: // replace a delimiter by a hostile byte
			var ds []int
			for j, c := range out {
				if c == ' ' || c == ':' || c == '\r' || c == '\n' || c == ',' || c == ';' || c == '=' {
					ds = append(ds, j)
					if len(ds) > 4000 {
						break
					}
				}
			}
			if len(ds) > 0 {
				j := rapid.SampledFrom(ds).Draw(t, "delim")
				out[j] = rapid.SampledFrom(hostileBytes).Draw(t, "hostileByte")
				names = append(names, "replace-delimiter")
			}
		case 6: // insert hostile bytes
			if len(out) > 0 {
				p := rapid.IntRange(0, len(out)).Draw(t, "insertAt")
				n := rapid.IntRange(1, 4).Draw(t, "insertN")
				ins := make([]byte, n)
				for x := range ins {
					ins[x] = rapid.SampledFrom(hostileBytes).Draw(t, "hostileByte")
				}
				out = append(out[:p:p], append(ins, out[p:]...)...)
				names = append(names, "insert-bytes")
			}
		case 7, 8: // insert a hostile snippet at a line start
			if len(lines) > 0 {
				p := lines[rapid.IntRange(0, len(lines)-1).Draw(t, "line")]
				sn := rapid.SampledFrom(hostileSnippets).Draw(t, "snippet")
				out = append(out[:p:p], append([]byte(sn), out[p:]...)...)
				names = append(names, "insert-snippet")
			}
		case 9: // overwrite a digit run with a hostile number
			var ds []int
			for j, c := range out {
				if c >= '0' && c <= '9' && (j == 0 || out[j-1] < '0' || out[j-1] > '9') {
					ds = append(ds, j)
					if len(ds) > 2000 {
						break
					}
				}
			}
			if len(ds) > 0 {
				j := rapid.SampledFrom(ds).Draw(t, "digitRun")
				e := j
				isHex := func(c byte) bool {
					return c >= '0' && c <= '9' || c >= 'a' && c <= 'f' || c >= 'A' && c <= 'F'
				}
				lineStart := j == 0 || out[j-1] == '\n'
				for e < len(out) && (out[e] >= '0' && out[e] <= '9' || lineStart && isHex(out[e])) {
					e++ // a run at a line start is (most often) a chunk-size line: replace all its hex digits
				}
				num := rapid.SampledFrom(hostileNumbers).Draw(t, "number")
				out = append(out[:j:j], append([]byte(num), out[e:]...)...)
				names = append(names, "hostile-number")
			}
		case 10: // flip one byte anywhere
			if len(out) > 0 {
				p := rapid.IntRange(0, len(out)-1).Draw(t, "flipAt")
				out[p] ^= byte(1 << uint(rapid.IntRange(0, 7).Draw(t, "bit")))
				names = append(names, "bit-flip")
			}
		case 11: // splice: move a chunk of bytes elsewhere
			if len(out) > 8 {
				a := rapid.IntRange(0, len(out)-2).Draw(t, "spliceFrom")
				l := rapid.IntRange(1, min(64, len(out)-a)).Draw(t, "spliceLen")
				seg := append([]byte(nil), out[a:a+l]...)
				rest := append(out[:a:a], out[a+l:]...)
				p := rapid.IntRange(0, len(rest)).Draw(t, "spliceTo")
				out = append(rest[:p:p], append(seg, rest[p:]...)...)
				names = append(names, "splice")
			}
		}
	}
	return out, names
}

func min(a, b int) int {
	if a < b {
		return a
	}
	return b
}

func lineStarts(b []byte) []int {
	s := []int{0}
	for i, c := range b {
		if c == '\n' && i+1 <= len(b) {
			s = append(s, i+1)
			if len(s) > 400 {
				break
			}
		}
	}
	return s
}

// Havoc draws a pure hostile byte string.
func Havoc(t *rapid.T, maxLen int) []byte {
	n := rapid.IntRange(0, maxLen).Draw(t, "havocLen")
	var out []byte
	for len(out) < n {
		if rapid.IntRange(0, 3).Draw(t, "havocSnippet") == 0 {
			out = append(out, rapid.SampledFrom(hostileSnippets).Draw(t, "snippet")...)
		} else {
			out = append(out, rapid.SampledFrom(hostileBytes).Draw(t, "hostileByte"))
		}
	}
	return out
}
