// Package sconn provides a scripted net.Conn, a transporter that hands the
// real Engine's onData to the harness, and a scripted dialer for the client.
package sconn

import (
	"bytes"
	"context"
	"crypto/tls"
	"errors"
	"fmt"
	"io"
	"net"
	"os"
	"runtime/debug"
	"sync"
	"sync/atomic"
	"syscall"
	"time"

	"github.com/cloudwego/hertz/pkg/app/server"
	"github.com/cloudwego/hertz/pkg/common/config"
	"github.com/cloudwego/hertz/pkg/common/hlog"
	"github.com/cloudwego/hertz/pkg/network"
	"github.com/cloudwego/hertz/pkg/network/standard"
)

func init() {
	hlog.SetOutput(io.Discard)
	hlog.SetLevel(hlog.LevelFatal)
}

// End says what a Read returns once the fragment schedule is exhausted.
type End int

const (
	EOF     End = iota // peer closed
	Timeout            // read deadline exceeded (*net.OpError, Timeout()==true)
	Reset              // ECONNRESET
	// EOFWithLast: peer closed, and the Read that delivers the last bytes reports it at once (n > 0, io.EOF), as
	// crypto/tls does when the close_notify record arrives together with the last data record
	EOFWithLast
)

func (e End) String() string { return [...]string{"EOF", "Timeout", "Reset", "EOFWithLast"}[e] }

// ReadEvent records a wire Read issued while the handler-phase flag was set.
type ReadEvent struct {
	Delivered int // bytes delivered before this Read
	N         int // bytes returned
}

// Conn is a scripted net.Conn. One Read returns bytes of at most one fragment.
type Conn struct {
	mu    sync.Mutex
	frags [][]byte
	fi    int
	off   int
	end   End

	Delivered int
	reads     int

	// OnFirstWrite, when set, runs inside the first Write call, before the bytes are accepted
	OnFirstWrite   func()
	firstWriteSeen int32

	out         bytes.Buffer
	writeSizes  []int
	failAfter   int // fail writes once this many bytes were accepted; <0 never
	writeFailed bool

	closed     int32
	closeCount int32

	phase        int32 // set by harness while a handler runs
	HandlerReads []ReadEvent
	// EndReads counts Read calls issued after the whole script had been delivered: the server went
	// back to waiting for the peer (instead of closing) that many times.
	EndReads int

	deadlineCalls int
}

// New builds a scripted connection from fragments (copied).
func New(frags [][]byte, end End) *Conn {
	c := &Conn{end: end, failAfter: -1}
	for _, f := range frags {
		if len(f) == 0 {
			continue
		}
		c.frags = append(c.frags, append([]byte(nil), f...))
	}
	return c
}

// Split cuts stream at the given ascending offsets.
func Split(stream []byte, cuts []int) [][]byte {
	var out [][]byte
	prev := 0
	for _, c := range cuts {
		if c <= prev || c >= len(stream) {
			continue
		}
		out = append(out, stream[prev:c])
		prev = c
	}
	out = append(out, stream[prev:])
	return out
}

// FailWritesAfter makes Write fail (EPIPE) after n bytes were accepted.
func (c *Conn) FailWritesAfter(n int) { c.failAfter = n }

// SetHandlerPhase is toggled by the harness's handler wrapper.
func (c *Conn) SetHandlerPhase(on bool) {
	if on {
		atomic.StoreInt32(&c.phase, 1)
	} else {
		atomic.StoreInt32(&c.phase, 0)
	}
}

func (c *Conn) Read(p []byte) (int, error) {
	c.mu.Lock()
	defer c.mu.Unlock()
	if atomic.LoadInt32(&c.closed) != 0 {
		return 0, net.ErrClosed
	}
	if len(p) == 0 {
		return 0, nil
	}
	c.reads++
	inHandler := atomic.LoadInt32(&c.phase) != 0
	if c.fi >= len(c.frags) {
		c.EndReads++ // the server asked for more after everything had been delivered (it waits for the peer)
		if inHandler {
			c.HandlerReads = append(c.HandlerReads, ReadEvent{c.Delivered, 0})
		}
		switch c.end {
		case Timeout:
			return 0, &net.OpError{Op: "read", Net: "tcp", Err: os.ErrDeadlineExceeded}
		case Reset:
			return 0, &net.OpError{Op: "read", Net: "tcp", Err: syscall.ECONNRESET}
		}
		return 0, io.EOF
	}
	f := c.frags[c.fi][c.off:]
	n := copy(p, f)
	c.off += n
	if c.off == len(c.frags[c.fi]) {
		c.fi++
		c.off = 0
	}
	if inHandler {
		c.HandlerReads = append(c.HandlerReads, ReadEvent{c.Delivered, n})
	}
	c.Delivered += n
	if c.end == EOFWithLast && c.fi >= len(c.frags) {
		return n, io.EOF
	}
	return n, nil
}

func (c *Conn) Write(p []byte) (int, error) {
	if c.OnFirstWrite != nil && atomic.CompareAndSwapInt32(&c.firstWriteSeen, 0, 1) {
		c.OnFirstWrite() // the peer is slow to take the response: whatever the harness wants to happen meanwhile
	}
	c.mu.Lock()
	defer c.mu.Unlock()
	if atomic.LoadInt32(&c.closed) != 0 {
		return 0, net.ErrClosed
	}
	if c.failAfter >= 0 {
		room := c.failAfter - c.out.Len()
		if room < len(p) {
			if room > 0 {
				c.out.Write(p[:room])
				c.writeSizes = append(c.writeSizes, room)
			} else {
				room = 0
			}
			c.writeFailed = true
			return room, &net.OpError{Op: "write", Net: "tcp", Err: syscall.EPIPE}
		}
	}
	c.out.Write(p)
	c.writeSizes = append(c.writeSizes, len(p))
	return len(p), nil
}

// ReadFrom makes the scripted connection an io.ReaderFrom, like *net.TCPConn (sendfile / splice):
// transports take a fast path for body streams when the socket offers it. The bytes go to the same
// output, in call order, through Write.
func (c *Conn) ReadFrom(r io.Reader) (int64, error) {
	buf := make([]byte, 32*1024)
	var total int64
	for {
		n, err := r.Read(buf)
		if n > 0 {
			w, werr := c.Write(buf[:n])
			total += int64(w)
			if werr != nil {
				return total, werr
			}
		}
		if err == io.EOF {
			return total, nil
		}
		if err != nil {
			return total, err
		}
	}
}

// Output returns everything written so far.
func (c *Conn) Output() []byte {
	c.mu.Lock()
	defer c.mu.Unlock()
	return append([]byte(nil), c.out.Bytes()...)
}

// WriteSizes returns the sizes of the Write calls.
func (c *Conn) WriteSizes() []int {
	c.mu.Lock()
	defer c.mu.Unlock()
	return append([]int(nil), c.writeSizes...)
}

// Remaining returns the number of scripted bytes not yet delivered.
func (c *Conn) Remaining() int {
	c.mu.Lock()
	defer c.mu.Unlock()
	n := 0
	for i := c.fi; i < len(c.frags); i++ {
		n += len(c.frags[i])
	}
	return n - c.off
}

// Reads returns the number of Read calls.
func (c *Conn) Reads() int { c.mu.Lock(); defer c.mu.Unlock(); return c.reads }

func (c *Conn) Close() error {
	atomic.AddInt32(&c.closeCount, 1)
	atomic.StoreInt32(&c.closed, 1)
	return nil
}

// Closed reports whether Close was called.
func (c *Conn) Closed() bool { return atomic.LoadInt32(&c.closed) != 0 }

// CloseCount is the number of Close calls.
func (c *Conn) CloseCount() int { return int(atomic.LoadInt32(&c.closeCount)) }

type addr string

func (a addr) Network() string { return "tcp" }
func (a addr) String() string  { return string(a) }

func (c *Conn) LocalAddr() net.Addr                { return addr("127.0.0.1:8888") }
func (c *Conn) RemoteAddr() net.Addr               { return addr("127.0.0.1:40000") }
func (c *Conn) SetDeadline(t time.Time) error      { c.deadlineCalls++; return nil }
func (c *Conn) SetReadDeadline(t time.Time) error  { c.deadlineCalls++; return nil }
func (c *Conn) SetWriteDeadline(t time.Time) error { c.deadlineCalls++; return nil }

// ---------------------------------------------------------------------------

// Transporter hands engine.onData to the harness. It deliberately has no
// Listener() method, so Engine.IsRunning() is true while the engine runs.
type Transporter struct {
	onData network.OnData
	ready  chan struct{}
	stop   chan struct{}
	once   sync.Once
}

func NewTransporter() *Transporter {
	return &Transporter{ready: make(chan struct{}), stop: make(chan struct{})}
}

func (t *Transporter) ListenAndServe(onData network.OnData) error {
	t.onData = onData
	close(t.ready)
	<-t.stop
	return nil
}
func (t *Transporter) Close() error                       { t.once.Do(func() { close(t.stop) }); return nil }
func (t *Transporter) Shutdown(ctx context.Context) error { return t.Close() }

// Server is a real hertz engine driven through scripted connections.
type Server struct {
	H       *server.Hertz
	tr      *Transporter
	ReadBuf int
	runErr  chan error
}

// NewServer builds and starts (h.Run in a goroutine) an engine with the
// scripted transporter. setup registers routes/middleware.
func NewServer(setup func(h *server.Hertz), opts ...config.Option) *Server {
	tr := NewTransporter()
	all := append([]config.Option{server.WithTransport(func(*config.Options) network.Transporter { return tr })}, opts...)
	h := server.New(all...)
	if setup != nil {
		setup(h)
	}
	s := &Server{H: h, tr: tr, ReadBuf: 4096, runErr: make(chan error, 1)}
	go func() { s.runErr <- h.Run() }()
	// 120 separate one-second waits: a jump of the clock (a paused sandbox) ends at most one of them early
	for i := 0; ; i++ {
		select {
		case <-tr.ready:
			return s
		case err := <-s.runErr:
			panic(fmt.Sprintf("sconn: engine did not start: %v", err))
		case <-time.After(time.Second):
		}
		if i >= 120 {
			fmt.Println("VERIF-INCONCLUSIVE: sconn: engine did not start within 120 one-second waits")
			os.Exit(2)
		}
	}
}

// Result of serving one scripted connection.
type Result struct {
	Panic  interface{}
	Stack  string
	Err    error
	Output []byte
	Closed bool
}

// Serve runs one connection synchronously through the real engine.onData.
func (s *Server) Serve(c *Conn) (res Result) {
	nc := standard.NewConnForVerif(c, s.ReadBuf)
	func() {
		defer func() {
			if r := recover(); r != nil {
				res.Panic = r
				res.Stack = string(debug.Stack())
			}
		}()
		res.Err = s.tr.onData(context.Background(), nc)
	}()
	res.Output = c.Output()
	res.Closed = c.Closed()
	return res
}

// ServeConn runs engine.onData once on an existing buffered connection (used
// to emulate a poller that re-enters the protocol server when more data is
// readable). c is the scripted connection underneath nc.
func (s *Server) ServeConn(nc network.Conn, c *Conn) (res Result) {
	func() {
		defer func() {
			if r := recover(); r != nil {
				res.Panic = r
				res.Stack = string(debug.Stack())
			}
		}()
		res.Err = s.tr.onData(context.Background(), nc)
	}()
	res.Output = c.Output()
	res.Closed = c.Closed()
	return res
}

// Close stops the engine.
func (s *Server) Close() {
	s.tr.Close()
	select {
	case <-s.runErr:
	case <-time.After(5 * time.Second):
	}
}

// ---------------------------------------------------------------------------

// Dialer implements network.Dialer; every dial asks Next for a net.Conn.
type Dialer struct {
	mu    sync.Mutex
	Next  func(n int, addr string) (net.Conn, error)
	Dials int
	Conns []net.Conn
}

func (d *Dialer) DialConnection(nw, address string, timeout time.Duration, tlsConfig *tls.Config) (network.Conn, error) {
	d.mu.Lock()
	n := d.Dials
	d.Dials++
	d.mu.Unlock()
	c, err := d.Next(n, address)
	if err != nil {
		return nil, err
	}
	d.mu.Lock()
	d.Conns = append(d.Conns, c)
	d.mu.Unlock()
	return standard.NewConnForVerif(c, 4096), nil
}

func (d *Dialer) DialTimeout(nw, address string, timeout time.Duration, tlsConfig *tls.Config) (net.Conn, error) {
	return nil, errors.New("sconn: DialTimeout not supported")
}

func (d *Dialer) AddTLS(conn network.Conn, tlsConfig *tls.Config) (network.Conn, error) {
	return nil, errors.New("sconn: TLS not supported")
}

// DialCount returns the number of dials so far.
func (d *Dialer) DialCount() int { d.mu.Lock(); defer d.mu.Unlock(); return d.Dials }

// ---------------------------------------------------------------------------

// Reactive is a net.Conn for the client direction: the i-th scripted response
// becomes readable only after the client has written i complete requests
// (decided by the CountRequests callback over everything written so far).
type Reactive struct {
	mu        sync.Mutex
	written   bytes.Buffer
	responses [][][]byte // per response: fragments
	ri, fi    int
	off       int
	closed    int32
	End       End
	// CountRequests returns how many complete requests b contains.
	CountRequests func(b []byte) int
	// Served counts responses fully delivered.
	Served int
}

// NewReactive builds the connection; responses[i] is the list of fragments of the i-th response.
func NewReactive(responses [][][]byte, count func(b []byte) int, end End) *Reactive {
	return &Reactive{responses: responses, CountRequests: count, End: end}
}

func (c *Reactive) Read(p []byte) (int, error) {
	c.mu.Lock()
	defer c.mu.Unlock()
	if atomic.LoadInt32(&c.closed) != 0 {
		return 0, net.ErrClosed
	}
	if len(p) == 0 {
		return 0, nil
	}
	for c.ri < len(c.responses) && c.fi >= len(c.responses[c.ri]) {
		c.ri++
		c.fi = 0
		c.off = 0
		c.Served++
	}
	avail := c.CountRequests(c.written.Bytes())
	if c.ri >= len(c.responses) || c.ri >= avail {
		switch c.End {
		case Timeout:
			return 0, &net.OpError{Op: "read", Net: "tcp", Err: os.ErrDeadlineExceeded}
		case Reset:
			return 0, &net.OpError{Op: "read", Net: "tcp", Err: syscall.ECONNRESET}
		}
		return 0, io.EOF
	}
	f := c.responses[c.ri][c.fi][c.off:]
	n := copy(p, f)
	c.off += n
	if c.off == len(c.responses[c.ri][c.fi]) {
		c.fi++
		c.off = 0
	}
	return n, nil
}

func (c *Reactive) Write(p []byte) (int, error) {
	c.mu.Lock()
	defer c.mu.Unlock()
	if atomic.LoadInt32(&c.closed) != 0 {
		return 0, net.ErrClosed
	}
	c.written.Write(p)
	return len(p), nil
}

// Written returns everything the client wrote.
func (c *Reactive) Written() []byte {
	c.mu.Lock()
	defer c.mu.Unlock()
	return append([]byte(nil), c.written.Bytes()...)
}

func (c *Reactive) Close() error                       { atomic.StoreInt32(&c.closed, 1); return nil }
func (c *Reactive) Closed() bool                       { return atomic.LoadInt32(&c.closed) != 0 }
func (c *Reactive) LocalAddr() net.Addr                { return addr("127.0.0.1:40000") }
func (c *Reactive) RemoteAddr() net.Addr               { return addr("127.0.0.1:80") }
func (c *Reactive) SetDeadline(t time.Time) error      { return nil }
func (c *Reactive) SetReadDeadline(t time.Time) error  { return nil }
func (c *Reactive) SetWriteDeadline(t time.Time) error { return nil }
