package scratch

import (
	"fmt"
	"testing"

	"verifharness/sconn"
	"verifharness/srv"
)

func TestStreamOverLimit(t *testing.T) {
	for _, stream := range []bool{false, true} {
		e := srv.NewEcho(srv.Config{Stream: stream, MaxBody: 16})
		for _, req := range []string{
			"POST /up HTTP/1.1\r\nHost: h\r\nContent-Length: 32\r\n\r\n0123456789abcdef0123456789abcdefGET /next HTTP/1.1\r\nHost: h\r\n\r\n",
			"POST /up HTTP/1.1\r\nHost: h\r\nTransfer-Encoding: chunked\r\n\r\n20\r\n0123456789abcdef0123456789abcdef\r\n0\r\n\r\nGET /next HTTP/1.1\r\nHost: h\r\n\r\n",
			"POST /up HTTP/1.1\r\nHost: h\r\nContent-Length: 10000\r\n\r\n" + string(make([]byte, 10000)) + "GET /next HTTP/1.1\r\nHost: h\r\n\r\n",
		} {
			for _, end := range []sconn.End{sconn.EOF, sconn.Timeout} {
				obs, res, c := e.Run([][]byte{[]byte(req)}, end)
				fmt.Printf("stream=%v end=%v req=%.40q -> %d handlers:", stream, end, req, len(obs))
				for _, o := range obs {
					fmt.Printf(" [%s %s body=%d err=%q]", o.Method, o.URI, len(o.Body), o.BodyErr)
				}
				fmt.Printf(" closed=%v err=%v remaining=%d out=%.120q\n", res.Closed, res.Err, c.Remaining(), res.Output)
			}
		}
		e.Close()
	}
}
