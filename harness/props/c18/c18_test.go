package c18

import (
	"bytes"
	"context"
	"errors"
	"fmt"
	hnet "github.com/cloudwego/hertz/pkg/network"
	"net"
	"os"
	"os/signal"
	"path/filepath"
	"strings"
	"sync"
	"sync/atomic"
	"syscall"
	"testing"
	"time"

	"github.com/cloudwego/hertz/pkg/app"
	"github.com/cloudwego/hertz/pkg/app/server"
	"github.com/cloudwego/hertz/pkg/app/server/registry"
	"github.com/cloudwego/hertz/pkg/common/config"
	"github.com/cloudwego/hertz/pkg/network/netpoll"
	"github.com/cloudwego/hertz/pkg/network/standard"
	"github.com/cloudwego/hertz/pkg/protocol/http1/resp"
	"pgregory.net/rapid"

	"verifharness/ev"
	"verifharness/loadsense"
	_ "verifharness/sconn"
	"verifharness/wire"
)

const prop = "C18"

func TestMain(m *testing.M) {
	code := m.Run()
	ev.Flush()
	os.Exit(code)
}

const slack = 2 * time.Second

// ConnPlan is the state one client connection is in when Shutdown is called.
type ConnPlan struct {
	State    string `json:"state"`     // busy, idle, mid-request, connected
	BodySize int    `json:"body_size"` // response body of the busy request
	Release  string `json:"release"`   // busy only: before, after-hook, after-wait
	// Streamed (busy only): the handler streams its response with the chunked body writer; the header
	// block leaves with its first Write, which it makes after it has been released
	Streamed bool `json:"streamed,omitempty"`
	// MoreBytes (busy only): while its request is being handled the client has already written the beginning of
	// its next request on the connection (a pipelining client, a client that does not wait)
	MoreBytes bool `json:"client_sent_more_bytes,omitempty"`
}

type Plan struct {
	Network     string     `json:"network"` // unix or tcp
	Transport   string     `json:"transport"`
	WaitMs      int        `json:"exit_wait_ms"`
	Hook        string     `json:"hook"`                       // none, fast, 50ms, most-of-wait, beyond-wait
	Sense       bool       `json:"sense_client_disconnection"` // standard transport only
	OnConnectMs int        `json:"on_connect_ms,omitempty"`    // an OnConnect callback that takes this long; a last connection sends its request and is still inside the callback when Shutdown is called
	Registry    string     `json:"registry,omitempty"`         // "", "ok", "failing" or "slow": a service registry whose Deregister succeeds / returns an error / comes back only after the exit wait time
	Conns       []ConnPlan `json:"connections"`
}

type fakeRegistry struct {
	fail bool
	slow time.Duration
}

func (r *fakeRegistry) Register(*registry.Info) error { return nil }
func (r *fakeRegistry) Deregister(*registry.Info) error {
	if r.slow > 0 {
		time.Sleep(r.slow) // the registry centre answers late (slow or unreachable)
	}
	if r.fail {
		return errors.New("registry centre unreachable")
	}
	return nil
}

var sockCounter int32

func respBody(n, id int) []byte {
	b := make([]byte, n)
	for i := range b {
		b[i] = "0123456789abcdef"[(i+id)%16]
	}
	return b
}

// readResponse reads one complete response from c (deadline d).
func readResponse(c net.Conn, d time.Duration) (*wire.ParsedResp, []byte, error) {
	var buf []byte
	tmp := make([]byte, 65536)
	deadline := time.Now().Add(d)
	for {
		if pr, err := wire.ReadResponse(buf, 0, "GET"); err == nil && pr.Framing != wire.FrUntilClose {
			return pr, buf, nil
		}
		c.SetReadDeadline(deadline) //nolint:errcheck
		n, err := c.Read(tmp)
		buf = append(buf, tmp[:n]...)
		if err != nil {
			if pr, perr := wire.ReadResponse(buf, 0, "GET"); perr == nil && pr.Framing != wire.FrUntilClose {
				return pr, buf, nil
			}
			return nil, buf, err
		}
	}
}

// overloaded: every verdict of a scenario involves wall-clock ordering (release 60 ms after the hook
// against a 150 ms wait, "returns within wait + 2 s"). A heartbeat measures how late 1 ms sleeps wake
// up while the scenario runs; when the worst lateness exceeds this, the machine was too loaded for a
// verdict and the scenario counts as inconclusive (skipped, classified), never as a violation.
const overloaded = 100 * time.Millisecond

// starved: the kernel reports that during more than this fraction of the scenario some runnable
// task had no CPU (several runnable tasks per core). Every scenario has a 150..400 ms exit wait in
// which real work must happen (responses of up to 256 KiB are written and read), so on such a
// machine "did not finish within the wait" says nothing about hertz.
const starved = 0.9

var maxLate int64 // worst heartbeat lateness of the running scenario (ns)

func beatLate() time.Duration { return time.Duration(atomic.LoadInt64(&maxLate)) }

// cpuProbe measures CPU pressure while the scenario runs (see loadsense): the heartbeat only shows
// that timers fire on time, not that the threads doing the work get a core. The tight bound is taken
// only when both are quiet; tightTaken/tightSkipped count the two outcomes for the evidence.
var knownD67 int64

var (
	cpuProbe                 *loadsense.Probe
	tightTaken, tightSkipped int64
)

func quietMachine() bool {
	q := beatLate() <= 20*time.Millisecond && (cpuProbe == nil || cpuProbe.Stalled() <= loadsense.Busy)
	if q {
		atomic.AddInt64(&tightTaken, 1)
	} else {
		atomic.AddInt64(&tightSkipped, 1)
	}
	return q
}

func runPlan(p *Plan) (msg string, log []string) {
	atomic.StoreInt64(&maxLate, 0)
	cpuProbe = loadsense.Start()
	stopBeat := make(chan struct{})
	go func() {
		for {
			select {
			case <-stopBeat:
				return
			default:
			}
			t0 := time.Now()
			time.Sleep(time.Millisecond)
			if late := int64(time.Since(t0) - time.Millisecond); late > atomic.LoadInt64(&maxLate) {
				atomic.StoreInt64(&maxLate, late)
			}
		}
	}()
	msg, log = runPlanInner(p)
	close(stopBeat)
	if late := time.Duration(atomic.LoadInt64(&maxLate)); msg != "" && !strings.HasPrefix(msg, "harness:") && late > overloaded {
		msg = fmt.Sprintf("harness: overloaded (a 1 ms sleep woke up %v late), verdict dropped: %s", late, msg)
	}
	if st := cpuProbe.Stalled(); msg != "" && !strings.HasPrefix(msg, "harness:") && st > starved {
		msg = fmt.Sprintf("harness: overloaded (tasks waited for a CPU during %.0f%% of the scenario), verdict dropped: %s", 100*st, msg)
	}
	return msg, log
}

func runPlanInner(p *Plan) (msg string, log []string) {
	var lmu sync.Mutex
	t00 := time.Now()
	logf := func(f string, a ...interface{}) {
		lmu.Lock()
		log = append(log, fmt.Sprintf("%6.1fms ", float64(time.Since(t00).Microseconds())/1000)+fmt.Sprintf(f, a...))
		lmu.Unlock()
	}
	dir, _ := os.Getwd()
	network := "unix"
	sock := filepath.Join(dir, fmt.Sprintf("s%d.sock", atomic.AddInt32(&sockCounter, 1)))
	if p.Network == "tcp" {
		network = "tcp"
		l, err := net.Listen("tcp", "127.0.0.1:0")
		if err != nil {
			return "harness: no free port: " + err.Error(), log
		}
		sock = l.Addr().String()
		l.Close()
	} else {
		os.Remove(sock)
		defer os.Remove(sock)
	}
	wait := time.Duration(p.WaitMs) * time.Millisecond
	opts := []config.Option{server.WithNetwork(network), server.WithHostPorts(sock), server.WithExitWaitTime(wait)}
	if p.Transport == "netpoll" {
		opts = append(opts, server.WithTransport(netpoll.NewTransporter))
	} else {
		opts = append(opts, server.WithTransport(standard.NewTransporter))
		if p.Sense {
			opts = append(opts, server.WithSenseClientDisconnection(true))
		}
	}
	if p.Registry != "" {
		reg := &fakeRegistry{fail: p.Registry == "failing"}
		if p.Registry == "slow" {
			reg.slow = wait + slack + time.Second
		}
		opts = append(opts, server.WithRegistry(reg, &registry.Info{ServiceName: "c18", Weight: 10}))
	}
	var onConnectEntered int32
	dialed := int32(0) // connections this scenario opened so far (each passes through OnConnect once accepted)
	if p.OnConnectMs > 0 {
		opts = append(opts, server.WithOnConnect(func(ctx context.Context, conn hnet.Conn) context.Context {
			atomic.AddInt32(&onConnectEntered, 1)
			time.Sleep(time.Duration(p.OnConnectMs) * time.Millisecond)
			return ctx
		}))
	}
	h := server.New(opts...)
	if p.Registry == "failing" {
		// known finding D49: Shutdown gives up before the transport is shut down; whatever the scenario
		// observes, the listener must not outlive it
		defer h.Close() //nolint:errcheck
	}
	entered := make(chan int, 16)
	release := map[int]chan struct{}{}
	for i := range p.Conns {
		release[i] = make(chan struct{})
	}
	releaseOnce := map[int]*sync.Once{}
	for i := range p.Conns {
		releaseOnce[i] = &sync.Once{}
	}
	doRelease := func(i int) { releaseOnce[i].Do(func() { close(release[i]) }) }
	defer func() {
		for i := range p.Conns {
			doRelease(i)
		}
	}()
	handlerDone := make([]int64, len(p.Conns)) // unix nanos when the handler returned (0 = not yet)
	h.GET("/park/:id", func(c context.Context, ctx *app.RequestContext) {
		var id int
		fmt.Sscanf(ctx.Param("id"), "%d", &id)
		entered <- id
		<-release[id]
		ctx.SetStatusCode(200)
		if p.Conns[id].Streamed {
			ctx.Response.HijackWriter(resp.NewChunkedBodyWriter(&ctx.Response, ctx.GetWriter()))
			ctx.Write(respBody(p.Conns[id].BodySize, id)) //nolint:errcheck
			ctx.Flush()                                   //nolint:errcheck
		} else {
			ctx.Response.SetBody(respBody(p.Conns[id].BodySize, id))
		}
		atomic.StoreInt64(&handlerDone[id], time.Now().UnixNano())
	})
	h.GET("/fast", func(c context.Context, ctx *app.RequestContext) { ctx.SetBodyString("fast") })
	var lateDone int64 // unix nanos when the handler of the last connection's request returned
	h.GET("/late", func(c context.Context, ctx *app.RequestContext) {
		ctx.SetBodyString("fast")
		atomic.StoreInt64(&lateDone, time.Now().UnixNano())
	})
	hookStarted := make(chan struct{}, 4)
	var hooksStarted, hooksFinished int32
	nhooks := 0
	addHook := func(d time.Duration) {
		nhooks++
		h.OnShutdown = append(h.OnShutdown, func(ctx context.Context) {
			atomic.AddInt32(&hooksStarted, 1)
			hookStarted <- struct{}{}
			if d > 0 {
				time.Sleep(d)
			}
			atomic.AddInt32(&hooksFinished, 1)
		})
	}
	switch p.Hook {
	case "fast":
		addHook(0)
	case "50ms":
		addHook(50 * time.Millisecond)
		addHook(0)
	case "most-of-wait":
		addHook(wait * 6 / 10)
		addHook(0)
	case "beyond-wait":
		addHook(wait + 300*time.Millisecond)
	}
	runErr := make(chan error, 1)
	go func() { runErr <- h.Run() }()
	// wait until the listener is up
	var up bool
	for i := 0; i < 400; i++ {
		c, err := net.Dial(network, sock)
		if err == nil {
			dialed++
			c.Close()
			up = true
			break
		}
		select {
		case err := <-runErr:
			return fmt.Sprintf("harness: server did not start: %v", err), log
		default:
		}
		time.Sleep(5 * time.Millisecond)
	}
	if !up {
		return "harness: server did not start listening", log
	}
	time.Sleep(20 * time.Millisecond) // let the probe connection be accounted and closed

	enteredSet := map[int]bool{}
	waitEntered := func(id int) bool {
		for k := 0; k < 5 && !enteredSet[id]; k++ {
			select {
			case got := <-entered:
				enteredSet[got] = true
				k--
			case <-time.After(time.Second):
			}
		}
		return enteredSet[id]
	}
	conns := make([]net.Conn, len(p.Conns))
	defer func() {
		for _, c := range conns {
			if c != nil {
				c.Close()
			}
		}
	}()
	type result struct {
		pr  *wire.ParsedResp
		raw []byte
		err error
		at  time.Time
	}
	results := make([]chan result, len(p.Conns))
	for i, cp := range p.Conns {
		c, err := net.Dial(network, sock)
		if err != nil {
			return fmt.Sprintf("harness: dial failed before shutdown: %v", err), log
		}
		conns[i] = c
		dialed++
		switch cp.State {
		case "busy":
			fmt.Fprintf(c, "GET /park/%d HTTP/1.1\r\nHost: h\r\n\r\n", i)
			results[i] = make(chan result, 1)
			go func(i int, c net.Conn) {
				pr, raw, err := readResponse(c, wait+6*time.Second)
				results[i] <- result{pr, raw, err, time.Now()}
			}(i, c)
		case "idle":
			fmt.Fprintf(c, "GET /fast HTTP/1.1\r\nHost: h\r\n\r\n")
			if _, _, err := readResponse(c, 3*time.Second); err != nil {
				return fmt.Sprintf("harness: idle connection setup failed: %v", err), log
			}
		case "mid-request":
			fmt.Fprintf(c, "GET /fast HTTP/1.1\r\nHo")
		case "busy-client-gone":
			// the client sends a request, its handler is entered, the client goes away, and the
			// handler returns: all of it before Shutdown is called
			fmt.Fprintf(c, "GET /park/%d HTTP/1.1\r\nHost: h\r\n\r\n", i)
			if !waitEntered(i) {
				return "harness: the handler of the client that goes away was not entered within 5 s", log
			}
			logf("handler %d entered (its client is about to go away)", i)
			c.Close()
			conns[i] = nil
			time.Sleep(30 * time.Millisecond) // let the server notice
			doRelease(i)
			for k := 0; k < 400 && atomic.LoadInt64(&handlerDone[i]) == 0; k++ {
				time.Sleep(5 * time.Millisecond)
			}
			if atomic.LoadInt64(&handlerDone[i]) == 0 {
				return "harness: the handler of the client that went away did not return within 2 s", log
			}
			logf("client %d went away, its handler returned", i)
		}
	}
	nbusy := 0
	for _, cp := range p.Conns {
		if cp.State == "busy" {
			nbusy++
		}
	}
	_ = nbusy
	for i, cp := range p.Conns {
		if cp.State != "busy" {
			continue
		}
		if !waitEntered(i) {
			return "harness: a busy handler was not entered within 5 s", log
		}
		logf("handler %d entered", i)
		if cp.MoreBytes {
			fmt.Fprintf(conns[i], "GET /fa")
			logf("client %d wrote the first bytes of its next request", i)
		}
	}
	time.Sleep(5 * time.Millisecond)
	for i, cp := range p.Conns {
		if cp.State == "busy" && cp.Release == "before" {
			doRelease(i)
			logf("released handler %d before Shutdown", i)
		}
	}
	// a last connection: accepted, its request sent, still inside the OnConnect callback when Shutdown is called
	var lateConn net.Conn
	var lateRes chan result
	if p.OnConnectMs > 0 {
		// the standard transport runs OnConnect inside its accept loop: first let every earlier
		// connection get through it, so that the callback entered next is the last connection's
		for k := 0; k < 4000 && atomic.LoadInt32(&onConnectEntered) < dialed; k++ {
			time.Sleep(time.Millisecond)
		}
		if atomic.LoadInt32(&onConnectEntered) < dialed {
			return "harness: earlier connections were not all accepted within 4 s", log
		}
		time.Sleep(time.Duration(p.OnConnectMs+10) * time.Millisecond)
		c, err := net.Dial(network, sock)
		if err != nil {
			return fmt.Sprintf("harness: dial failed before shutdown: %v", err), log
		}
		lateConn = c
		defer c.Close()
		fmt.Fprintf(c, "GET /late HTTP/1.1\r\nHost: h\r\n\r\n")
		for k := 0; k < 2000 && atomic.LoadInt32(&onConnectEntered) <= dialed; k++ {
			time.Sleep(200 * time.Microsecond)
		}
		if atomic.LoadInt32(&onConnectEntered) <= dialed {
			return "harness: the OnConnect callback of the last connection was not entered within 400 ms", log
		}
		logf("last connection accepted (OnConnect callback running, request sent)")
		lateRes = make(chan result, 1)
		go func() {
			pr, raw, err := readResponse(c, wait+6*time.Second)
			lateRes <- result{pr, raw, err, time.Now()}
		}()
	}
	// ---- Shutdown
	shutdownDone := make(chan error, 1)
	t0 := time.Now()
	logf("calling Shutdown")
	var shutdownReturned int64
	go func() {
		err := h.Shutdown(context.Background())
		atomic.StoreInt64(&shutdownReturned, time.Now().UnixNano())
		shutdownDone <- err
	}()
	if nhooks > 0 {
		select {
		case <-hookStarted:
			logf("shutdown hook started")
		case <-time.After(wait + slack):
			return fmt.Sprintf("no shutdown hook was started within %v of calling Shutdown", wait+slack), log
		}
	} else {
		time.Sleep(25 * time.Millisecond)
	}
	afterHook := time.Now()
	for i, cp := range p.Conns {
		if cp.State == "busy" && cp.Release == "after-hook" {
			doRelease(i)
			logf("released handler %d after the hook fired", i)
		}
		if cp.State == "busy" && cp.Release == "after-hook+60ms" {
			i := i
			go func() {
				time.Sleep(60 * time.Millisecond)
				logf("released handler %d 60 ms after the hook fired", i)
				doRelease(i)
			}()
		}
	}
	var shutdownErr error
	var elapsed time.Duration
	select {
	case shutdownErr = <-shutdownDone:
		elapsed = time.Since(t0)
		logf("Shutdown returned %v after %v", shutdownErr, elapsed)
	case <-time.After(wait + slack):
		return fmt.Sprintf("Shutdown did not return within ExitWaitTimeout (%v) + %v", wait, slack), log
	}
	// with a quiet scheduler the bound is tight: a hook that overruns the exit wait time (by 300 ms
	// here) must not hold Shutdown back
	if elapsed > wait+200*time.Millisecond && quietMachine() {
		return fmt.Sprintf("Shutdown returned after %v although the exit wait time is %v, the scheduler was never more than %v late and tasks waited for a CPU during only %.0f%% of the scenario (hooks: %s)", elapsed, wait, beatLate(), 100*cpuProbe.Stalled(), p.Hook), log
	}
	_ = afterHook
	// a Shutdown that returns before its deadline claims that every connection is finished: no request
	// that had reached its handler before Shutdown was called may still be in that handler
	// (both timestamps are taken in the server process; no slack is involved)
	if elapsed < wait-20*time.Millisecond {
		// ... and every shutdown hook has run to its end (Shutdown waits for the hooks until they
		// finish or the exit wait time is over)
		if f := int(atomic.LoadInt32(&hooksFinished)); f != nhooks {
			return fmt.Sprintf("Shutdown returned after %v, before the exit wait time (%v) was over, while only %d of %d shutdown hooks had finished", elapsed, wait, f, nhooks), log
		}
		ret := atomic.LoadInt64(&shutdownReturned)
		if lateConn != nil {
			if done := atomic.LoadInt64(&lateDone); done == 0 || done > ret {
				return fmt.Sprintf("Shutdown returned after %v (ExitWaitTimeout %v) while the request of a connection that had been accepted (its %d ms OnConnect callback was running) and had sent its request before Shutdown was called was still unanswered", elapsed, wait, p.OnConnectMs), log
			}
		}
		for i, cp := range p.Conns {
			if cp.State != "busy" {
				continue
			}
			done := atomic.LoadInt64(&handlerDone[i])
			if done == 0 || done > ret {
				return fmt.Sprintf("Shutdown returned after %v (ExitWaitTimeout %v) while the request on connection %d, received before Shutdown was called, was still being handled (handler released %s)", elapsed, wait, i, cp.Release), log
			}
		}
	}
	for i, cp := range p.Conns {
		if cp.State == "busy" && (cp.Release == "after-wait" || cp.Release == "after-hook+60ms") {
			doRelease(i)
		}
	}
	if int(atomic.LoadInt32(&hooksStarted)) != nhooks {
		return fmt.Sprintf("%d of %d shutdown hooks were started", hooksStarted, nhooks), log
	}
	// ---- responses of in-flight requests
	for i, cp := range p.Conns {
		if cp.State != "busy" || cp.Release == "after-wait" {
			continue
		}
		var r result
		select {
		case r = <-results[i]:
		case <-time.After(wait + 6*time.Second):
			return fmt.Sprintf("connection %d: no response to an in-flight request (handler released %s)", i, cp.Release), log
		}
		if done := atomic.LoadInt64(&handlerDone[i]); (r.err != nil || r.pr == nil) && (done == 0 || done > t0.Add(wait-30*time.Millisecond).UnixNano()) {
			// the handler returned only at (or after) the end of the wait: the bounded wait may cut it off
			logf("connection %d: handler returned too close to the deadline for a verdict on its response", i)
			continue
		}
		if r.err != nil || r.pr == nil {
			return fmt.Sprintf("connection %d: the request was in its handler when Shutdown was called (released %s) but the response is incomplete: err=%v, %d bytes received: %.120q", i, cp.Release, r.err, len(r.raw), r.raw), log
		}
		if r.pr.Status != 200 || !bytes.Equal(r.pr.Body, respBody(cp.BodySize, i)) {
			return fmt.Sprintf("connection %d: response status %d with %d body bytes, want 200 with %d bytes", i, r.pr.Status, len(r.pr.Body), cp.BodySize), log
		}
		if (cp.Release == "after-hook" || cp.Release == "after-hook+60ms") && !wire.HasToken(r.pr.Headers, "Connection", "close") && cp.Streamed {
			// known finding D67: the header block of a streamed response leaves inside the handler, and the
			// check that marks responses with Connection: close runs after the handler has returned
			if ev.ReportKnown(prop, "D67") {
				atomic.AddInt64(&knownD67, 1)
				continue
			}
		}
		if (cp.Release == "after-hook" || cp.Release == "after-hook+60ms") && !wire.HasToken(r.pr.Headers, "Connection", "close") {
			return fmt.Sprintf("connection %d: the handler returned after shutdown began (released after the hook fired) but the response lacks Connection: close; headers %v", i, r.pr.Headers), log
		}
	}
	if lateConn != nil {
		var r result
		select {
		case r = <-lateRes:
		case <-time.After(wait + 6*time.Second):
			return "the connection accepted just before Shutdown (request sent, OnConnect callback running) got no response", log
		}
		if r.err != nil || r.pr == nil || r.pr.Status != 200 || string(r.pr.Body) != "fast" {
			return fmt.Sprintf("the connection that was accepted (its OnConnect callback was running, %d ms) and had sent its request when Shutdown was called got no complete response although the exit wait time is %v: err=%v, %d bytes: %.100q (Shutdown returned after %v)", p.OnConnectMs, wait, r.err, len(r.raw), r.raw, elapsed), log
		}
	}
	// ---- after Shutdown returned
	if c, err := net.DialTimeout(network, sock, time.Second); err == nil {
		fmt.Fprintf(c, "GET /fast HTTP/1.1\r\nHost: h\r\n\r\n")
		c.SetReadDeadline(time.Now().Add(300 * time.Millisecond)) //nolint:errcheck
		b := make([]byte, 64)
		n, _ := c.Read(b)
		c.Close()
		if n > 0 {
			return fmt.Sprintf("a connection dialled after Shutdown returned was accepted and served: %q", b[:n]), log
		}
	}
	second := make(chan error, 1)
	go func() { second <- h.Shutdown(context.Background()) }()
	select {
	case err := <-second:
		if err == nil {
			return "a second Shutdown returned nil instead of an error", log
		}
	case <-time.After(slack):
		return "a second Shutdown did not return within 2 s", log
	}
	never := server.New(server.WithNetwork("unix"), server.WithHostPorts(filepath.Join(dir, "never.sock")))
	nv := make(chan error, 1)
	go func() { nv <- never.Shutdown(context.Background()) }()
	select {
	case err := <-nv:
		if err == nil {
			return "Shutdown of an engine that never ran returned nil instead of an error", log
		}
	case <-time.After(slack):
		return "Shutdown of an engine that never ran did not return within 2 s", log
	}
	return "", log
}

func genPlan(t *rapid.T, transport string) *Plan {
	p := &Plan{Network: rapid.SampledFrom([]string{"unix", "tcp"}).Draw(t, "network"), Transport: transport, WaitMs: rapid.SampledFrom([]int{150, 150, 1500}).Draw(t, "wait"), Hook: rapid.SampledFrom([]string{"none", "fast", "50ms", "most-of-wait", "beyond-wait"}).Draw(t, "hook")}
	if transport == "standard" {
		p.Sense = rapid.Bool().Draw(t, "senseClientDisconnection")
	}
	p.Registry = rapid.SampledFrom([]string{"", "", "ok", "failing", "slow"}).Draw(t, "registry")
	if rapid.IntRange(0, 3).Draw(t, "slowOnConnect") == 0 {
		p.OnConnectMs = 40
	}
	n := rapid.IntRange(1, 6).Draw(t, "nConns")
	if p.OnConnectMs > 0 && rapid.IntRange(0, 2).Draw(t, "noOtherConnection") == 0 {
		n = 0 // the connection inside OnConnect is the only one the server has
	}
	for i := 0; i < n; i++ {
		cp := ConnPlan{State: rapid.SampledFrom([]string{"busy", "busy", "busy", "idle", "mid-request", "connected", "busy-client-gone"}).Draw(t, "state")}
		if cp.State == "busy-client-gone" {
			cp.BodySize = 100
		}
		if cp.State == "busy" {
			cp.BodySize = rapid.SampledFrom([]int{1, 100, 4096, 65536, 262144}).Draw(t, "bodySize")
			cp.Release = rapid.SampledFrom([]string{"before", "after-hook", "after-hook+60ms", "after-hook+60ms", "after-wait"}).Draw(t, "release")
			cp.Streamed = rapid.IntRange(0, 3).Draw(t, "streamedResponse") == 0
			if rapid.IntRange(0, 3).Draw(t, "clientSentMoreBytes") == 0 {
				cp.MoreBytes = true
				cp.BodySize = rapid.SampledFrom([]int{100, 262144, 1 << 20}).Draw(t, "bodySizeBehindMoreBytes")
			}
		}
		p.Conns = append(p.Conns, cp)
	}
	return p
}

func classify(p *Plan) (bool, []string) {
	cls := []string{"network-" + p.Network, "transport-" + p.Transport, fmt.Sprintf("wait-%dms", p.WaitMs), "hook-" + p.Hook}
	if p.Sense {
		cls = append(cls, "sense-client-disconnection")
	}
	if p.Registry != "" {
		cls = append(cls, "registry-"+p.Registry)
	}
	if p.OnConnectMs > 0 {
		cls = append(cls, "connection-inside-OnConnect-at-shutdown")
	}
	busyLate, other := false, false
	for _, c := range p.Conns {
		cls = append(cls, "conn-"+c.State)
		if c.MoreBytes {
			cls = append(cls, "client-sent-more-bytes")
		}
		if c.State == "busy" {
			cls = append(cls, "release-"+c.Release)
			if c.Release != "before" {
				busyLate = true
			}
		} else {
			other = true
		}
	}
	seen := map[string]bool{}
	var out []string
	for _, x := range cls {
		if !seen[x] {
			seen[x] = true
			out = append(out, x)
		}
	}
	return (busyLate && (other || len(p.Conns) >= 2)) || p.OnConnectMs > 0, out
}

func scenarios(t *testing.T, transport, unit string) {
	rec := ev.New(unit)
	rapid.Check(t, func(t *rapid.T) {
		p := genPlan(t, transport)
		nt, cls := classify(p)
		rec.Case(nt, ev.HashString(fmt.Sprintf("%+v", *p)), cls...)
		msg, log := runPlan(p)
		if n := atomic.SwapInt64(&knownD67, 0); n > 0 {
			rec.Excluded("D67-streamed-response-without-Connection-close", n)
		}
		if n := atomic.SwapInt64(&tightSkipped, 0); n > 0 {
			rec.Class("tight-bound-not-taken-cpu-pressure-or-late-heartbeat", n)
		}
		atomic.StoreInt64(&tightTaken, 0)
		if strings.HasPrefix(msg, "harness: overloaded") {
			rec.Class("verdict-dropped-machine-overloaded", 1)
		}
		if strings.HasPrefix(msg, "harness:") {
			t.Skip(msg)
		}
		if msg != "" {
			if inD49(p, log) && ev.ReportKnown(prop, "D49") {
				rec.Excluded("D49-Deregister-error-aborts-Shutdown", 1)
				return
			}
			if inD132(p, msg) && ev.ReportKnown(prop, "D132") {
				rec.Excluded("D132-response-cut-by-a-reset-when-the-client-had-sent-more-bytes", 1)
				return
			}
			t.Fatalf("%s\nplan: %+v\nhistory:\n  %s", msg, *p, strings.Join(log, "\n  "))
		}
		if nt && rec.WantSample() {
			rec.Sample(p)
		}
	})
}

// inD49: known finding D49 (recorded, not repaired: the pinned TestEngineShutdown requires it). A
// registry whose Deregister fails makes Engine.Shutdown return that error at once, before the
// transport is shut down. Only a scenario in which exactly that happened is attributed to the
// finding: the plan has the failing registry AND the history shows Shutdown returning the registry's
// error. Any other failure of such a plan, and every failure with a working registry, is reported.
func inD49(p *Plan, log []string) bool {
	if p.Registry != "failing" {
		return false
	}
	for _, l := range log {
		if strings.Contains(l, "Shutdown returned registry centre unreachable") {
			return true
		}
	}
	return false
}

// inD132: known finding D132. The standard transport closes a connection whose response carried
// Connection: close at once; bytes of a next request that the client had already sent are unread in the
// kernel then, so the close is a reset, which discards what of the response had not been delivered yet. Only
// this is attributed to the finding: the incomplete response of a connection of the plan whose client had
// sent more bytes, on the standard transport.
func inD132(p *Plan, msg string) bool {
	var idx int
	if p.Transport != "standard" || !strings.Contains(msg, "but the response is incomplete") {
		return false
	}
	if _, err := fmt.Sscanf(msg, "connection %d:", &idx); err != nil || idx < 0 || idx >= len(p.Conns) {
		return false
	}
	return p.Conns[idx].MoreBytes
}

func TestC18Standard(t *testing.T) { scenarios(t, "standard", "standard-transport") }
func TestC18Netpoll(t *testing.T)  { scenarios(t, "netpoll", "netpoll-transport") }

// TestC18Signals: the production path. A server started with Spin() is told to stop by a signal
// (SIGTERM from an orchestrator, SIGHUP, SIGINT): all three mean graceful shutdown. A request that is
// in its handler when the signal arrives gets its complete response, the shutdown hooks run, and Spin
// does not return before the handler has returned (the process would exit and cut the response off).
func TestC18Signals(t *testing.T) {
	rec := ev.New("spin-signals")
	dir, _ := os.Getwd()
	sigs := []syscall.Signal{syscall.SIGTERM, syscall.SIGHUP, syscall.SIGINT}
	for si, sig := range sigs {
		for ti, transport := range []string{"standard", "netpoll"} {
			if sig == syscall.SIGHUP && signal.Ignored(syscall.SIGHUP) {
				continue // hertz leaves an ignored SIGHUP alone
			}
			rec.Case(true, ev.HashString(sig.String(), transport), "signal-"+sig.String(), "transport-"+transport)
			guard := make(chan os.Signal, 8)
			signal.Notify(guard, sig) // whatever happens, the signal never kills the test process
			msg := func() string {
				atomic.StoreInt64(&maxLate, 0)
				stopBeat := make(chan struct{})
				defer close(stopBeat)
				go func() {
					for {
						select {
						case <-stopBeat:
							return
						default:
						}
						t0 := time.Now()
						time.Sleep(time.Millisecond)
						if late := int64(time.Since(t0) - time.Millisecond); late > atomic.LoadInt64(&maxLate) {
							atomic.StoreInt64(&maxLate, late)
						}
					}
				}()
				sock := filepath.Join(dir, fmt.Sprintf("sig%d-%d-%d.sock", os.Getpid(), si, ti))
				os.Remove(sock)
				defer os.Remove(sock)
				opts := []config.Option{server.WithNetwork("unix"), server.WithHostPorts(sock), server.WithExitWaitTime(1500 * time.Millisecond)}
				if transport == "netpoll" {
					opts = append(opts, server.WithTransport(netpoll.NewTransporter))
				} else {
					opts = append(opts, server.WithTransport(standard.NewTransporter))
				}
				h := server.New(opts...)
				entered, release := make(chan struct{}, 1), make(chan struct{})
				var handlerDone, spinReturned, hookRan int64
				h.GET("/park", func(c context.Context, ctx *app.RequestContext) {
					entered <- struct{}{}
					<-release
					ctx.SetBodyString("parked-response")
					atomic.StoreInt64(&handlerDone, time.Now().UnixNano())
				})
				h.OnShutdown = append(h.OnShutdown, func(ctx context.Context) { atomic.StoreInt64(&hookRan, 1) })
				spinDone := make(chan struct{})
				go func() {
					h.Spin()
					atomic.StoreInt64(&spinReturned, time.Now().UnixNano())
					close(spinDone)
				}()
				var c net.Conn
				var err error
				for i := 0; i < 600; i++ {
					if c, err = net.Dial("unix", sock); err == nil {
						break
					}
					time.Sleep(5 * time.Millisecond)
				}
				if err != nil {
					return "harness: server did not start listening"
				}
				defer c.Close()
				time.Sleep(30 * time.Millisecond) // let Spin install its signal handler
				fmt.Fprintf(c, "GET /park HTTP/1.1\r\nHost: h\r\n\r\n")
				select {
				case <-entered:
				case <-time.After(5 * time.Second):
					return "harness: handler not entered within 5 s"
				}
				if err := syscall.Kill(os.Getpid(), sig); err != nil {
					return "harness: cannot signal myself: " + err.Error()
				}
				go func() { time.Sleep(120 * time.Millisecond); close(release) }()
				pr, raw, rerr := readResponse(c, 6*time.Second)
				select {
				case <-spinDone:
				case <-time.After(1500*time.Millisecond + 3*time.Second):
					return fmt.Sprintf("Spin did not return within the exit wait time + 3 s after %s", sig)
				}
				if rerr != nil || pr == nil || pr.Status != 200 || string(pr.Body) != "parked-response" {
					return fmt.Sprintf("after %s the request that was in its handler got no complete response: err=%v, %d bytes %.80q", sig, rerr, len(raw), raw)
				}
				if d := atomic.LoadInt64(&handlerDone); d == 0 || atomic.LoadInt64(&spinReturned) < d {
					return fmt.Sprintf("after %s Spin returned before the in-flight handler had returned (a real process would exit and cut the response off)", sig)
				}
				if atomic.LoadInt64(&hookRan) == 0 {
					return fmt.Sprintf("after %s the shutdown hooks did not run", sig)
				}
				return ""
			}()
			signal.Stop(guard)
			if strings.HasPrefix(msg, "harness:") || (msg != "" && beatLate() > overloaded) {
				rec.Class("verdict-dropped-harness-or-overload", 1)
				continue
			}
			if msg != "" {
				ev.Fail(prop, "spin-signals", map[string]string{"signal": sig.String(), "transport": transport}, msg)
				t.Errorf("%s transport: %s", transport, msg)
			}
		}
	}
}

// TestC18ConcurrentShutdown: Shutdown called by several goroutines at the same moment (a signal and an
// admin endpoint, two signal handlers) while a request is in progress. Every call but one is "a second
// shutdown" and reports an error; a call that returns nil before the exit wait time is over claims that
// the request in progress has been answered.
func TestC18ConcurrentShutdown(t *testing.T) {
	rec := ev.New("concurrent-shutdown")
	dir, _ := os.Getwd()
	rapid.Check(t, func(t *rapid.T) {
		transport := rapid.SampledFrom([]string{"standard", "netpoll"}).Draw(t, "transport")
		callers := rapid.IntRange(2, 8).Draw(t, "callers")
		holdMs := rapid.SampledFrom([]int{0, 20, 60}).Draw(t, "handlerHeldMs")
		wait := 1500 * time.Millisecond
		sock := filepath.Join(dir, fmt.Sprintf("cs%d-%d.sock", os.Getpid(), atomic.AddInt32(&sockCounter, 1)))
		if len(sock) > 100 {
			sock = filepath.Join(os.TempDir(), filepath.Base(sock))
		}
		os.Remove(sock)
		defer os.Remove(sock)
		opts := []config.Option{server.WithNetwork("unix"), server.WithHostPorts(sock), server.WithExitWaitTime(wait)}
		if transport == "netpoll" {
			opts = append(opts, server.WithTransport(netpoll.NewTransporter))
		} else {
			opts = append(opts, server.WithTransport(standard.NewTransporter))
		}
		h := server.New(opts...)
		defer h.Close() //nolint:errcheck
		entered, release := make(chan struct{}, 1), make(chan struct{})
		var handlerDone int64
		h.GET("/park", func(c context.Context, ctx *app.RequestContext) {
			entered <- struct{}{}
			<-release
			ctx.SetBodyString("parked")
			atomic.StoreInt64(&handlerDone, time.Now().UnixNano())
		})
		go h.Run() //nolint:errcheck
		var conn net.Conn
		var err error
		for i := 0; i < 600; i++ {
			if conn, err = net.Dial("unix", sock); err == nil {
				break
			}
			time.Sleep(5 * time.Millisecond)
		}
		if err != nil {
			t.Fatalf("harness: server did not start: %v", err)
		}
		defer conn.Close()
		fmt.Fprintf(conn, "GET /park HTTP/1.1\r\nHost: h\r\n\r\n")
		select {
		case <-entered:
		case <-time.After(5 * time.Second):
			t.Fatalf("harness: the request did not reach its handler")
		}
		type ret struct {
			err error
			at  int64
		}
		rets := make([]ret, callers)
		var ready, done sync.WaitGroup
		var gate int32 // a spin barrier: the callers leave it within the same microsecond
		for k := 0; k < callers; k++ {
			ready.Add(1)
			done.Add(1)
			go func(k int) {
				defer done.Done()
				ready.Done()
				for atomic.LoadInt32(&gate) == 0 {
				}
				err := h.Shutdown(context.Background())
				rets[k] = ret{err, time.Now().UnixNano()}
			}(k)
		}
		ready.Wait()
		time.Sleep(2 * time.Millisecond) // let them all reach the barrier
		t0 := time.Now()
		atomic.StoreInt32(&gate, 1)
		time.Sleep(time.Duration(holdMs) * time.Millisecond)
		close(release)
		fin := make(chan struct{})
		go func() { done.Wait(); close(fin) }()
		select {
		case <-fin:
		case <-time.After(wait + slack):
			t.Fatalf("%d concurrent Shutdown calls (%s) did not all return within the exit wait time (%v) + %v", callers, transport, wait, slack)
		}
		nils := 0
		var desc []string
		for _, r := range rets {
			desc = append(desc, fmt.Sprintf("%v after %v", r.err, time.Duration(r.at-t0.UnixNano())))
			if r.err == nil {
				nils++
				if hd := atomic.LoadInt64(&handlerDone); time.Duration(r.at-t0.UnixNano()) < wait-20*time.Millisecond && (hd == 0 || hd > r.at) {
					t.Fatalf("%s, %d concurrent Shutdown calls: one returned nil after %v, before the exit wait time (%v), while the request in progress was still in its handler\nreturns: %v", transport, callers, time.Duration(r.at-t0.UnixNano()), wait, desc)
				}
			}
		}
		rec.Case(true, ev.HashString(transport, fmt.Sprint(callers, holdMs)), "transport-"+transport, fmt.Sprintf("callers-%d", callers))
		if nils > 1 {
			t.Fatalf("%s: %d of %d concurrent Shutdown calls returned nil; every call but one is a second shutdown and has to report an error\nreturns: %v", transport, nils, callers, desc)
		}
	})
}
