package c01

import (
	"fmt"
	"strings"
	"testing"

	"github.com/cloudwego/hertz/pkg/app"
	hserver "github.com/cloudwego/hertz/pkg/app/server"
	"github.com/cloudwego/hertz/pkg/protocol"
	"pgregory.net/rapid"

	"verifharness/ev"
	"verifharness/gen"
	"verifharness/sconn"
	"verifharness/srv"
)

// TestC01ContinueDeclined: a server whose ContinueHandler refuses requests that carry
// "Expect: 100-continue" (it answers 417 without reading the body). A client may send the body
// without waiting for the interim response (RFC 7231 5.1.1), so the bytes of that body and a
// pipelined request follow on the wire. Whatever the server does with the refused request, the only
// requests the wire holds are the refused one and the pipelined one: nothing else may reach a
// handler, in particular not a request that only exists inside the refused body.
var declineServers = map[bool]*srv.Echo{}

func declineServer(stream bool) *srv.Echo {
	if s, ok := declineServers[stream]; ok {
		return s
	}
	s := srv.NewEcho(srv.Config{Stream: stream, MaxBody: 8 << 20, Setup: func(h *hserver.Hertz, echo app.HandlerFunc) {
		h.Engine.ContinueHandler = func(hd *protocol.RequestHeader) bool { return false }
	}})
	declineServers[stream] = s
	return s
}

func TestC01ContinueDeclined(t *testing.T) {
	rec := ev.New("continue-declined")
	rapid.Check(t, func(t *rapid.T) {
		stream := rapid.Bool().Draw(t, "streaming")
		inner := "GET /evil-" + rapid.StringMatching("[a-z]{1,4}").Draw(t, "evil") + " HTTP/1.1\r\nHost: evil.example\r\n\r\n"
		pad := rapid.SampledFrom([]int{0, 0, 1, 100, 4096, 9000}).Draw(t, "pad")
		body := strings.Repeat("p", pad) + strings.Repeat(inner, rapid.IntRange(1, 3).Draw(t, "copies"))
		framing := rapid.SampledFrom([]string{"length", "chunked"}).Draw(t, "framing")
		var req string
		if framing == "length" {
			req = fmt.Sprintf("POST /upload HTTP/1.1\r\nHost: example.com\r\nExpect: 100-continue\r\nContent-Length: %d\r\n\r\n%s", len(body), body)
		} else {
			req = fmt.Sprintf("POST /upload HTTP/1.1\r\nHost: example.com\r\nExpect: 100-continue\r\nTransfer-Encoding: chunked\r\n\r\n%x\r\n%s\r\n0\r\n\r\n", len(body), body)
		}
		after := rapid.Bool().Draw(t, "pipelined")
		wire := req
		if after {
			wire += "GET /after HTTP/1.1\r\nHost: example.com\r\n\r\n"
		}
		hdrEnd := strings.Index(req, "\r\n\r\n") + 4
		cuts := gen.Cuts(t, len(wire), []int{hdrEnd, len(req)})
		rec.Case(true, ev.HashString(wire, fmt.Sprint(stream, cuts)), "framing-"+framing, fmt.Sprintf("streaming-%v", stream))
		obs, res, _ := declineServer(stream).Run(sconn.Split([]byte(wire), cuts), sconn.EOF)
		fail := func(f string, a ...interface{}) {
			t.Fatalf("%s\nstreaming=%v framing=%s pad=%d pipelined=%v cuts=%v\ninvocations:\n%s\noutput: %s", fmt.Sprintf(f, a...), stream, framing, pad, after, trimInts(cuts), srv.Describe(obs), srv.Short(res.Output))
		}
		if res.Panic != nil {
			fail("panic: %v", res.Panic)
		}
		allowed := []string{"/upload"}
		if after {
			allowed = append(allowed, "/after")
		}
		next := 0
		for _, o := range obs {
			for next < len(allowed) && o.URI != allowed[next] {
				next++
			}
			if next == len(allowed) {
				fail("a handler ran for %s %s: the wire holds only %v in this order; bytes of the refused body were served as a request", o.Method, o.URI, allowed)
			}
			next++
		}
		var methods []string
		for range obs {
			methods = append(methods, "GET")
		}
		methods = append(methods, "GET", "GET")
		rs, err := srv.Resps(res.Output, methods)
		if err != nil {
			fail("output is not a sequence of well-formed responses: %v", err)
		}
		// (hertz still runs the route's handler for the refused request, with an empty body, and the
		// echo handler sets its own status: the status of the first response is not examined)
		if len(rs) == 0 {
			fail("the refused request got no response")
		}
		if len(rs) > len(allowed) {
			fail("%d responses for at most %d requests on the wire", len(rs), len(allowed))
		}
		if rec.WantSample() {
			rec.Sample(map[string]interface{}{"streaming": stream, "framing": framing, "body_len": len(body), "pipelined": after, "responses": len(rs)})
		}
	})
}
