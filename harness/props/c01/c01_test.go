package c01

import (
	"fmt"
	"io"
	"strings"

	hserver "github.com/cloudwego/hertz/pkg/app/server"
	"github.com/cloudwego/hertz/pkg/common/config"
	"os"
	"testing"

	"pgregory.net/rapid"

	"verifharness/ev"
	"verifharness/gen"
	"verifharness/sconn"
	"verifharness/srv"
	"verifharness/wire"
)

const prop = "C01"

const inconclusive = "INCONCLUSIVE: loopback exchange timed out"

func TestMain(m *testing.M) {
	code := m.Run()
	ev.Flush()
	os.Exit(code)
}

type cfgKey struct {
	stream  bool
	readBuf int
	noNorm  bool // DisableHeaderNamesNormalizing: framing headers must still be recognised whatever their case
}

var servers = map[cfgKey]*srv.Echo{}

func server(stream bool, readBuf int, noNorm ...bool) *srv.Echo {
	k := cfgKey{stream, readBuf, len(noNorm) > 0 && noNorm[0]}
	if s, ok := servers[k]; ok {
		return s
	}
	cfg := srv.Config{Stream: stream, ReadBuf: readBuf, MaxBody: 8 << 20, ReadBody: readBody}
	if k.noNorm {
		cfg.Extra = []config.Option{hserver.WithDisableHeaderNamesNormalizing(true)}
	}
	s := srv.NewEcho(cfg)
	servers[k] = s
	return s
}

// curStop: how many bytes of a streamed body the echo handler reads before it returns (-1 = all).
// A handler that leaves part of a streamed body unread must not disturb the requests behind it.
var curStop = -1

func readBody(r io.Reader) ([]byte, error) {
	if curStop < 0 {
		return io.ReadAll(r)
	}
	b := make([]byte, curStop)
	n, err := io.ReadFull(r, b)
	if err == io.EOF || err == io.ErrUnexpectedEOF {
		err = nil
	}
	return b[:n], err
}

// runner is an echo server that serves one connection's fragments: the scripted-connection
// server (srv.Echo) or one behind a real socket and transport (srv.NetEcho).
type runner interface {
	Run(frags [][]byte, end sconn.End) ([]srv.Obs, sconn.Result, *sconn.Conn)
}

// CheckStream serves s and compares everything with the framing reference.
func CheckStream(e runner, s *gen.Stream) string {
	frags := sconn.Split(s.Bytes, s.Cuts)
	obs, res, _ := e.Run(frags, sconn.EOF)
	if res.Panic != nil {
		return fmt.Sprintf("panic: %v\n%s", res.Panic, res.Stack)
	}
	if res.Err == srv.ErrNetTimeout {
		return inconclusive
	}
	// reference: every request is processed (only the last may ask for close)
	if len(obs) != len(s.Reqs) {
		return fmt.Sprintf("%d handler invocations for %d requests\nobserved:\n%s\noutput: %s", len(obs), len(s.Reqs), srv.Describe(obs), srv.Short(res.Output))
	}
	for i, r := range s.Reqs {
		if obs[i].Streamed && curStop >= 0 && curStop <= len(r.Body) {
			// the handler stopped early: it must have seen exactly the first curStop bytes; compare the
			// rest of the request (the trailer section is not available before the body was read to its end)
			if string(obs[i].Body) != string(r.Body[:curStop]) {
				return fmt.Sprintf("request #%d: handler read %d bytes of the streamed body and got %s, want the first %d bytes of the body", i, len(obs[i].Body), srv.Short(obs[i].Body), curStop)
			}
			cp := *r
			cp.Body, cp.Trailers = obs[i].Body, nil
			o := obs[i]
			o.Trailers = nil
			if msg := srv.Match(&cp, s.Infos[i].FoldedNames, &o); msg != "" {
				return fmt.Sprintf("request #%d (%s %s, %s, body %d, handler stops after %d bytes): handler saw %s", i, r.Method, r.Target, r.Framing, r.BodyLen, curStop, msg)
			}
			continue
		}
		if msg := srv.Match(r, s.Infos[i].FoldedNames, &obs[i]); msg != "" {
			return fmt.Sprintf("request #%d (%s %s, %s, body %d): handler saw %s", i, r.Method, r.Target, r.Framing, r.BodyLen, msg)
		}
	}
	methods := make([]string, len(s.Reqs))
	for i, r := range s.Reqs {
		methods[i] = r.Method
	}
	rs, err := srv.Resps(res.Output, methods)
	if err != nil {
		return fmt.Sprintf("server output is not a sequence of well-formed responses: %v\noutput: %s", err, srv.Short(res.Output))
	}
	ri := 0
	for i, r := range s.Reqs {
		if r.Expect100 {
			if ri >= len(rs) || rs[ri].Status != 100 {
				return fmt.Sprintf("request #%d sent Expect: 100-continue but no interim 100 response precedes its final response", i)
			}
			ri++
		}
		if ri >= len(rs) {
			return fmt.Sprintf("no response for request #%d (got %d messages)", i, len(rs))
		}
		if rs[ri].Status != 200 || srv.EchoIndex(rs[ri]) != i {
			return fmt.Sprintf("response in position of request #%d has status %d, echo index %d", i, rs[ri].Status, srv.EchoIndex(rs[ri]))
		}
		if r.Method != "HEAD" {
			bl := r.BodyLen
			if obs[i].Streamed && curStop >= 0 && curStop <= bl {
				bl = curStop
			}
			want := fmt.Sprintf("idx=%d;method=%s;uri=%s;bodylen=%d", i, r.Method, r.Target, bl)
			if string(rs[ri].Body) != want {
				return fmt.Sprintf("response #%d body %q, want %q", i, rs[ri].Body, want)
			}
		}
		ri++
	}
	if ri != len(rs) {
		return fmt.Sprintf("%d extra response message(s) written after the last expected one (status %d)", len(rs)-ri, rs[ri].Status)
	}
	last := s.Reqs[len(s.Reqs)-1]
	if last.Close && !res.Closed {
		return "last request asked for close but the server did not close the connection"
	}
	return ""
}

func classify(s *gen.Stream, stream bool) (bool, []string) {
	cls := []string{fmt.Sprintf("reqs-%d", len(s.Reqs))}
	if stream {
		cls = append(cls, "cfg-streaming")
	} else {
		cls = append(cls, "cfg-buffered")
	}
	nt := len(s.Reqs) >= 2
	cutSet := map[int]bool{}
	for _, c := range s.Cuts {
		cutSet[c] = true
	}
	for i, r := range s.Reqs {
		info := s.Infos[i]
		cls = append(cls, "framing-"+r.Framing.String())
		switch {
		case r.BodyLen == 0:
			cls = append(cls, "body-0")
		case r.BodyLen < 4096:
			cls = append(cls, "body-lt4k")
		case r.BodyLen <= 8192:
			cls = append(cls, "body-4k..8k")
		case r.BodyLen <= 65536:
			cls = append(cls, "body-8k..64k")
		default:
			cls = append(cls, "body-gt64k")
		}
		if r.Framing == wire.FrChunked || r.BodyLen >= 4096 || info.Folded || info.NearMiss || info.MixedFraming {
			nt = true
		}
		if info.Folded {
			cls = append(cls, "folded-header")
		}
		if info.NearMiss {
			cls = append(cls, "near-miss-framing-name")
		}
		if info.MixedFraming {
			cls = append(cls, "mixed-case-framing-name")
		}
		if info.Expect {
			cls = append(cls, "expect-100")
		}
		if info.Trailers {
			cls = append(cls, "trailers")
		}
		if info.H10 {
			cls = append(cls, "http10")
		}
		m := s.Marks[i]
		for _, c := range s.Cuts {
			switch {
			case c > m.Start && c < m.HeaderEnd:
				cls = append(cls, "cut-inside-header")
			case c > m.BodyStart && c < m.End:
				cls = append(cls, "cut-inside-body")
				nt = true
			case c == m.End || c == m.HeaderEnd:
				cls = append(cls, "cut-at-boundary")
			}
		}
	}
	// dedupe
	seen := map[string]bool{}
	var out []string
	for _, c := range cls {
		if !seen[c] {
			seen[c] = true
			out = append(out, c)
		}
	}
	return nt, out
}

func sample(s *gen.Stream, stream bool, readBuf int) interface{} {
	return map[string]interface{}{"streaming": stream, "read_buf": readBuf, "requests": s.Reqs, "cuts": trimInts(s.Cuts), "stream_len": len(s.Bytes)}
}

func trimInts(a []int) []int {
	if len(a) > 24 {
		return append(append([]int(nil), a[:24]...), -1)
	}
	return a
}

func TestC01Streams(t *testing.T) {
	rec := ev.New("streams")
	rapid.Check(t, func(t *rapid.T) {
		stream := rapid.Bool().Draw(t, "streaming")
		readBuf := rapid.SampledFrom([]int{4096, 4096, 1, 8192}).Draw(t, "readBuf")
		s := gen.GenStream(t, 6, gen.ReqOpts{Fold: true, NearMiss: true, Expect: true, HTTP10: true, ChunkExt: true, TabOWS: true, Huge: ev.Thorough()})
		nt, cls := classify(s, stream)
		curStop = -1
		if stream && rapid.IntRange(0, 3).Draw(t, "handlerStopsEarly") == 0 {
			curStop = rapid.SampledFrom([]int{0, 1, 5, 100, 4095, 4096, 8191, 8192, 8193, 20000}).Draw(t, "stopAfter")
			cls = append(cls, "handler-leaves-streamed-body-unread")
		}
		defer func() { curStop = -1 }()
		noNorm := rapid.IntRange(0, 3).Draw(t, "disableHeaderNamesNormalizing") == 0
		if noNorm {
			cls = append(cls, "cfg-header-names-not-normalised")
		}
		if last := s.Reqs[len(s.Reqs)-1]; last.Close && rapid.IntRange(0, 2).Draw(t, "bytesBehindTheCloseRequest") == 0 {
			// the request that carries the close option is the last one of its connection: what follows it on the wire
			// is not a request of this connection (RFC 7230 6.6, "MUST NOT process any further requests")
			s.Bytes = append(s.Bytes, "GET /behind-close HTTP/1.1\r\nHost: example.com\r\n\r\n"...)
			cls = append(cls, "bytes-behind-the-close-request")
		}
		rec.Case(nt, ev.Hash(s.Bytes, []byte(fmt.Sprint(stream, readBuf, s.Cuts, curStop, noNorm))), cls...)
		if msg := CheckStream(server(stream, readBuf, noNorm), s); msg != "" {
			t.Fatalf("streaming=%v readBuf=%d handlerStopsAfter=%d headerNamesNormalised=%v cuts=%v\n%s\nstream: %s", stream, readBuf, curStop, !noNorm, trimInts(s.Cuts), msg, srv.Short(s.Bytes))
		}
		if nt && rec.WantSample() {
			rec.Sample(sample(s, stream, readBuf))
		}
	})
}

// ---------------------------------------------------------------------------
// multipart/form-data bodies (pre-parsed by the server with mime/multipart, which stops at the closing
// boundary) whose declared length also covers an epilogue: the epilogue belongs to the body, the next
// request starts behind it. The handler gets the form re-marshalled, so only the framing is compared:
// one invocation per request, in order, with the right method and target, and one response each.
func TestC01Multipart(t *testing.T) {
	rec := ev.New("multipart-epilogue")
	host := wire.KV{K: "Host", V: "example.com"}
	rapid.Check(t, func(t *rapid.T) {
		stream := rapid.Bool().Draw(t, "streaming")
		readBuf := rapid.SampledFrom([]int{4096, 4096, 1, 8192}).Draw(t, "readBuf")
		k := rapid.IntRange(1, 4).Draw(t, "nReqs")
		s := &gen.Stream{}
		multi := map[int]bool{}
		maxEpi := 0
		for i := 0; i < k; i++ {
			target := fmt.Sprintf("/r%d", i)
			if rapid.IntRange(0, 2).Draw(t, "plain") == 0 {
				s.Reqs = append(s.Reqs, &wire.Req{Method: "GET", Target: target, Proto: "HTTP/1.1", Lines: []wire.KV{host}})
				s.Infos = append(s.Infos, &gen.ReqInfo{FoldedNames: map[string]bool{}})
				continue
			}
			val := string(gen.Body(rapid.SampledFrom([]int{0, 1, 100, 5000}).Draw(t, "fieldLen"), i, 3, 0))
			mp := "--b\r\nContent-Disposition: form-data; name=\"a\"\r\n\r\n" + val + "\r\n--b--" + rapid.SampledFrom([]string{"\r\n", "", "\r\n\r\n"}).Draw(t, "afterClose")
			n := rapid.SampledFrom([]int{0, 0, 1, 2, 8, 100, 1000, 4000, 4096, 4097, 5000, 9000, 20000}).Draw(t, "epilogueLen")
			epi := ""
			switch rapid.IntRange(0, 2).Draw(t, "epilogueKind") {
			case 0:
				epi = strings.Repeat("e", n)
			case 1:
				sm := "GET /smuggled HTTP/1.1\r\nHost: example.com\r\n\r\n"
				for len(epi) < n {
					epi += sm
				}
			default:
				epi = string(gen.Body(n, i, 9, 2))
			}
			if epi != "" && !strings.HasSuffix(mp, "\r\n") {
				mp += "\r\n" // the close delimiter ends its line before an epilogue may follow
			}
			if len(epi) > maxEpi {
				maxEpi = len(epi)
			}
			body := []byte(mp + epi)
			s.Reqs = append(s.Reqs, &wire.Req{Method: "POST", Target: target, Proto: "HTTP/1.1", Framing: wire.FrCL, Body: body, BodyLen: len(body),
				Lines: []wire.KV{host, {K: "Content-Type", V: "multipart/form-data; boundary=b"}, {K: "Content-Length", V: fmt.Sprint(len(body))}}})
			s.Infos = append(s.Infos, &gen.ReqInfo{FoldedNames: map[string]bool{}})
			multi[i] = true
		}
		gen.SetClose(s.Reqs[len(s.Reqs)-1])
		s.Encode()
		s.Cuts = gen.Cuts(t, len(s.Bytes), s.AllMarks())
		cls := []string{fmt.Sprintf("reqs-%d", k), map[bool]string{true: "cfg-streaming", false: "cfg-buffered"}[stream]}
		switch {
		case maxEpi == 0:
			cls = append(cls, "epilogue-none")
		case maxEpi < 4096:
			cls = append(cls, "epilogue-lt4k")
		default:
			cls = append(cls, "epilogue-ge4k")
		}
		rec.Case(len(multi) > 0 && maxEpi > 0 && k >= 2, ev.Hash(s.Bytes, []byte(fmt.Sprint(stream, readBuf, s.Cuts))), cls...)
		obs, res, _ := server(stream, readBuf).Run(sconn.Split(s.Bytes, s.Cuts), sconn.EOF)
		fail := func(f string, a ...interface{}) {
			t.Fatalf("streaming=%v readBuf=%d cuts=%v: %s\nobserved:\n%s\nstream: %s", stream, readBuf, trimInts(s.Cuts), fmt.Sprintf(f, a...), srv.Describe(obs), srv.Short(s.Bytes))
		}
		if res.Panic != nil {
			fail("panic: %v", res.Panic)
		}
		if len(obs) != len(s.Reqs) {
			fail("%d handler invocations for %d requests", len(obs), len(s.Reqs))
		}
		var methods []string
		for i, r := range s.Reqs {
			if obs[i].Method != r.Method || obs[i].URI != r.Target {
				fail("invocation #%d is %s %s, want %s %s (bytes of a multipart epilogue were taken for a request?)", i, srv.Short([]byte(obs[i].Method)), obs[i].URI, r.Method, r.Target)
			}
			if !multi[i] && len(obs[i].Body) != 0 {
				fail("request #%d has no body but the handler saw %d bytes", i, len(obs[i].Body))
			}
			methods = append(methods, r.Method)
		}
		rs, err := srv.Resps(res.Output, methods)
		if err != nil || len(rs) != len(s.Reqs) {
			fail("want %d well-formed responses, got %d (%v)", len(s.Reqs), len(rs), err)
		}
		for i, r := range rs {
			if r.Status != 200 || srv.EchoIndex(r) != i {
				fail("response #%d has status %d, echo index %d", i, r.Status, srv.EchoIndex(r))
			}
		}
	})
}

// ---------------------------------------------------------------------------
// The same reference over real sockets: netpoll and standard transports behind a unix-socket
// listener (the statement's "standard vs netpoll transport" configuration). The bytes go through
// the kernel, so the segmentation is only suggested (a pause after each fragment), and the last
// request always asks for close so that the exchange ends without any timeout.

var netServers = map[string]*srv.NetEcho{}

func netServer(t interface{ Fatalf(string, ...interface{}) }, transport string, stream bool) *srv.NetEcho {
	k := fmt.Sprint(transport, stream)
	if s, ok := netServers[k]; ok {
		return s
	}
	cfg := srv.Config{Stream: stream, MaxBody: 8 << 20}
	tr := transport
	if transport == "netpoll-idle0" {
		// IdleTimeout 0: the connection goes back to the poller after every request
		tr = "netpoll"
		cfg.Extra = []config.Option{hserver.WithIdleTimeout(0)}
	}
	s, err := srv.NewNetEcho(cfg, tr)
	if err != nil {
		t.Fatalf("harness: %v", err)
	}
	netServers[k] = s
	return s
}

func TestC01Loopback(t *testing.T) {
	rec := ev.New("loopback")
	defer func() {
		for k, s := range netServers {
			s.Close()
			delete(netServers, k)
		}
	}()
	timeouts := 0
	rapid.Check(t, func(t *rapid.T) {
		transport := rapid.SampledFrom([]string{"netpoll", "netpoll-idle0", "standard"}).Draw(t, "transport")
		stream := rapid.Bool().Draw(t, "streaming")
		s := gen.GenStream(t, 5, gen.ReqOpts{Fold: true, NearMiss: true, Expect: true, HTTP10: true, ChunkExt: true, TabOWS: true, Huge: ev.Thorough()})
		if last := s.Reqs[len(s.Reqs)-1]; !last.Close {
			gen.SetClose(last)
			s.Encode()
		}
		nt, cls := classify(s, stream)
		cls = append(cls, "transport-"+transport)
		rec.Case(nt, ev.Hash(s.Bytes, []byte(fmt.Sprint(transport, stream, s.Cuts))), cls...)
		msg := CheckStream(netServer(t, transport, stream), s)
		if msg == inconclusive {
			timeouts++
			rec.Class("loopback-timeout-inconclusive", 1)
			if timeouts > 3 {
				fmt.Println("VERIF-INCONCLUSIVE: loopback exchanges keep timing out")
			}
			return
		}
		if msg != "" {
			t.Fatalf("transport=%s streaming=%v cuts=%v\n%s\nstream: %s", transport, stream, trimInts(s.Cuts), msg, srv.Short(s.Bytes))
		}
		if nt && rec.WantSample() {
			rec.Sample(sample(s, stream, 0))
		}
	})
}

// ---------------------------------------------------------------------------
// Saved inputs (shrunk failures found by this check; see known_findings.json).

func mkReq(method, target string, lines []wire.KV, framing wire.FramingKind, body []byte, chunks []int, trailers []wire.KV) *wire.Req {
	return &wire.Req{Method: method, Target: target, Proto: "HTTP/1.1", Lines: lines, Framing: framing, Body: body, BodyLen: len(body), ChunkSizes: chunks, Trailers: trailers}
}

type regressCase struct {
	name   string
	stream bool
	reqs   []*wire.Req
	folded []map[string]bool
}

func regressCases() []regressCase {
	host := wire.KV{K: "Host", V: "example.com"}
	return []regressCase{
		{name: "D2-obs-fold-then-body-and-pipelined-request", reqs: []*wire.Req{
			mkReq("POST", "/r0", []wire.KV{host, {K: "Content-Length", V: "1"}, {K: "X-A", V: "v\r\n cont"}}, wire.FrCL, []byte("a"), nil, nil),
			mkReq("GET", "/r1", []wire.KV{host}, wire.FrNone, nil, nil, nil),
		}, folded: []map[string]bool{{"x-a": true}, nil}},
		{name: "D2-obs-fold-two-folds", reqs: []*wire.Req{
			mkReq("PUT", "/r0", []wire.KV{host, {K: "X-A", V: "a\r\n\tb\r\n  c"}, {K: "Content-Length", V: "12"}}, wire.FrCL, []byte("GET / HTTP/1"), nil, nil),
			mkReq("POST", "/r1", []wire.KV{host, {K: "Transfer-Encoding", V: "chunked"}}, wire.FrChunked, []byte("hello world"), []int{5}, nil),
		}, folded: []map[string]bool{{"x-a": true}, nil}},
		{name: "D15-trailer-name-starting-with-0", reqs: []*wire.Req{
			mkReq("POST", "/r0", []wire.KV{host, {K: "Transfer-Encoding", V: "chunked"}, {K: "Trailer", V: "0-Trailer, 00"}}, wire.FrChunked, []byte("a"), []int{1}, []wire.KV{{K: "0-Trailer", V: "v"}, {K: "00", V: "w"}}),
			mkReq("GET", "/r1", []wire.KV{host}, wire.FrNone, nil, nil, nil),
		}},
		{name: "D15-streaming-trailer-name-starting-with-0", stream: true, reqs: []*wire.Req{
			mkReq("POST", "/r0", []wire.KV{host, {K: "Transfer-Encoding", V: "chunked"}, {K: "Trailer", V: "00"}}, wire.FrChunked, nil, nil, []wire.KV{{K: "00", V: "w"}}),
			mkReq("GET", "/r1", []wire.KV{host}, wire.FrNone, nil, nil, nil),
		}},
		{name: "D3-streaming-fixed-body-over-8k-then-pipelined", stream: true, reqs: []*wire.Req{
			mkReq("POST", "/r0", []wire.KV{host, {K: "Content-Length", V: "9000"}}, wire.FrCL, gen.Body(9000, 0, 1, 0), nil, nil),
			mkReq("GET", "/r1", []wire.KV{host}, wire.FrNone, nil, nil, nil),
		}},
		{name: "D3-streaming-fixed-body-8193", stream: true, reqs: []*wire.Req{
			mkReq("POST", "/r0", []wire.KV{host, {K: "Content-Length", V: "8193"}}, wire.FrCL, gen.Body(8193, 0, 1, 3), nil, nil),
			mkReq("POST", "/r1", []wire.KV{host, {K: "Content-Length", V: "3"}}, wire.FrCL, []byte("abc"), nil, nil),
		}},
		{name: "D22-obs-folded-trailer-value", reqs: []*wire.Req{
			mkReq("POST", "/r0", []wire.KV{host, {K: "Transfer-Encoding", V: "chunked"}, {K: "Trailer", V: "X-Trailer-A, X-Checksum"}}, wire.FrChunked, []byte("hello"), []int{5}, []wire.KV{{K: "X-Trailer-A", V: "v\r\n cont"}, {K: "X-Checksum", V: "a\r\n\tb\r\n c"}}),
			mkReq("GET", "/r1", []wire.KV{host}, wire.FrNone, nil, nil, nil),
		}, folded: []map[string]bool{{"x-trailer-a": true, "x-checksum": true}, nil}},
		{name: "D22-streaming-obs-folded-trailer-value", stream: true, reqs: []*wire.Req{
			mkReq("POST", "/r0", []wire.KV{host, {K: "Transfer-Encoding", V: "chunked"}, {K: "Trailer", V: "X-Trailer-A"}}, wire.FrChunked, nil, nil, []wire.KV{{K: "X-Trailer-A", V: "v\r\n cont"}}),
			mkReq("GET", "/r1", []wire.KV{host}, wire.FrNone, nil, nil, nil),
		}, folded: []map[string]bool{{"x-trailer-a": true}, nil}},
	}
}

func TestC01Regress(t *testing.T) {
	rec := ev.New("regress")
	for _, rc := range regressCases() {
		s := &gen.Stream{Reqs: rc.reqs}
		for i := range rc.reqs {
			info := &gen.ReqInfo{FoldedNames: map[string]bool{}}
			if i < len(rc.folded) && rc.folded[i] != nil {
				info.FoldedNames = rc.folded[i]
			}
			s.Infos = append(s.Infos, info)
		}
		s.Encode()
		n := len(s.Bytes)
		segs := [][]int{nil}
		var bytewise []int
		for i := 1; i < n && n < 3000; i++ {
			bytewise = append(bytewise, i)
		}
		if bytewise != nil {
			segs = append(segs, bytewise)
		}
		for c := 1; c < n; c += 1 + n/200 {
			segs = append(segs, []int{c})
		}
		for _, cuts := range segs {
			s.Cuts = cuts
			for _, rb := range []int{4096, 1} {
				rec.Case(true, ev.Hash(s.Bytes, []byte(fmt.Sprint(rc.stream, rb, cuts))), "regress-"+rc.name)
				if msg := CheckStream(server(rc.stream, rb), s); msg != "" {
					ev.Fail(prop, "regress", map[string]interface{}{"case": rc.name, "cuts": trimInts(cuts), "read_buf": rb}, msg)
					t.Errorf("%s cuts=%v readBuf=%d: %s", rc.name, trimInts(cuts), rb, msg)
					break
				}
			}
		}
	}
}

// ---------------------------------------------------------------------------
// Hostile near-miss framing names: exhaustive over (framing name, position,
// replacement byte, real framing, placement, body mode).

func TestC01HostileNearMiss(t *testing.T) {
	rec := ev.New("hostile-near-miss")
	shard, nshards := ev.Shard()
	host := wire.KV{K: "Host", V: "example.com"}
	var global, evals int64
	outcomes := map[string]int64{}
	fails := 0
	for _, base := range []string{"Content-Length", "Transfer-Encoding"} {
		decoy := "5"
		if base == "Transfer-Encoding" {
			decoy = "chunked"
		}
		for pos := 0; pos < len(base); pos++ {
			for b := 0; b < 256; b++ {
				c := byte(b)
				if c == base[pos] || c|0x20 == base[pos]|0x20 && (c|0x20 >= 'a' && c|0x20 <= 'z') {
					continue // the framing name itself (ASCII case variant)
				}
				if c == '\n' && pos == 0 {
					// a line that starts with LF is an empty line for every LF-tolerant parser
					// (RFC 7230 §3.5 allows recognising a bare LF as line terminator): that ends
					// the header block and is not a header with a near-miss name.
					rec.Excluded("LF-at-position-0-is-an-empty-line", 12)
					continue
				}
				name := base[:pos] + string(c) + base[pos+1:]
				for realFr := 0; realFr < 3; realFr++ {
					for place := 0; place < 2; place++ {
						for mode := 0; mode < 2; mode++ {
							global++
							if global%int64(nshards) != int64(shard) {
								continue
							}
							evals++
							hostile := wire.KV{K: name, V: decoy}
							var lines []wire.KV
							var req *wire.Req
							body := []byte("abc")
							real := []wire.KV{}
							switch realFr {
							case 1:
								real = append(real, wire.KV{K: "Content-Length", V: "3"})
							case 2:
								real = append(real, wire.KV{K: "Transfer-Encoding", V: "chunked"})
							}
							lines = append(lines, host)
							if place == 0 {
								lines = append(lines, hostile)
								lines = append(lines, real...)
							} else {
								lines = append(lines, real...)
								lines = append(lines, hostile)
							}
							switch realFr {
							case 0:
								req = mkReq("POST", "/r0", lines, wire.FrNone, nil, nil, nil)
							case 1:
								req = mkReq("POST", "/r0", lines, wire.FrCL, body, nil, nil)
							case 2:
								req = mkReq("POST", "/r0", lines, wire.FrChunked, body, []int{3}, nil)
							}
							probe := mkReq("GET", "/probe-after-hostile", []wire.KV{host}, wire.FrNone, nil, nil, nil)
							var stream []byte
							stream, _ = req.Encode(stream)
							stream, _ = probe.Encode(stream)
							e := server(mode == 1, 4096)
							obs, res, _ := e.Run([][]byte{stream}, sconn.EOF)
							outcome, msg := judgeHostile(req, probe, obs, res)
							outcomes[outcome]++
							if msg != "" {
								fails++
								in := map[string]interface{}{"name": name, "value": decoy, "real_framing": realFr, "place": place, "streaming": mode == 1, "stream": string(stream)}
								ev.Fail(prop, "hostile-near-miss", in, msg)
								t.Errorf("header name %q (byte %#x at %d of %s), real framing %d, place %d, streaming %v: %s", name, c, pos, base, realFr, place, mode == 1, msg)
								if fails > 6 {
									rec.Exact(evals, evals)
									return
								}
							}
							if rec.WantSample() && evals%977 == 1 {
								rec.Sample(map[string]interface{}{"header_name": name, "value": decoy, "real_framing": []string{"none", "content-length: 3", "chunked"}[realFr], "outcome": outcome})
							}
						}
					}
				}
			}
		}
	}
	rec.Exact(evals, evals)
	for k, v := range outcomes {
		rec.Class("outcome-"+k, v)
	}
	rec.Exhaustive("every single-byte replacement (256 values, case variants excluded) at every position of Content-Length / Transfer-Encoding x real framing {none, CL, chunked} x placement {before, after} x {buffered, streaming}")
}

func judgeHostile(req, probe *wire.Req, obs []srv.Obs, res sconn.Result) (string, string) {
	if res.Panic != nil {
		return "panic", fmt.Sprintf("panic: %v", res.Panic)
	}
	rs, err := srv.Resps(res.Output, []string{"POST", "GET"})
	if err != nil {
		return "bad-output", fmt.Sprintf("output not well-formed: %v: %s", err, srv.Short(res.Output))
	}
	if len(obs) == 0 {
		if len(rs) == 1 && srv.IsRejection(rs[0]) && res.Closed {
			return "rejected", ""
		}
		return "odd", fmt.Sprintf("no handler ran but the output is not a single 4xx+close: %s", srv.Short(res.Output))
	}
	o := obs[0]
	if o.Method != req.Method || o.URI != req.Target || string(o.Body) != string(req.Body) || o.BodyErr != "" {
		return "moved", fmt.Sprintf("request with near-miss header was framed differently: handler saw %s %s body %s err %q, want body %q", o.Method, o.URI, srv.Short(o.Body), o.BodyErr, req.Body)
	}
	if len(obs) != 2 {
		return "moved", fmt.Sprintf("the request after the near-miss one was not delivered intact: %d invocations; output %s", len(obs), srv.Short(res.Output))
	}
	if msg := srv.Match(probe, nil, &obs[1]); msg != "" {
		return "moved", "follow-up request: " + msg
	}
	if len(rs) != 2 || rs[0].Status != 200 || rs[1].Status != 200 {
		return "odd", fmt.Sprintf("expected two 200 responses, got %d messages: %s", len(rs), srv.Short(res.Output))
	}
	return "served-opaque", ""
}
