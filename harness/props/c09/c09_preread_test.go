package c09

import (
	"context"
	"fmt"
	"strings"
	"sync/atomic"
	"testing"

	"github.com/cloudwego/hertz/pkg/app"
	"github.com/cloudwego/hertz/pkg/app/server"
	"pgregory.net/rapid"

	"verifharness/ev"
	"verifharness/sconn"
	"verifharness/wire"
)

// TestC09PreReadWindow: what an earlier request did to the pooled request's body buffer (Body() on a
// streamed body, SetBody, AppendBody: each grows it) must not change how the next request on the
// recycled context is read. Streaming mode with a body limit: a POST whose announced length is over the
// limit, with a GET pipelined behind it, is served the same way (same sequence of statuses, same bodies,
// connection kept or closed) on a context that carried a large body before as on a new one.
func TestC09PreReadWindow(t *testing.T) {
	rec := ev.New("preread-window")
	var grow string
	limit := 1024
	mk := func() *sconn.Server {
		return sconn.NewServer(func(h *server.Hertz) {
			h.POST("/dirty", func(c context.Context, ctx *app.RequestContext) {
				switch grow {
				case "Body()":
					ctx.Request.Body()
				case "SetBody":
					ctx.Request.Body()
					ctx.Request.SetBody(make([]byte, 100000))
				case "AppendBody":
					ctx.Request.Body()
					ctx.Request.AppendBody(make([]byte, 50000))
				}
				ctx.SetBodyString("dirty-done")
			})
			h.POST("/up", func(c context.Context, ctx *app.RequestContext) {
				ctx.SetBodyString(fmt.Sprintf("up:%d", len(ctx.Request.Body())))
			})
			h.GET("/probe", func(c context.Context, ctx *app.RequestContext) { ctx.SetBodyString("probe-ok") })
		}, server.WithStreamBody(true), server.WithMaxRequestBodySize(limit))
	}
	outcome := func(out []byte, closed bool, methods []string) string {
		var parts []string
		pos := 0
		for _, m := range methods {
			pr, err := wire.ReadResponse(out, pos, m)
			if err != nil {
				break
			}
			parts = append(parts, fmt.Sprintf("%d %q", pr.Status, pr.Body))
			pos = pr.End
		}
		return fmt.Sprintf("%v closed=%v", parts, closed)
	}
	var knownD162 int64
	defer func() {
		rec.Excluded("D162-body-limit-below-1023-does-not-bound-a-fresh-read-buffer", atomic.LoadInt64(&knownD162))
	}()
	rapid.Check(t, func(t *rapid.T) {
		grow = rapid.SampledFrom([]string{"Body()", "SetBody", "AppendBody"}).Draw(t, "howTheEarlierRequestGrewTheBuffer")
		dirtyLen := rapid.SampledFrom([]int{2000, 20000, 100000}).Draw(t, "earlierBodyLen")
		// limits below the 1 KiB a fresh body buffer starts with: the limit bounds that buffer as well
		limit = rapid.SampledFrom([]int{1024, 1024, 10, 300}).Draw(t, "bodyLimit")
		overLen := rapid.SampledFrom([]int{limit + 1, 2 * limit, 1025, 3000, 8000, 9000}).Draw(t, "overLimitBodyLen")
		pair := fmt.Sprintf("POST /up HTTP/1.1\r\nHost: h\r\nContent-Length: %d\r\n\r\n%sGET /probe HTTP/1.1\r\nHost: h\r\n\r\n", overLen, strings.Repeat("u", overLen))
		dirty := fmt.Sprintf("POST /dirty HTTP/1.1\r\nHost: h\r\nContent-Length: %d\r\n\r\n%s", dirtyLen, strings.Repeat("d", dirtyLen))
		fresh := mk()
		rf := fresh.Serve(sconn.New([][]byte{[]byte(pair)}, sconn.EOF))
		fresh.Close()
		used := mk()
		ru := used.Serve(sconn.New([][]byte{[]byte(dirty), []byte(pair)}, sconn.EOF))
		used.Close()
		rec.Case(true, ev.HashString(grow, fmt.Sprint(dirtyLen, overLen, limit)), "grown-by-"+grow, fmt.Sprintf("limit-%d", limit))
		if rf.Panic != nil || ru.Panic != nil {
			t.Fatalf("panic: %v %v", rf.Panic, ru.Panic)
		}
		want := outcome(rf.Output, rf.Closed, []string{"POST", "GET"})
		first, err := wire.ReadResponse(ru.Output, 0, "POST")
		if err != nil {
			t.Fatalf("the earlier request got no well-formed response: %v", err)
		}
		got := outcome(ru.Output[first.End:], ru.Closed, []string{"POST", "GET"})
		if got != want && limit < 1023 && ev.ReportKnown(prop, "D162") {
			// known finding D162: a fresh body buffer starts with 1 KiB whatever the limit says
			atomic.AddInt64(&knownD162, 1)
			return
		}
		if got != want {
			t.Fatalf("POST /up with Content-Length %d (limit %d) and a pipelined GET: on a new context the answers are %s; on the context recycled after a request of %d bytes (buffer grown by %s) they are %s", overLen, limit, want, dirtyLen, grow, got)
		}
	})
}
