package c09

import (
	"bufio"
	"context"
	"fmt"
	"io"
	"net"
	"os"
	"path/filepath"
	"strings"
	"sync"
	"testing"
	"time"

	"github.com/cloudwego/hertz/pkg/app"
	"github.com/cloudwego/hertz/pkg/app/server"
	"github.com/cloudwego/hertz/pkg/network/standard"

	"verifharness/ev"
)

// TestC09SenseDisconnect: the per-connection objects (read buffer, request context) go back to their pools in
// the deferred block of Serve; nothing that was started for the finished request may still use them,
// whichever way Serve ends. With WithSenseClientDisconnection the standard transport starts a goroutine
// per request that blocks in Peek on the connection's read buffer. The unit serves many short
// connections behind the real standard transport, a drawn fraction of which end with a response whose
// write fails (a body stream shorter than announced, a peer that goes away inside a large streamed
// body); every exchange that is supposed to succeed must deliver exactly its own body (a buffer handed
// to another connection while the old goroutine still fills it shows as foreign bytes), and the unit is
// built with the race detector, whose report fails the run.
func TestC09SenseDisconnect(t *testing.T) {
	rec := ev.New("sense-disconnect")
	dir, _ := os.Getwd()
	sock := filepath.Join(dir, fmt.Sprintf("sd%d.sock", os.Getpid()))
	if len(sock) > 100 {
		sock = filepath.Join(os.TempDir(), filepath.Base(sock))
	}
	os.Remove(sock)
	defer os.Remove(sock)
	h := server.New(server.WithNetwork("unix"), server.WithHostPorts(sock), server.WithTransport(standard.NewTransporter),
		server.WithSenseClientDisconnection(true), server.WithDisablePrintRoute(true), server.WithExitWaitTime(10*time.Millisecond))
	big := strings.Repeat("0123456789abcdef", 1<<14) // 256 KiB
	h.GET("/short", func(c context.Context, ctx *app.RequestContext) {
		ctx.SetBodyStream(strings.NewReader("abc"), 10) // ends before the announced length: the write fails
	})
	h.GET("/big", func(c context.Context, ctx *app.RequestContext) {
		ctx.SetBodyStream(strings.NewReader(big), len(big))
	})
	h.POST("/echo", func(c context.Context, ctx *app.RequestContext) {
		ctx.SetBodyString("echo:" + string(ctx.Request.Body()))
	})
	// Finished() is the accessor a helper goroutine uses to learn that the request is over (it has a mutex of its own)
	var finWaiters sync.WaitGroup
	h.GET("/fin", func(c context.Context, ctx *app.RequestContext) {
		finWaiters.Add(1)
		go func() {
			defer finWaiters.Done()
			select {
			case <-ctx.Finished():
			case <-time.After(200 * time.Millisecond): // asked too late: this is the next request's channel
			}
		}()
		ctx.SetBodyString("fin")
	})
	go h.Spin()
	defer h.Shutdown(context.Background()) //nolint:errcheck
	dial := func() (net.Conn, error) {
		var c net.Conn
		var err error
		for j := 0; j < 600; j++ {
			if c, err = net.Dial("unix", sock); err == nil {
				return c, nil
			}
			time.Sleep(5 * time.Millisecond)
		}
		return nil, err
	}
	const workers, perWorker = 8, 60
	var wg sync.WaitGroup
	msgs := make([]string, workers)
	for w := 0; w < workers; w++ {
		wg.Add(1)
		go func(w int) {
			defer wg.Done()
			for i := 0; i < perWorker && msgs[w] == ""; i++ {
				c, err := dial()
				if err != nil {
					msgs[w] = "harness: dial: " + err.Error()
					return
				}
				c.SetDeadline(time.Now().Add(20 * time.Second)) //nolint:errcheck
				br := bufio.NewReader(c)
				kind := (w + i) % 4
				switch kind {
				case 0: // the response write fails on the server's own account
					fmt.Fprintf(c, "GET /short HTTP/1.1\r\nHost: x\r\n\r\n")
					io.Copy(io.Discard, br) //nolint:errcheck
				case 1: // the peer goes away inside a large streamed body
					fmt.Fprintf(c, "GET /big HTTP/1.1\r\nHost: x\r\n\r\n")
					io.CopyN(io.Discard, br, 5000) //nolint:errcheck
				case 3: // a helper goroutine asks for the Finished channel while the request ends
					for k := 0; k < 3; k++ {
						fmt.Fprintf(c, "GET /fin HTTP/1.1\r\nHost: x\r\n\r\n")
						buf := make([]byte, 4096)
						if n, err := br.Read(buf); err != nil || !strings.HasSuffix(string(buf[:n]), "fin") {
							msgs[w] = fmt.Sprintf("exchange %d/%d/%d: /fin answered %q err %v", w, i, k, buf[:n], err)
							break
						}
					}
				case 2: // an ordinary exchange, twice on the connection: must deliver its own bytes
					for k := 0; k < 2; k++ {
						body := fmt.Sprintf("w%d-i%d-k%d-%s", w, i, k, strings.Repeat("z", 100+7*i))
						fmt.Fprintf(c, "POST /echo HTTP/1.1\r\nHost: x\r\nContent-Length: %d\r\n\r\n%s", len(body), body)
						line, err := br.ReadString('\n')
						if err != nil || !strings.HasPrefix(line, "HTTP/1.1 200") {
							msgs[w] = fmt.Sprintf("exchange %d/%d/%d: status line %q err %v", w, i, k, line, err)
							break
						}
						cl := -1
						for {
							hl, err := br.ReadString('\n')
							if err != nil || hl == "\r\n" {
								break
							}
							fmt.Sscanf(strings.ToLower(hl), "content-length: %d", &cl) //nolint:errcheck
						}
						got := make([]byte, cl+0)
						if cl < 0 {
							msgs[w] = fmt.Sprintf("exchange %d/%d/%d: no Content-Length", w, i, k)
							break
						}
						if _, err := io.ReadFull(br, got); err != nil || string(got) != "echo:"+body {
							msgs[w] = fmt.Sprintf("exchange %d/%d/%d: body %q, want %q (err %v)", w, i, k, got, "echo:"+body, err)
							break
						}
					}
				}
				c.Close()
				rec.Case(kind != 2, ev.HashString(fmt.Sprint(w, i, kind)), []string{"write-fails-short-stream", "peer-leaves-inside-body", "clean-exchange", "finished-channel-from-helper-goroutine"}[kind])
			}
		}(w)
	}
	wg.Wait()
	finWaiters.Wait()
	time.Sleep(50 * time.Millisecond)
	for _, m := range msgs {
		if m != "" {
			ev.Fail(prop, "sense-disconnect", map[string]interface{}{"workers": workers, "per_worker": perWorker}, m)
			t.Fatalf("%s", m)
		}
	}
}
