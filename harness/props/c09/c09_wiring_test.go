package c09

import (
	"context"
	"fmt"
	"github.com/cloudwego/hertz/pkg/network"
	"strings"
	"sync/atomic"
	"testing"

	"github.com/cloudwego/hertz/pkg/app"
	"github.com/cloudwego/hertz/pkg/app/server"
	hrender "github.com/cloudwego/hertz/pkg/app/server/render"

	"verifharness/ev"
	"verifharness/sconn"
)

// TestC09Wiring: the exported mutators that the other units leave out because they take a function
// or change how the engine treats the context: SetClientIPFunc, SetFormValueFunc, Exile,
// Request.SetIsTLS, and the exported field HTMLRender. A handler calls one of them; the next request, served with the recycled context
// on the same connection or on another one, is asked what a new context would answer.
//
// On the current tree the first three survive recycling (RequestContext.ResetWithoutConn does not know the
// engine's defaults; they are applied once, when the pool allocates the context). That is recorded
// as known finding D60: each case that fails is reported as such when the finding is listed, as a
// violation otherwise.
func TestC09Wiring(t *testing.T) {
	rec := ev.New("wiring-setters")
	type obsT struct {
		ip, form, scheme, render string
		exiled                   bool
	}
	var which string
	var got obsT
	observe := func(ctx *app.RequestContext) obsT {
		return obsT{ip: ctx.ClientIP(), form: string(ctx.FormValue("pq")), scheme: string(ctx.Request.Scheme()), render: fmt.Sprintf("%T", ctx.HTMLRender), exiled: ctx.IsExiled()}
	}
	s := sconn.NewServer(func(h *server.Hertz) {
		h.GET("/wire", func(c context.Context, ctx *app.RequestContext) {
			switch which {
			case "SetClientIPFunc":
				ctx.SetClientIPFunc(func(*app.RequestContext) string { return "6.6.6.6" })
			case "SetFormValueFunc":
				ctx.SetFormValueFunc(func(*app.RequestContext, string) []byte { return []byte("overridden") })
			case "Exile":
				ctx.Exile()
			case "Request.SetIsTLS":
				ctx.Request.SetIsTLS(true)
			case "HTMLRender":
				// an exported field; assigning it is the only way to choose a renderer for one answer
				ctx.HTMLRender = &hrender.HTMLDebug{}
			}
			ctx.SetBodyString("ok")
		})
		h.GET("/probe", func(c context.Context, ctx *app.RequestContext) {
			got = observe(ctx)
			ctx.SetBodyString("probe")
		})
	})
	defer s.Close()
	wire := "GET /wire HTTP/1.1\r\nHost: a\r\n\r\n"
	probe := "GET /probe?pq=1 HTTP/1.1\r\nHost: a\r\n\r\n"
	// what a context that no handler has touched answers
	which = "nothing"
	s.Serve(sconn.New([][]byte{[]byte(probe)}, sconn.EOF))
	fresh := got
	var evals, known int64
	// listed under D60: the three whose defaults only the engine knows. What the protocol server itself
	// hands to the context (the scheme of the connection, the engine's renderer) has to be back in place.
	d60 := map[string]bool{"SetClientIPFunc": true, "SetFormValueFunc": true, "Exile": true}
	for _, w := range []string{"SetClientIPFunc", "SetFormValueFunc", "Exile", "Request.SetIsTLS", "HTMLRender"} {
		for _, shape := range []string{"same-connection", "next-connection"} {
			which = w
			got = obsT{}
			if shape == "same-connection" {
				s.Serve(sconn.New([][]byte{[]byte(wire + probe)}, sconn.EOF))
			} else {
				s.Serve(sconn.New([][]byte{[]byte(wire)}, sconn.EOF))
				s.Serve(sconn.New([][]byte{[]byte(probe)}, sconn.EOF))
			}
			evals++
			rec.Case(true, ev.HashString(w, shape), "wiring-"+w, "shape-"+shape)
			if got != fresh {
				msg := fmt.Sprintf("after a handler called %s, the next request (%s) observes %+v where a context no handler has touched observes %+v", w, shape, got, fresh)
				if d60[w] && ev.ReportKnown(prop, "D60") {
					known++
					continue
				}
				ev.Fail(prop, "wiring-setters", map[string]string{"mutator": w, "shape": shape}, msg)
				t.Errorf("%s", msg)
			}
		}
	}
	rec.Excluded("D60-engine-wiring-set-by-a-handler-survives-recycling", known)
	_ = strings.TrimSpace
}

// TestC09HijackAfterPanic: a handler registers a hijack handler (an upgrade) and then panics; nothing in
// the engine recovers it (no recovery middleware: the transport's worker recovers, closes that connection
// and the process goes on, as netpoll does). The context goes back to the pool through Serve's deferred
// block. The next request that draws it, on another connection, is an ordinary request: it is answered, its
// connection is not handed to the earlier request's hijack closure, and Hijacked() is false.
func TestC09HijackAfterPanic(t *testing.T) {
	rec := ev.New("hijack-after-panic")
	var hijackRuns int32
	var probeHijacked bool
	s := sconn.NewServer(func(h *server.Hertz) {
		h.GET("/upgrade", func(c context.Context, ctx *app.RequestContext) {
			ctx.Hijack(func(conn network.Conn) { atomic.AddInt32(&hijackRuns, 1) })
			panic("the upgrade handler fails after it has registered its hijack handler")
		})
		h.GET("/probe", func(c context.Context, ctx *app.RequestContext) {
			probeHijacked = ctx.Hijacked()
			ctx.SetBodyString("probe")
		})
	})
	defer s.Close()
	for round := 0; round < 6; round++ {
		res := s.Serve(sconn.New([][]byte{[]byte("GET /upgrade HTTP/1.1\r\nHost: a\r\n\r\n")}, sconn.EOF))
		rec.Case(true, ev.HashString(fmt.Sprint(round)), "panic-after-hijack-registration")
		if res.Panic == nil {
			t.Fatalf("harness: the panic of the upgrade handler did not leave the engine")
		}
		atomic.StoreInt32(&hijackRuns, 0)
		probeHijacked = false
		res = s.Serve(sconn.New([][]byte{[]byte("GET /probe HTTP/1.1\r\nHost: a\r\n\r\nGET /probe HTTP/1.1\r\nHost: a\r\n\r\n")}, sconn.EOF))
		if res.Panic != nil {
			t.Fatalf("panic while serving the probe: %v", res.Panic)
		}
		n := strings.Count(string(res.Output), "HTTP/1.1 200")
		if probeHijacked || atomic.LoadInt32(&hijackRuns) != 0 || n != 2 {
			msg := fmt.Sprintf("after a handler that registered a hijack handler and panicked, two ordinary requests on a new connection: Hijacked()=%v, the earlier request's hijack closure ran %d time(s), %d of 2 requests answered: %q", probeHijacked, atomic.LoadInt32(&hijackRuns), n, res.Output)
			ev.Fail(prop, "hijack-after-panic", map[string]int{"round": round}, msg)
			t.Fatalf("%s", msg)
		}
	}
}
