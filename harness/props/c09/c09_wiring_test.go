package c09

import (
	"context"
	"fmt"
	"strings"
	"testing"

	"github.com/cloudwego/hertz/pkg/app"
	"github.com/cloudwego/hertz/pkg/app/server"

	"verifharness/ev"
	"verifharness/sconn"
)

// TestC09Wiring: the exported mutators that the other units leave out because they take a function
// or change how the engine treats the context: SetClientIPFunc, SetFormValueFunc, Exile,
// Request.SetIsTLS. A handler calls one of them; the next request, served with the recycled context
// on the same connection or on another one, is asked what a new context would answer.
//
// On the current tree these four survive recycling (RequestContext.ResetWithoutConn does not know the
// engine's defaults; they are applied once, when the pool allocates the context). That is recorded
// as known finding D60: each case that fails is reported as such when the finding is listed, as a
// violation otherwise.
func TestC09Wiring(t *testing.T) {
	rec := ev.New("wiring-setters")
	type obsT struct {
		ip, form, scheme string
		exiled           bool
	}
	var which string
	var got obsT
	observe := func(ctx *app.RequestContext) obsT {
		return obsT{ip: ctx.ClientIP(), form: string(ctx.FormValue("pq")), scheme: string(ctx.Request.Scheme()), exiled: ctx.IsExiled()}
	}
	s := sconn.NewServer(func(h *server.Hertz) {
		h.GET("/wire", func(c context.Context, ctx *app.RequestContext) {
			switch which {
			case "SetClientIPFunc":
				ctx.SetClientIPFunc(func(*app.RequestContext) string { return "6.6.6.6" })
			case "SetFormValueFunc":
				ctx.SetFormValueFunc(func(*app.RequestContext, string) []byte { return []byte("overridden") })
			case "Exile":
				ctx.Exile()
			case "Request.SetIsTLS":
				ctx.Request.SetIsTLS(true)
			}
			ctx.SetBodyString("ok")
		})
		h.GET("/probe", func(c context.Context, ctx *app.RequestContext) {
			got = observe(ctx)
			ctx.SetBodyString("probe")
		})
	})
	defer s.Close()
	wire := "GET /wire HTTP/1.1\r\nHost: a\r\n\r\n"
	probe := "GET /probe?pq=1 HTTP/1.1\r\nHost: a\r\n\r\n"
	// what a context that no handler has touched answers
	which = "nothing"
	s.Serve(sconn.New([][]byte{[]byte(probe)}, sconn.EOF))
	fresh := got
	var evals, known int64
	for _, w := range []string{"SetClientIPFunc", "SetFormValueFunc", "Exile", "Request.SetIsTLS"} {
		for _, shape := range []string{"same-connection", "next-connection"} {
			which = w
			got = obsT{}
			if shape == "same-connection" {
				s.Serve(sconn.New([][]byte{[]byte(wire + probe)}, sconn.EOF))
			} else {
				s.Serve(sconn.New([][]byte{[]byte(wire)}, sconn.EOF))
				s.Serve(sconn.New([][]byte{[]byte(probe)}, sconn.EOF))
			}
			evals++
			rec.Case(true, ev.HashString(w, shape), "wiring-"+w, "shape-"+shape)
			if got != fresh {
				msg := fmt.Sprintf("after a handler called %s, the next request (%s) observes %+v where a context no handler has touched observes %+v", w, shape, got, fresh)
				if ev.ReportKnown(prop, "D60") {
					known++
					continue
				}
				ev.Fail(prop, "wiring-setters", map[string]string{"mutator": w, "shape": shape}, msg)
				t.Errorf("%s", msg)
			}
		}
	}
	rec.Excluded("D60-engine-wiring-set-by-a-handler-survives-recycling", known)
	_ = strings.TrimSpace
}
