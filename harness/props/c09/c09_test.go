package c09

import (
	"context"
	"errors"
	"fmt"
	"github.com/cloudwego/hertz/pkg/common/config"
	"io"
	"os"
	"reflect"
	"regexp"
	"sort"
	"strings"
	"sync"
	"testing"
	"time"

	"github.com/cloudwego/hertz/pkg/app"
	"github.com/cloudwego/hertz/pkg/app/middlewares/server/recovery"
	"github.com/cloudwego/hertz/pkg/app/server"
	"github.com/cloudwego/hertz/pkg/protocol"
	"pgregory.net/rapid"

	"verifharness/ev"
	"verifharness/sconn"
	"verifharness/wire"
)

const prop = "C09"

func TestMain(m *testing.M) {
	code := m.Run()
	ev.Flush()
	os.Exit(code)
}

// ---------------------------------------------------------------------------
// Objects reachable from a request context.

type target struct {
	name string
	get  func(ctx *app.RequestContext) reflect.Value
}

var targets = []target{
	{"ctx", func(ctx *app.RequestContext) reflect.Value { return reflect.ValueOf(ctx) }},
	{"ctx.Request", func(ctx *app.RequestContext) reflect.Value { return reflect.ValueOf(&ctx.Request) }},
	{"ctx.Request.Header", func(ctx *app.RequestContext) reflect.Value { return reflect.ValueOf(&ctx.Request.Header) }},
	{"ctx.Response", func(ctx *app.RequestContext) reflect.Value { return reflect.ValueOf(&ctx.Response) }},
	{"ctx.Response.Header", func(ctx *app.RequestContext) reflect.Value { return reflect.ValueOf(&ctx.Response.Header) }},
	{"ctx.Request.URI()", func(ctx *app.RequestContext) reflect.Value { return reflect.ValueOf(ctx.Request.URI()) }},
	{"ctx.QueryArgs()", func(ctx *app.RequestContext) reflect.Value { return reflect.ValueOf(ctx.QueryArgs()) }},
	{"ctx.PostArgs()", func(ctx *app.RequestContext) reflect.Value { return reflect.ValueOf(ctx.PostArgs()) }},
	{"ctx.Request.Header.Trailer()", func(ctx *app.RequestContext) reflect.Value { return reflect.ValueOf(ctx.Request.Header.Trailer()) }},
	{"ctx.Response.Header.Trailer()", func(ctx *app.RequestContext) reflect.Value { return reflect.ValueOf(ctx.Response.Header.Trailer()) }},
}

// methods that end the experiment, block, or hand out connection-level objects
var denyCall = map[string]bool{
	"Hijack": true, "SetConn": true, "Reset": true, "ResetWithoutConn": true, "ResetSkipHeader": true, "ResetSkipNormalize": true, "Exile": true, "SetHandlers": true, "Next": true,
	"File": true, "FileFromFS": true, "FileAttachment": true, "SetTraceInfo": true, "SetEnableTrace": true, "SetHijackHandler": true, "HijackWriter": true,
	"GetConn": true, "GetReader": true, "GetWriter": true, "Finished": true, "Flush": true, "Copy": true, "ForEachKey": true,
	"SetBinder": true, "SetValidator": true, "SetClientIPFunc": true, "SetFormValueFunc": true, "SetMaxKeepBodySize": true,
	"ReadFrom": true, "WriteTo": true, "BodyWriteTo": true, "BodyWriter": true, "ConstructBodyStream": true, "SetOptions": true,
	"SaveUploadedFile": true, "Bind": true, "BindAndValidate": true, "Validate": true, "BindQuery": true, "BindHeader": true, "BindPath": true, "BindForm": true, "BindJSON": true, "BindProtobuf": true, "BindByContentType": true,
	"HTML": true, "Render": true, "ProtoBuf": true, "SetIsTLS": true, "ParseNetAddr": true, "SetFile": true, "SetFiles": true, "SetFileReader": true, "SetMultipartField": true, "SetMultipartFields": true,
	"CopyTo": true, "CopyToSkipBody": true, "Swap": true, "VisitAll": true, "VisitAllCookie": true, "VisitAllCustomHeader": true, "VisitAllInOrder": true,
	"InitBufValue": true, "SetBufValue": true, "IsExiled": true, "SetRawHeaders": true, "InitContentLengthWithValue": true,
	"AbortWithError": true, "Error": true, // append to ctx.Errors with a *errors.Error: kept, see mutator below
}

var (
	tString  = reflect.TypeOf("")
	tBytes   = reflect.TypeOf([]byte(nil))
	tInt     = reflect.TypeOf(0)
	tBool    = reflect.TypeOf(false)
	tTime    = reflect.TypeOf(time.Time{})
	tReader  = reflect.TypeOf((*io.Reader)(nil)).Elem()
	tError   = reflect.TypeOf((*error)(nil)).Elem()
	tAny     = reflect.TypeOf((*interface{})(nil)).Elem()
	tMapSS   = reflect.TypeOf(map[string]string(nil))
	tSame    = reflect.TypeOf(protocol.CookieSameSite(0))
	tCookie  = reflect.TypeOf(&protocol.Cookie{})
	tCtx     = reflect.TypeOf((*context.Context)(nil)).Elem()
	tStrings = reflect.TypeOf([]string(nil))
)

func synthesizable(t reflect.Type) bool {
	switch t {
	case tString, tBytes, tInt, tBool, tTime, tReader, tError, tAny, tMapSS, tSame, tCookie, tCtx, tStrings:
		return true
	}
	return false
}

var strPool = []string{"", "a", "X-Custom", "X-D1", "X-D2", "X-D3", "X-Dirty", "Content-Type", "Content-Length", "Connection", "close", "keep-alive", "text/plain", "application/json", "/path?q=1", "http://other.example/x?y=2#f", "k=v", "Cookie", "Set-Cookie", "k", "v", "Trailer", "X-T",
	"Transfer-Encoding", "chunked", "100-continue", "Expect", "gzip", "Content-Encoding", "multipart/form-data; boundary=b", "GET", "HEAD", "POST", "Host", "evil.example", "Server", "Date", "Location", "7", "User-Agent", "Authorization", "Basic dTpw",
	"/..", "/a/../..", "/%2e%2e", "a=b; path=x", "x", "k=v; path=/..; domain=d"}

// genArg draws the description of one argument and returns a factory for it: every run of a
// program (and every goroutine in the concurrent unit) gets its own fresh value, so byte slices,
// readers, maps and cookies are never shared between handler invocations.
func genArg(t *rapid.T, ty reflect.Type) func() reflect.Value {
	switch ty {
	case tString:
		v := rapid.SampledFrom(strPool).Draw(t, "str")
		return func() reflect.Value { return reflect.ValueOf(v) }
	case tBytes:
		v := rapid.SampledFrom(strPool).Draw(t, "bytes")
		return func() reflect.Value { return reflect.ValueOf([]byte(v)) }
	case tInt:
		v := rapid.SampledFrom([]int{-1, 0, 1, 2, 5, 63, 100, 200, 204, 206, 301, 304, 404, 500, 4096, 1 << 20}).Draw(t, "int")
		return func() reflect.Value { return reflect.ValueOf(v) }
	case tBool:
		v := rapid.Bool().Draw(t, "bool")
		return func() reflect.Value { return reflect.ValueOf(v) }
	case tTime:
		v := int64(rapid.SampledFrom([]int{0, 1, 1700000000}).Draw(t, "time"))
		return func() reflect.Value { return reflect.ValueOf(time.Unix(v, 0)) }
	case tReader:
		v := rapid.SampledFrom([]string{"", "streamdata", "0123456789"}).Draw(t, "reader")
		return func() reflect.Value { return reflect.ValueOf(io.Reader(strings.NewReader(v))).Convert(tReader) }
	case tError:
		return func() reflect.Value { return reflect.ValueOf(errors.New("generated error")).Convert(tError) }
	case tAny:
		v := rapid.SampledFrom([]string{"val", "other"}).Draw(t, "any")
		return func() reflect.Value { return reflect.ValueOf(interface{}(v)) }
	case tMapSS:
		k, v := rapid.SampledFrom(strPool).Draw(t, "mk"), rapid.SampledFrom(strPool).Draw(t, "mv")
		return func() reflect.Value { return reflect.ValueOf(map[string]string{k: v}) }
	case tSame:
		v := rapid.IntRange(0, 4).Draw(t, "sameSite")
		return func() reflect.Value { return reflect.ValueOf(protocol.CookieSameSite(v)) }
	case tCookie:
		k := rapid.SampledFrom([]string{"k", "sess"}).Draw(t, "ck")
		return func() reflect.Value {
			c := &protocol.Cookie{}
			c.SetKey(k)
			c.SetValue("cv")
			return reflect.ValueOf(c)
		}
	case tCtx:
		return func() reflect.Value { return reflect.ValueOf(context.Background()).Convert(tCtx) }
	case tStrings:
		v := rapid.SampledFrom(strPool).Draw(t, "s0")
		return func() reflect.Value { return reflect.ValueOf([]string{v}) }
	}
	panic("unsynthesizable " + ty.String())
}

type call struct {
	Target string   `json:"target"`
	Method string   `json:"method"`
	Args   []string `json:"args"`
	ti     int
	args   []func() reflect.Value
}

type methodRef struct {
	ti   int
	name string
	typ  reflect.Type
}

var allMethods []methodRef

func init() {
	probe := app.NewContext(4)
	probe.Request.SetRequestURI("http://h/x")
	for ti, tg := range targets {
		v := tg.get(probe)
		ty := v.Type()
		for i := 0; i < ty.NumMethod(); i++ {
			m := ty.Method(i)
			if denyCall[m.Name] || strings.HasPrefix(m.Name, "Bind") {
				continue
			}
			ok := true
			mt := m.Type
			for k := 1; k < mt.NumIn(); k++ {
				in := mt.In(k)
				if mt.IsVariadic() && k == mt.NumIn()-1 {
					in = in.Elem()
				}
				if !synthesizable(in) {
					ok = false
				}
			}
			if ok {
				allMethods = append(allMethods, methodRef{ti, m.Name, mt})
			}
		}
	}
	sort.Slice(allMethods, func(i, j int) bool {
		if allMethods[i].ti != allMethods[j].ti {
			return allMethods[i].ti < allMethods[j].ti
		}
		return allMethods[i].name < allMethods[j].name
	})
}

func genProgram(t *rapid.T) []call {
	n := rapid.IntRange(1, 12).Draw(t, "nCalls")
	var prog []call
	for i := 0; i < n; i++ {
		if rapid.IntRange(0, 3).Draw(t, "fieldMutator") == 0 {
			prog = append(prog, call{Target: "field", Method: rapid.SampledFrom(fieldMutatorNames).Draw(t, "field")})
			continue
		}
		m := allMethods[rapid.IntRange(0, len(allMethods)-1).Draw(t, "method")]
		c := call{Target: targets[m.ti].name, Method: m.name, ti: m.ti}
		for k := 1; k < m.typ.NumIn(); k++ {
			in := m.typ.In(k)
			if m.typ.IsVariadic() && k == m.typ.NumIn()-1 {
				nv := rapid.IntRange(0, 2).Draw(t, "nVariadic")
				for j := 0; j < nv; j++ {
					a := genArg(t, in.Elem())
					c.args = append(c.args, a)
					c.Args = append(c.Args, fmt.Sprintf("%.40v", a().Interface()))
				}
				continue
			}
			a := genArg(t, in)
			c.args = append(c.args, a)
			c.Args = append(c.Args, fmt.Sprintf("%.40v", a().Interface()))
		}
		prog = append(prog, c)
	}
	return prog
}

// exported fields that handlers can assign directly
var fieldMutators = map[string]func(ctx *app.RequestContext){
	"Response.SkipBody=true":             func(ctx *app.RequestContext) { ctx.Response.SkipBody = true },
	"Response.ImmediateHeaderFlush=true": func(ctx *app.RequestContext) { ctx.Response.ImmediateHeaderFlush = true },
	"Keys[k]=v":                          func(ctx *app.RequestContext) { ctx.Keys = map[string]interface{}{"k": "v"} },
	"Params=append":                      func(ctx *app.RequestContext) { ctx.Params = append(ctx.Params, ctx.Params...) },
	"URI.DisablePathNormalizing=true":    func(ctx *app.RequestContext) { ctx.Request.URI().DisablePathNormalizing = true },
	// deleting an entry that is not the last one of a key/value list (headers, query, form, cookies)
	"Request.Header.Del(X-D2)":      func(ctx *app.RequestContext) { ctx.Request.Header.Del("X-D2") },
	"Request.Header.Del(X-D1,X-D3)": func(ctx *app.RequestContext) { ctx.Request.Header.Del("X-D1"); ctx.Request.Header.Del("X-D3") },
	"Request.Header.DelCookie(dc)":  func(ctx *app.RequestContext) { ctx.Request.Header.Cookie("dd"); ctx.Request.Header.DelCookie("dc") },
	"QueryArgs.Del(dr)":             func(ctx *app.RequestContext) { ctx.QueryArgs().Del("dr") },
	"PostArgs.Del(g)":               func(ctx *app.RequestContext) { ctx.PostArgs().Del("g") },
	"Response.Header.Set(R1..R4)+Del(R2)": func(ctx *app.RequestContext) {
		for _, k := range []string{"X-R1", "X-R2", "X-R3", "X-R4"} {
			ctx.Response.Header.Set(k, "response-value-"+k)
		}
		ctx.Response.Header.Del("X-R2")
	},
	// a handler may append to a slice it was given; what it appends must not land in the connection's read buffer,
	// where the next pipelined request is waiting
	"append(Request.Body(),...)": func(ctx *app.RequestContext) {
		_ = append(ctx.Request.Body(), "<APPENDED-BY-THE-HANDLER-OF-THE-EARLIER-REQUEST-0123456789-0123456789>"...)
	},
	"append(Request.Header.Peek(X-D1),...)": func(ctx *app.RequestContext) {
		_ = append(ctx.Request.Header.Peek("X-D1"), "<APPENDED-BY-THE-HANDLER-OF-THE-EARLIER-REQUEST-0123456789-0123456789>"...)
	},
	"Error(err)":     func(ctx *app.RequestContext) { ctx.Error(errors.New("handler error")) },             //nolint:errcheck
	"AbortWithError": func(ctx *app.RequestContext) { ctx.AbortWithError(500, errors.New("abort error")) }, //nolint:errcheck
}

var fieldMutatorNames = func() []string {
	var ns []string
	for n := range fieldMutators {
		ns = append(ns, n)
	}
	sort.Strings(ns)
	return ns
}()

func runProgram(ctx *app.RequestContext, prog []call) {
	for _, c := range prog {
		func() {
			defer func() { recover() }() //nolint:errcheck
			if c.Target == "field" {
				fieldMutators[c.Method](ctx)
				return
			}
			v := targets[c.ti].get(ctx)
			args := make([]reflect.Value, len(c.args))
			for i, mk := range c.args {
				args[i] = mk()
			}
			v.MethodByName(c.Method).Call(args)
		}()
	}
}

// ---------------------------------------------------------------------------
// State dump: every exported zero-argument getter, rendered canonically.

var denyDump = map[string]bool{
	"GetConn": true, "GetReader": true, "GetWriter": true, "Finished": true, "Copy": true, "GetTraceInfo": true, "GetHijackHandler": true, "GetHijackWriter": true,
	"RequestBodyStream": true, "BodyStream": true, "BodyBuffer": true, "MultipartForm": true, "Options": true, "BodyWriter": true, "Handler": true, "Handlers": true,
	"Next": true, "Abort": true, "Reset": true, "ResetWithoutConn": true, "ResetBody": true, "ResetConnectionClose": true, "ResetSkipNormalize": true, "ResetSkipHeader": true, "Exile": true, "Flush": true,
	"RemoveMultipartFormFiles": true, "DisableNormalizing": true, "SetConnectionClose": true, "CloseBodyStream": true, "NotModified": true, "NotFound": true, "Done": true, "Err": true, "Deadline": true,
	"AbortWithStatus": true, "LocalAddr": true, "GetBufValue": true, "SetNoDefaultContentType": true, "URI": true, "PostArgs": true, "QueryArgs": true, "Trailer": true, "BodyGunzip": true, "BodyE": true,
	"GetRequest": true, "GetResponse": true, "IsExiled": true, "HandlerName": true,
}

var dateRe = regexp.MustCompile(`Date: [^\r\n]*`)

func render(v reflect.Value) string {
	if !v.IsValid() {
		return "<invalid>"
	}
	switch v.Kind() {
	case reflect.Slice:
		if v.Type().Elem().Kind() == reflect.Uint8 {
			return fmt.Sprintf("%q", dateRe.ReplaceAllString(string(v.Bytes()), "Date: D"))
		}
		var parts []string
		for i := 0; i < v.Len(); i++ {
			parts = append(parts, render(v.Index(i)))
		}
		return "[" + strings.Join(parts, ",") + "]"
	case reflect.String:
		return fmt.Sprintf("%q", dateRe.ReplaceAllString(v.String(), "Date: D"))
	case reflect.Bool, reflect.Int, reflect.Int8, reflect.Int16, reflect.Int32, reflect.Int64, reflect.Uint, reflect.Uint8, reflect.Uint16, reflect.Uint32, reflect.Uint64, reflect.Float32, reflect.Float64:
		return fmt.Sprint(v.Interface())
	case reflect.Ptr, reflect.Func, reflect.Chan, reflect.UnsafePointer:
		if v.IsNil() {
			return "nil"
		}
		return "non-nil"
	case reflect.Interface:
		if v.IsNil() {
			return "nil"
		}
		if s, ok := v.Interface().(fmt.Stringer); ok {
			return v.Elem().Type().String() + ":" + s.String()
		}
		if e, ok := v.Interface().(error); ok {
			return "error:" + e.Error()
		}
		return v.Elem().Type().String() + ":" + render(v.Elem())
	case reflect.Map:
		var parts []string
		for _, k := range v.MapKeys() {
			parts = append(parts, render(k)+"="+render(v.MapIndex(k)))
		}
		sort.Strings(parts)
		return "{" + strings.Join(parts, ",") + "}"
	case reflect.Struct:
		if t, ok := v.Interface().(time.Time); ok {
			if t.IsZero() {
				return "time:zero"
			}
			return "time:" + t.UTC().Format(time.RFC3339)
		}
		var parts []string
		for i := 0; i < v.NumField(); i++ {
			if v.Type().Field(i).PkgPath == "" {
				parts = append(parts, v.Type().Field(i).Name+":"+render(v.Field(i)))
			}
		}
		return "{" + strings.Join(parts, ",") + "}"
	}
	return v.Kind().String()
}

func dump(ctx *app.RequestContext) []string {
	var out []string
	for _, tg := range targets {
		v := tg.get(ctx)
		ty := v.Type()
		for i := 0; i < ty.NumMethod(); i++ {
			m := ty.Method(i)
			if m.Type.NumIn() != 1 || m.Type.NumOut() == 0 || denyDump[m.Name] || strings.HasPrefix(m.Name, "Set") || strings.HasPrefix(m.Name, "Abort") || strings.HasPrefix(m.Name, "Reset") || strings.HasPrefix(m.Name, "Del") {
				continue
			}
			line := func() (s string) {
				defer func() {
					if r := recover(); r != nil {
						s = fmt.Sprintf("panic:%v", r)
					}
				}()
				res := v.Method(i).Call(nil)
				var parts []string
				for _, r := range res {
					parts = append(parts, render(r))
				}
				return strings.Join(parts, " | ")
			}()
			out = append(out, tg.name+"."+m.Name+"() = "+line)
		}
	}
	// exported fields and enumerations
	out = append(out, fmt.Sprintf("ctx.Params = %s", render(reflect.ValueOf(ctx.Params))))
	out = append(out, fmt.Sprintf("ctx.Keys = %s", render(reflect.ValueOf(ctx.Keys))))
	out = append(out, fmt.Sprintf("ctx.Errors = %d", len(ctx.Errors)))
	out = append(out, fmt.Sprintf("ctx.Response.SkipBody = %v", ctx.Response.SkipBody))
	out = append(out, fmt.Sprintf("ctx.Response.ImmediateHeaderFlush = %v", ctx.Response.ImmediateHeaderFlush))
	out = append(out, fmt.Sprintf("ctx.HTMLRender nil = %v", ctx.HTMLRender == nil))
	out = append(out, fmt.Sprintf("ctx.Request.URI().DisablePathNormalizing = %v", ctx.Request.URI().DisablePathNormalizing))
	for _, k := range []string{"pc", "pd", "dc"} {
		out = append(out, fmt.Sprintf("ctx.Cookie(%q) = %q", k, ctx.Cookie(k)))
	}
	for _, k := range []string{"pf", "pg", "f", "pm"} {
		out = append(out, fmt.Sprintf("ctx.PostForm(%q) = %q ; FormValue = %q", k, ctx.PostForm(k), ctx.FormValue(k)))
	}
	for _, k := range []string{"pq", "dq"} {
		out = append(out, fmt.Sprintf("ctx.Query(%q) = %q", k, ctx.Query(k)))
	}
	if mf, err := ctx.MultipartForm(); err == nil && mf != nil {
		out = append(out, fmt.Sprintf("ctx.MultipartForm().Value = %s", render(reflect.ValueOf(mf.Value))))
	} else {
		out = append(out, fmt.Sprintf("ctx.MultipartForm() err = %v", err != nil))
	}
	var hs []string
	ctx.Request.Header.VisitAll(func(k, v []byte) { hs = append(hs, string(k)+": "+string(v)) })
	out = append(out, fmt.Sprintf("ctx.Request.Header.VisitAll = %q", hs))
	hs = nil
	ctx.Response.Header.VisitAll(func(k, v []byte) { hs = append(hs, dateRe.ReplaceAllString(string(k)+": "+string(v), "Date: D")) })
	out = append(out, fmt.Sprintf("ctx.Response.Header.VisitAll = %q", hs))
	hs = nil
	ctx.Request.Header.VisitAllCookie(func(k, v []byte) { hs = append(hs, string(k)+"="+string(v)) })
	out = append(out, fmt.Sprintf("ctx.Request.Header.VisitAllCookie = %q", hs))
	hs = nil
	ctx.Response.Header.VisitAllCookie(func(k, v []byte) { hs = append(hs, string(k)+"="+string(v)) })
	out = append(out, fmt.Sprintf("ctx.Response.Header.VisitAllCookie = %q", hs))
	return out
}

// ---------------------------------------------------------------------------

// probeSet: the key store of the context can be written. A lock left behind by an earlier request
// would block here for ever: bounded, so that the case fails instead of the run hanging.
func probeSet(ctx *app.RequestContext) string {
	setDone := make(chan struct{})
	go func() { ctx.Set("probe-key", 1); close(setDone) }()
	select {
	case <-setDone:
		return "ctx.Set returns = true"
	case <-time.After(5 * time.Second):
		return "ctx.Set returns = false (still blocked after 5 s)"
	}
}

type rig struct {
	s        *sconn.Server
	prog     []call
	ending   int
	dirtyPtr *app.RequestContext
	probePtr *app.RequestContext
	dumpDirt []string
	dumpProb []string
}

// server configurations: per-engine settings are applied to every request of a connection, so a
// recycled context must behave under them exactly like a fresh one
var rigConfigs = [][]config.Option{
	nil,
	{server.WithDisableDefaultDate(true), server.WithDisableDefaultContentType(true)},
	{server.WithDisableHeaderNamesNormalizing(true), server.WithRemoveExtraSlash(true), server.WithUnescapePathValues(false), server.WithUseRawPath(true)},
}

func newRig(cfgs ...int) *rig {
	cfg := 0
	if len(cfgs) > 0 {
		cfg = cfgs[0]
	}
	r := &rig{}
	r.s = sconn.NewServer(func(h *server.Hertz) {
		h.Use(recovery.Recovery())
		h.Any("/dirty/:p1/*rest", func(c context.Context, ctx *app.RequestContext) {
			r.dirtyPtr = ctx
			runProgram(ctx, r.prog)
			r.dumpDirt = dump(ctx)
			switch r.ending {
			case 1:
				ctx.Abort()
			case 2:
				ctx.AbortWithStatus(418)
			case 3:
				panic("dirty handler panics")
			case 4:
				ctx.SetConnectionClose()
			case 5:
				// the panic passes through framework code that calls back into the handler
				ctx.Set("k-for-each", "v")
				ctx.ForEachKey(func(string, interface{}) { panic("callback of ForEachKey panics") })
			}
		})
		probe := func(c context.Context, ctx *app.RequestContext) {
			r.probePtr = ctx
			r.dumpProb = dump(ctx)
			r.dumpProb = append(r.dumpProb, probeSet(ctx))
			ctx.SetStatusCode(200)
			ctx.SetBodyString("probe-ok")
		}
		h.Any("/probe", probe)
		h.NoRoute(probe) // a probe that the router does not match: FullPath and Params are not rewritten for it
	}, rigConfigs[cfg]...)
	return r
}

var dirtyReqs = []string{
	"POST /dirty/v1/a/b?dq=secret1&dq=secret2&dr=secret3&ds=secret4 HTTP/1.1\r\nHost: dirty.example\r\nContent-Type: application/x-www-form-urlencoded\r\nCookie: dc=1; dd=2\r\nX-Dirty: yes\r\nX-D1: d-one\r\nX-D2: d-two\r\nX-D3: d-three\r\nX-D4: d-four\r\nUser-Agent: dirty-agent\r\nContent-Length: 32\r\n\r\nf=secretf&g=secretg&h=secreth&i=",
	"HEAD /dirty/v2/h HTTP/1.1\r\nHost: dirty.example\r\nX-Dirty: head\r\n\r\n",
	"PUT /dirty/v3/c HTTP/1.1\r\nHost: dirty.example\r\nTransfer-Encoding: chunked\r\nTrailer: X-Tr\r\nContent-Type: multipart/form-data; boundary=b\r\n\r\n3b\r\n--b\r\nContent-Disposition: form-data; name=\"a\"\r\n\r\nv\r\n--b--\r\n\r\n0\r\nX-Tr: tv\r\n\r\n",
	"POST /dirty/v4/j HTTP/1.1\r\nHost: dirty.example\r\nContent-Type: application/json\r\nExpect: 100-continue\r\nContent-Length: 7\r\n\r\n{\"a\":1}",
}
var probeReqs = []string{
	"GET /x/../probe?pq=1 HTTP/1.1\r\nHost: probe.example\r\nX-Probe: 1\r\nCookie: pc=1; pd=2\r\n\r\n",
	"POST /not/./a//route?pq=1 HTTP/1.1\r\nHost: probe.example\r\nX-Probe: 1\r\nCookie: pc=3\r\nContent-Type: application/x-www-form-urlencoded\r\nContent-Length: 9\r\n\r\npf=1&pg=2",
	"PUT /probe HTTP/1.1\r\nHost: probe.example\r\nContent-Type: multipart/form-data; boundary=pb\r\nContent-Length: 62\r\n\r\n--pb\r\nContent-Disposition: form-data; name=\"pm\"\r\n\r\nv\r\n--pb--\r\n",
	// many application headers: every key/value slot of a recycled header list is used again
	"GET /probe?pq=1 HTTP/1.1\r\nHost: probe.example\r\nX-Probe: 1\r\nX-P1: one\r\nX-P2: two\r\nX-P3: three\r\nX-P4: four\r\nX-P5: five\r\nX-P6: six\r\nX-P7: seven\r\nX-P8: eight\r\nCookie: pc=1\r\n\r\n",
	// keys without '=' and empty values in every position: a recycled key/value slot must not lend them its old value
	"POST /probe?flag&pq=&other&last HTTP/1.1\r\nHost: probe.example\r\nX-Probe: 1\r\nCookie: bare; pc=; pd\r\nX-Empty:\r\nContent-Type: application/x-www-form-urlencoded\r\nContent-Length: 12\r\n\r\npf&pg=&ph&pi",
}

var sharedRigs = map[int]*rig{}

var (
	shared     *rig
	freshDump  = map[int][]string{}
	freshResp  = map[int][]byte{}
	freshDirty = map[int][]string{}
)

func masked(out []byte) []byte { return wire.MaskDate(out) }

// lastResponse returns the bytes of the last message on the connection (the probe's response);
// nil if the output does not decode (a dirty program may produce a broken first response: C04's business).
func lastResponse(out []byte, methods []string) []byte {
	pos, last, mi, finals := 0, 0, 0, 0
	for pos < len(out) {
		m := "GET"
		if mi < len(methods) {
			m = methods[mi]
		}
		pr, err := wire.ReadResponse(out, pos, m)
		if err != nil {
			return nil
		}
		last = pos
		pos = pr.End
		if pr.Status != 100 {
			mi++
			finals++
		}
	}
	if finals != len(methods) {
		return nil
	}
	return out[last:pos]
}

func initFresh(t testing.TB) {
	if len(freshDump) > 0 {
		return
	}
	for cfg := range rigConfigs {
		for pi, pq := range probeReqs {
			r := newRig(cfg)
			res := r.s.Serve(sconn.New([][]byte{[]byte(pq)}, sconn.EOF))
			if r.dumpProb == nil {
				t.Fatalf("fresh probe did not run: %q", res.Output)
			}
			freshDump[cfg*100+pi] = r.dumpProb
			freshResp[cfg*100+pi] = masked(res.Output)
			r.s.Close()
		}
		// the dump of a fresh context serving each dirty request with an empty program (to tell whether a program changed anything)
		for di, dq := range dirtyReqs {
			r2 := newRig(cfg)
			r2.s.Serve(sconn.New([][]byte{[]byte(dq)}, sconn.EOF))
			freshDirty[cfg*100+di] = r2.dumpDirt
			r2.s.Close()
		}
	}
}

func diffDumps(a, b []string) string {
	var sb strings.Builder
	n := 0
	for i := 0; i < len(a) && i < len(b); i++ {
		if a[i] != b[i] {
			fmt.Fprintf(&sb, "\n   recycled: %s\n   fresh:    %s", a[i], b[i])
			n++
			if n >= 6 {
				break
			}
		}
	}
	if len(a) != len(b) {
		fmt.Fprintf(&sb, "\n   dump lengths differ: %d vs %d", len(a), len(b))
	}
	return sb.String()
}

type Case struct {
	Program []call `json:"program"`
	Ending  string `json:"ending"`
	Shape   string `json:"shape"`
	Dirty   string `json:"dirty_request"`
	Probe   string `json:"probe_request"`
}

var endings = []string{"return", "Abort", "AbortWithStatus", "panic+recovery", "SetConnectionClose", "panic-inside-ForEachKey-callback+recovery"}

func TestC09Context(t *testing.T) {
	rec := ev.New("context")
	initFresh(t)
	rapid.Check(t, func(t *rapid.T) {
		cfg := rapid.IntRange(0, len(rigConfigs)-1).Draw(t, "serverConfig")
		if sharedRigs[cfg] == nil {
			sharedRigs[cfg] = newRig(cfg)
		}
		shared = sharedRigs[cfg]
		r := shared
		r.prog = genProgram(t)
		r.ending = rapid.IntRange(0, 5).Draw(t, "ending")
		shape := rapid.SampledFrom([]string{"same-connection", "same-connection", "next-connection"}).Draw(t, "shape")
		di := rapid.IntRange(0, len(dirtyReqs)-1).Draw(t, "dirtyRequest")
		pi := rapid.IntRange(0, len(probeReqs)-1).Draw(t, "probeRequest")
		dirtyReq, probeReq := dirtyReqs[di], probeReqs[pi]
		dirtyMethod := strings.SplitN(dirtyReq, " ", 2)[0]
		r.dumpDirt, r.dumpProb, r.dirtyPtr, r.probePtr = nil, nil, nil, nil
		var out []byte
		var res sconn.Result
		// bounded: a handler that blocks for ever on a lock an earlier request left behind in the
		// recycled context must fail the case, not hang the run
		served := make(chan struct{})
		go func() {
			defer close(served)
			if shape == "same-connection" {
				res = r.s.Serve(sconn.New([][]byte{[]byte(dirtyReq + probeReq)}, sconn.EOF))
			} else {
				r.s.Serve(sconn.New([][]byte{[]byte(dirtyReq)}, sconn.EOF))
				res = r.s.Serve(sconn.New([][]byte{[]byte(probeReq)}, sconn.EOF))
			}
		}()
		select {
		case <-served:
			out = res.Output
		case <-time.After(30 * time.Second):
			shared = nil
			sharedRigs[cfg] = nil
			t.Fatalf("the dirty request and the probe were not served within 30 s: a handler is blocked inside the recycled context (a lock held by an earlier request?)\nending of the previous programs includes %q\nprogram: %+v", endings[5], r.prog)
		}
		if res.Panic != nil {
			shared = nil
			sharedRigs[cfg] = nil
			t.Fatalf("panic escaped: %v\n%s", res.Panic, res.Stack)
		}
		c := &Case{Program: r.prog, Ending: endings[r.ending], Shape: shape, Dirty: dirtyReq, Probe: probeReq}
		changed := strings.Join(r.dumpDirt, "\n") != strings.Join(freshDirty[cfg*100+di], "\n")
		reused := r.probePtr != nil && r.probePtr == r.dirtyPtr
		cls := []string{fmt.Sprintf("server-config-%d", cfg), "shape-" + shape, "ending-" + endings[r.ending], fmt.Sprintf("dirty-request-%d", di), fmt.Sprintf("probe-%d", pi)}
		if r.dumpProb == nil {
			cls = append(cls, "probe-not-served")
		}
		if reused {
			cls = append(cls, "context-reused")
		}
		rec.Case(changed && reused, ev.HashString(fmt.Sprintf("%+v", *c)), cls...)
		if r.dumpProb == nil {
			// legitimate only if the dirty exchange ended the connection: its response carries Connection: close,
			// is not decodable (C04's business), or the program made the server drop the connection
			if shape == "next-connection" {
				t.Fatalf("the probe request on a new connection did not reach its handler after the context was recycled; output %q\nprogram: %+v", out, r.prog)
			}
			pr, err := wire.ReadResponse(out, 0, dirtyMethod)
			for err == nil && pr.Status == 100 {
				pr, err = wire.ReadResponse(out, pr.End, dirtyMethod)
			}
			if err == nil && !wire.HasToken(pr.Headers, "Connection", "close") && pr.Framing != wire.FrUntilClose && pr.End < len(out) {
				t.Fatalf("the dirty request's response (status %d) keeps the connection alive, but the pipelined probe request was not dispatched to its handler; output %q\nprogram: %+v", pr.Status, out, r.prog)
			}
			return
		}
		if d := diffDumps(r.dumpProb, freshDump[cfg*100+pi]); d != "" {
			t.Fatalf("state observed by the probe request on a recycled context differs from a fresh context (%s, ending %s):%s\nprogram: %+v", shape, endings[r.ending], d, r.prog)
		}
		var got []byte
		if shape == "same-connection" {
			got = lastResponse(out, []string{dirtyMethod, "GET"})
			if got == nil {
				return // first response not decodable (program produced a broken response): C04's business
			}
		} else {
			got = out
		}
		if string(masked(got)) != string(freshResp[cfg*100+pi]) {
			t.Fatalf("probe response on a recycled context differs from a fresh one (%s):\n recycled: %q\n fresh:    %q\nprogram: %+v", shape, masked(got), freshResp[cfg*100+pi], r.prog)
		}
		if changed && reused && rec.WantSample() {
			rec.Sample(c)
		}
	})
}

// ---------------------------------------------------------------------------
// Acquire / dirty / Release / Acquire for the pooled public objects.

type pooled struct {
	name    string
	acquire func() interface{}
	release func(interface{})
	fresh   func() interface{}
}

var pooledObjs = []pooled{
	{"Request", func() interface{} { return protocol.AcquireRequest() }, func(o interface{}) { protocol.ReleaseRequest(o.(*protocol.Request)) }, func() interface{} { return &protocol.Request{} }},
	{"Response", func() interface{} { return protocol.AcquireResponse() }, func(o interface{}) { protocol.ReleaseResponse(o.(*protocol.Response)) }, func() interface{} { return &protocol.Response{} }},
	{"URI", func() interface{} { return protocol.AcquireURI() }, func(o interface{}) { protocol.ReleaseURI(o.(*protocol.URI)) }, func() interface{} { return &protocol.URI{} }},
	{"Cookie", func() interface{} { return protocol.AcquireCookie() }, func(o interface{}) { protocol.ReleaseCookie(o.(*protocol.Cookie)) }, func() interface{} { return &protocol.Cookie{} }},
}

func subTargets(o interface{}) []reflect.Value {
	vs := []reflect.Value{reflect.ValueOf(o)}
	switch x := o.(type) {
	case *protocol.Request:
		vs = append(vs, reflect.ValueOf(&x.Header))
	case *protocol.Response:
		vs = append(vs, reflect.ValueOf(&x.Header))
	}
	return vs
}

func dumpObj(o interface{}) []string {
	var out []string
	for _, v := range subTargets(o) {
		ty := v.Type()
		for i := 0; i < ty.NumMethod(); i++ {
			m := ty.Method(i)
			if m.Type.NumIn() != 1 || m.Type.NumOut() == 0 || denyDump[m.Name] || strings.HasPrefix(m.Name, "Set") || strings.HasPrefix(m.Name, "Reset") || strings.HasPrefix(m.Name, "Del") || m.Name == "String" {
				continue
			}
			line := func() (s string) {
				defer func() {
					if r := recover(); r != nil {
						s = fmt.Sprintf("panic:%v", r)
					}
				}()
				var parts []string
				for _, r := range v.Method(i).Call(nil) {
					parts = append(parts, render(r))
				}
				return strings.Join(parts, " | ")
			}()
			out = append(out, ty.String()+"."+m.Name+"() = "+line)
		}
	}
	switch x := o.(type) {
	case *protocol.Response:
		out = append(out, fmt.Sprintf("SkipBody=%v ImmediateHeaderFlush=%v", x.SkipBody, x.ImmediateHeaderFlush))
	case *protocol.URI:
		out = append(out, fmt.Sprintf("DisablePathNormalizing=%v", x.DisablePathNormalizing))
	}
	return out
}

func TestC09Pooled(t *testing.T) {
	rec := ev.New("pooled-objects")
	rapid.Check(t, func(t *rapid.T) {
		po := pooledObjs[rapid.IntRange(0, len(pooledObjs)-1).Draw(t, "object")]
		o := po.acquire()
		var log []string
		// a path that climbs above the root, before the random calls: the normaliser's answer for it
		// is "/" however it is written, and where that "/" lives matters once the object is recycled
		climb := ""
		if (po.name == "URI" || po.name == "Cookie") && rapid.IntRange(0, 3).Draw(t, "climbingPath") == 0 {
			climb = rapid.SampledFrom([]string{"/..", "/a/../..", "/%2e%2e", "/x/../../..", "/./.."}).Draw(t, "climb")
			switch x := o.(type) {
			case *protocol.URI:
				x.SetPath(climb)
			case *protocol.Cookie:
				x.SetPath(climb)
			}
			log = append(log, "SetPath("+climb+")")
		}
		n := rapid.IntRange(1, 10).Draw(t, "nCalls")
		if climb != "" {
			n = rapid.IntRange(0, 2).Draw(t, "nCallsAfterClimb")
		}
		for i := 0; i < n; i++ {
			vs := subTargets(o)
			v := vs[rapid.IntRange(0, len(vs)-1).Draw(t, "sub")]
			ty := v.Type()
			var cands []int
			for k := 0; k < ty.NumMethod(); k++ {
				m := ty.Method(k)
				if denyCall[m.Name] {
					continue
				}
				ok := true
				for a := 1; a < m.Type.NumIn(); a++ {
					in := m.Type.In(a)
					if m.Type.IsVariadic() && a == m.Type.NumIn()-1 {
						in = in.Elem()
					}
					if !synthesizable(in) {
						ok = false
					}
				}
				if ok {
					cands = append(cands, k)
				}
			}
			k := cands[rapid.IntRange(0, len(cands)-1).Draw(t, "method")]
			m := ty.Method(k)
			var args []reflect.Value
			for a := 1; a < m.Type.NumIn(); a++ {
				in := m.Type.In(a)
				if m.Type.IsVariadic() && a == m.Type.NumIn()-1 {
					continue
				}
				args = append(args, genArg(t, in)())
			}
			log = append(log, ty.String()+"."+m.Name)
			func() {
				defer func() { recover() }() //nolint:errcheck
				v.Method(k).Call(args)
			}()
		}
		dirty := strings.Join(dumpObj(o), "\n")
		freshDumpObj := dumpObj(po.fresh())
		changed := dirty != strings.Join(freshDumpObj, "\n")
		po.release(o)
		o2 := po.acquire()
		reused := reflect.ValueOf(o2).Pointer() == reflect.ValueOf(o).Pointer()
		rec.Case(changed && reused, ev.HashString(po.name, strings.Join(log, ",")), "object-"+po.name, map[bool]string{true: "reused", false: "not-reused"}[reused])
		got := dumpObj(o2)
		if d := diffDumps(got, freshDumpObj); d != "" {
			po.release(o2)
			t.Fatalf("%s obtained from Acquire after Release differs from a newly allocated one:%s\ncalls: %v", po.name, d, log)
		}
		// ... and it behaves like one: the same short program applied to the recycled object and to a
		// newly allocated one leaves both in the same state, and neither disturbs what every other
		// object of the process starts from (the path of a zero URI is "/")
		fresh2 := po.fresh()
		_ = dumpObj(fresh2) // looked at in the same way as the recycled one (getters parse lazily)
		var log2 []string
		for i := rapid.IntRange(0, 3).Draw(t, "nCallsAfter"); i > 0; i-- {
			vs, fs := subTargets(o2), subTargets(fresh2)
			si := rapid.IntRange(0, len(vs)-1).Draw(t, "sub2")
			ty := vs[si].Type()
			var cands []int
			for k := 0; k < ty.NumMethod(); k++ {
				m := ty.Method(k)
				if denyCall[m.Name] {
					continue
				}
				ok := true
				for a := 1; a < m.Type.NumIn(); a++ {
					in := m.Type.In(a)
					if m.Type.IsVariadic() && a == m.Type.NumIn()-1 {
						in = in.Elem()
					}
					if !synthesizable(in) {
						ok = false
					}
				}
				if ok {
					cands = append(cands, k)
				}
			}
			k := cands[rapid.IntRange(0, len(cands)-1).Draw(t, "method2")]
			m := ty.Method(k)
			var mk []func() reflect.Value
			for a := 1; a < m.Type.NumIn(); a++ {
				if m.Type.IsVariadic() && a == m.Type.NumIn()-1 {
					continue
				}
				mk = append(mk, genArg(t, m.Type.In(a)))
			}
			log2 = append(log2, ty.String()+"."+m.Name)
			for _, target := range []reflect.Value{vs[si], fs[si]} {
				var args []reflect.Value
				for _, f := range mk {
					args = append(args, f())
				}
				func() {
					defer func() { recover() }() //nolint:errcheck
					target.Method(k).Call(args)
				}()
			}
		}
		if climb != "" {
			// the recycled object and the new one take the same string
			in := rapid.SampledFrom([]string{"a=b; path=x", "k=v; path=zz; domain=d", "http://h/p?q", "x"}).Draw(t, "parseAfter")
			for _, target := range []interface{}{o2, fresh2} {
				switch x := target.(type) {
				case *protocol.URI:
					x.Parse(nil, []byte(in))
				case *protocol.Cookie:
					x.Parse(in) //nolint:errcheck
				}
			}
			log2 = append(log2, "Parse("+in+")")
		}
		usedRecycled, usedFresh := dumpObj(o2), dumpObj(fresh2)
		po.release(o2)
		if d := diffDumps(usedRecycled, usedFresh); d != "" {
			t.Fatalf("%s from Acquire after Release, used like a new one, ends in another state:%s\ncalls before the release: %v\ncalls after it: %v", po.name, d, log, log2)
		}
		if zero := string((&protocol.URI{}).Path()); zero != "/" {
			t.Fatalf("after recycling and reusing a %s the path of a zero protocol.URI is %q: a buffer shared by the whole process was written to\ncalls before the release: %v\ncalls after it: %v", po.name, zero, log, log2)
		}
		if changed && reused && rec.WantSample() {
			rec.Sample(map[string]interface{}{"object": po.name, "calls": log})
		}
	})
}

// ---------------------------------------------------------------------------
// Concurrent mode: pooled contexts migrate between goroutines (race build in the thorough tier).

func TestC09Concurrent(t *testing.T) {
	rec := ev.New("concurrent")
	initFresh(t)
	rapid.Check(t, func(t *rapid.T) {
		nprog := rapid.IntRange(4, 10).Draw(t, "nPrograms")
		progs := make([][]call, nprog)
		for i := range progs {
			progs[i] = genProgram(t)
		}
		type result struct {
			dumps [][]string
			msg   string
		}
		var mu sync.Mutex
		dumpsByID := map[string][]string{}
		s := sconn.NewServer(func(h *server.Hertz) {
			h.Use(recovery.Recovery())
			h.Any("/dirty/:p1/*rest", func(c context.Context, ctx *app.RequestContext) {
				var idx int
				fmt.Sscanf(string(ctx.Request.Header.Peek("X-Prog")), "%d", &idx)
				runProgram(ctx, progs[idx%len(progs)])
			})
			probe := func(c context.Context, ctx *app.RequestContext) {
				id := string(ctx.Request.Header.Peek("X-Probe"))
				d := append(dump(ctx), probeSet(ctx))
				mu.Lock()
				dumpsByID[id] = d
				mu.Unlock()
				ctx.SetStatusCode(200)
				ctx.SetBodyString("probe-ok")
			}
			h.Any("/probe", probe)
			h.NoRoute(probe)
		})
		defer s.Close()
		var wg sync.WaitGroup
		const G = 8
		for g := 0; g < G; g++ {
			wg.Add(1)
			go func(g int) {
				defer wg.Done()
				for k := 0; k < nprog; k++ {
					dirty := strings.Replace(dirtyReqs[0], "X-Dirty: yes", fmt.Sprintf("X-Dirty: yes\r\nX-Prog: %d", (k+g)%nprog), 1)
					s.Serve(sconn.New([][]byte{[]byte(dirty + probeReqs[0])}, sconn.EOF))
					s.Serve(sconn.New([][]byte{[]byte(probeReqs[0])}, sconn.EOF))
				}
			}(g)
		}
		wg.Wait()
		rec.Case(true, ev.HashString(fmt.Sprintf("%+v", progs)), "concurrent")
		mu.Lock()
		defer mu.Unlock()
		for id, d := range dumpsByID {
			if diff := diffDumps(d, freshDump[0]); diff != "" {
				t.Fatalf("concurrent recycling: probe %q observed state that differs from a fresh context:%s", id, diff)
			}
		}
	})
}
