package c03

import (
	"bytes"
	"fmt"
	"github.com/cloudwego/hertz/pkg/app"
	hserver "github.com/cloudwego/hertz/pkg/app/server"
	"github.com/cloudwego/hertz/pkg/common/config"
	"os"
	"strings"
	"testing"

	"pgregory.net/rapid"

	"verifharness/ev"
	"verifharness/gen"
	"verifharness/sconn"
	"verifharness/srv"
	"verifharness/wire"
)

const prop = "C03"

func TestMain(m *testing.M) {
	code := m.Run()
	ev.Flush()
	os.Exit(code)
}

type cfgKey struct {
	stream  bool
	maxBody int
}

var servers = map[cfgKey]*srv.Echo{}

func server(stream bool, maxBody int) *srv.Echo {
	k := cfgKey{stream, maxBody}
	if s, ok := servers[k]; ok {
		return s
	}
	mb := maxBody
	if mb == 0 {
		mb = 8 << 20
	}
	var extra []config.Option
	if maxBody < 0 {
		// the body limit switched off (any value <= 0): the announced length alone decides nothing
		mb = 0
		extra = []config.Option{hserver.WithMaxRequestBodySize(0)}
	}
	s := srv.NewEcho(srv.Config{Stream: stream, MaxBody: mb, Extra: extra, Setup: func(h *hserver.Hertz, echo app.HandlerFunc) {
		// real routes, so that the engine's own redirects (trailing slash, fixed path) are reachable
		h.GET("/tsr/", echo)
		h.GET("/tsr2", echo)
		h.GET("/Fixed/Path", echo)
	}})
	servers[k] = s
	return s
}

// TestC03Redirects: the engine answers some requests itself, before any handler: a path that only
// differs by a trailing slash (or by case / extra slashes) from a registered route is redirected, and
// the Location is built from the peer-controlled X-Forwarded-Prefix header. Whatever that header
// holds, the answer is one clean response and nothing panics.
func TestC03Redirects(t *testing.T) {
	rec := ev.New("redirects")
	shard, nshards := ev.Shard()
	leads := []string{"", "/", "a", "../", "//", "a/", "/.", "%2e/"}
	fills := []string{"p", "/", ".", "/../"}
	targets := []string{"/tsr", "/tsr2/", "/fixed/path", "/Fixed//Path", "/tsr/x", "/TSR"}
	var n int64
	for _, stream := range []bool{false, true} {
		for _, lead := range leads {
			for _, fill := range fills {
				for L := 0; L <= 300; L++ {
					n++
					if n%int64(nshards) != int64(shard) {
						continue
					}
					pre := lead
					for len(pre) < L {
						pre += fill
					}
					if len(pre) > L && L >= len(lead) {
						pre = pre[:L]
					}
					target := targets[int(n)%len(targets)]
					rec.Case(true, ev.HashString(fmt.Sprint(stream, target), pre), "target-"+target, map[bool]string{true: "prefix-rooted", false: "prefix-relative"}[strings.HasPrefix(pre, "/")])
					req := "GET " + target + " HTTP/1.1\r\nHost: h\r\nX-Forwarded-Prefix: " + pre + "\r\nConnection: close\r\n\r\n"
					obs, res, _ := server(stream, 0).Run([][]byte{[]byte(req)}, sconn.EOF)
					fail := func(f string, a ...interface{}) {
						msg := fmt.Sprintf("GET %s with X-Forwarded-Prefix of %d bytes %.40q (streaming=%v): ", target, len(pre), pre, stream) + fmt.Sprintf(f, a...)
						ev.Fail(prop, "redirects", map[string]interface{}{"target": target, "prefix": pre, "streaming": stream}, msg)
						t.Errorf("%s", msg)
					}
					if res.Panic != nil {
						fail("panic: %v", res.Panic)
						continue
					}
					rs, err := decodeOutput(res.Output, obs)
					if err != nil || len(rs) != 1 {
						fail("want exactly one well-formed response, got %d (%v): %s", len(rs), err, srv.Short(res.Output))
					}
				}
			}
		}
	}
}

// decodeOutput finds an assignment of request methods (HEAD or not) under
// which the whole output is a sequence of well-formed responses.
func decodeOutput(out []byte, obs []srv.Obs) ([]*wire.ParsedResp, error) {
	var best []*wire.ParsedResp
	var firstErr error
	var rec func(pos int, acc []*wire.ParsedResp) bool
	rec = func(pos int, acc []*wire.ParsedResp) bool {
		if pos == len(out) {
			best = append([]*wire.ParsedResp(nil), acc...)
			return true
		}
		if len(acc) > 64 {
			return false
		}
		for _, m := range []string{"GET", "HEAD"} {
			r, err := wire.ReadResponse(out, pos, m)
			if err != nil {
				if firstErr == nil {
					firstErr = fmt.Errorf("message #%d at byte %d: %w", len(acc), pos, err)
				}
				continue
			}
			if idx := srv.EchoIndex(r); idx >= 0 && idx < len(obs) {
				// the handler's own response: the method is known
				if (obs[idx].Method == "HEAD") != (m == "HEAD") {
					continue
				}
			}
			if m == "HEAD" && r.Status/100 == 1 {
				continue // identical parse, avoid duplicate work
			}
			if rec(r.End, append(acc, r)) {
				return true
			}
		}
		return false
	}
	if rec(0, nil) {
		return best, nil
	}
	if firstErr == nil {
		firstErr = fmt.Errorf("no consistent decoding")
	}
	return nil, firstErr
}

// strictPrefix parses the leading strictly well-formed requests of b.
func strictPrefix(b []byte) []*wire.ParsedReq {
	var rs []*wire.ParsedReq
	pos := 0
	for pos < len(b) && len(rs) < 16 {
		r, err := wire.ReadRequest(b, pos)
		if err != nil {
			break
		}
		rs = append(rs, r)
		pos = r.End
		if wire.HasToken(r.Headers, "Connection", "close") || (r.Proto == "HTTP/1.0" && !wire.HasToken(r.Headers, "Connection", "keep-alive")) {
			break
		}
	}
	return rs
}

// judgeServer checks everything C03 says about one server run.
func judgeServer(b []byte, obs []srv.Obs, res sconn.Result, end sconn.End) (string, string) {
	if res.Panic != nil {
		return "panic", fmt.Sprintf("panic escaped the engine (the default engine has no recovery middleware, so this kills the process): %v\n%s", res.Panic, res.Stack)
	}
	rs, err := decodeOutput(res.Output, obs)
	if err != nil {
		return "bad-output", fmt.Sprintf("server emitted bytes that are not a sequence of well-formed HTTP responses: %v\noutput: %s", err, srv.Short(res.Output))
	}
	outcome := "served"
	echo := 0
	strict := strictPrefix(b)
	ri := 0
	for i, r := range rs {
		if r.Status/100 == 1 {
			continue
		}
		idx := srv.EchoIndex(r)
		switch {
		case idx >= 0:
			if idx != echo {
				return "order", fmt.Sprintf("handler responses out of order: message #%d carries echo index %d, want %d", i, idx, echo)
			}
			if idx >= len(obs) {
				return "order", fmt.Sprintf("echo index %d without a handler invocation", idx)
			}
			if ri < len(strict) {
				sr := strict[ri]
				o := obs[idx]
				// a multipart/form-data body is pre-parsed and Body() returns the re-marshalled form: compare framing only
				multipart := false
				for _, v := range wire.Get(sr.Headers, "Content-Type") {
					if strings.HasPrefix(strings.ToLower(v), "multipart/form-data") {
						multipart = true
					}
				}
				if o.Method != sr.Method || o.URI != sr.Target || (o.BodyErr == "" && !multipart && string(o.Body) != string(sr.Body)) {
					return "prefix", fmt.Sprintf("the first %d requests of the input are well-formed, but request #%d was delivered to the handler as %s %s body %s (err %q); the strict reader says %s %s body %s",
						len(strict), ri, o.Method, o.URI, srv.Short(o.Body), o.BodyErr, sr.Method, sr.Target, srv.Short(sr.Body))
				}
			}
			echo++
			ri++
		case srv.IsRejection(r):
			outcome = "rejected"
			// a request that is well-formed by itself and rejected for its size (413): hertz has read its header,
			// the method is known, and a response to HEAD has no body. (After a header block that hertz refuses
			// the request header is reset and the server has no method it could trust; the connection is
			// closed behind the answer.)
			if ri < len(strict) && strict[ri].Method == "HEAD" && len(r.Body) > 0 && r.Status == 413 {
				return "rejection-shape", fmt.Sprintf("the rejection (%d) of a HEAD request carries a body of %d bytes", r.Status, len(r.Body))
			}
			if i != len(rs)-1 {
				return "rejection-shape", fmt.Sprintf("bytes were written after a rejection (status %d + Connection: close is message #%d of %d)", r.Status, i, len(rs))
			}
			if !res.Closed {
				return "rejection-shape", fmt.Sprintf("request rejected with %d + Connection: close but the connection was not closed", r.Status)
			}
			ri++
		default:
			// engine-level answer without handler (e.g. 400 for a missing Host): ordinary response
			if outcome == "served" {
				outcome = "engine-4xx"
			}
			ri++
		}
	}
	if echo != len(obs) {
		return "handler-count", fmt.Sprintf("%d handler invocations but %d handler responses on the wire (a handler ran for a request that was then rejected, or a response was lost); output %s\n%s", len(obs), echo, srv.Short(res.Output), srv.Describe(obs))
	}
	if len(rs) == 0 {
		outcome = "silent-close"
	}
	return outcome, ""
}

func TestC03Server(t *testing.T) {
	rec := ev.New("server")
	rapid.Check(t, func(t *rapid.T) {
		stream := rapid.Bool().Draw(t, "streaming")
		var b []byte
		var muts []string
		kind := rapid.IntRange(0, 9).Draw(t, "inputKind")
		var marks []int
		switch {
		case kind == 0:
			b = gen.Havoc(t, 300)
			muts = []string{"havoc"}
		default:
			s := gen.GenStream(t, 3, gen.ReqOpts{Fold: true, NearMiss: true, Expect: true, HTTP10: true, ChunkExt: true, MaxBody: 20000})
			marks = s.AllMarks()
			b, muts = gen.Mutate(t, s.Bytes, marks)
		}
		cuts := gen.Cuts(t, len(b), marks)
		end := rapid.SampledFrom([]sconn.End{sconn.EOF, sconn.EOF, sconn.Timeout, sconn.Reset}).Draw(t, "end")
		limit := 0
		if rapid.IntRange(0, 3).Draw(t, "bodyLimitOff") == 0 {
			limit = -1
		}
		obs, res, _ := server(stream, limit).Run(sconn.Split(b, cuts), end)
		outcome, msg := judgeServer(b, obs, res, end)
		_, serr := wire.ReadRequest(b, 0)
		nt := serr != nil || len(strictPrefix(b)) < 3
		cls := []string{"outcome-" + outcome}
		if limit < 0 {
			cls = append(cls, "body-limit-off")
		}
		for _, m := range muts {
			cls = append(cls, "mut-"+m)
		}
		rec.Case(nt, ev.Hash(b, []byte(fmt.Sprint(stream, cuts, end))), cls...)
		if msg != "" {
			t.Fatalf("streaming=%v bodyLimit=%d end=%v mutations=%v cuts=%v\n%s\ninput: %q", stream, limit, end, muts, trim(cuts), msg, short(b))
		}
		if rec.WantSample() && outcome == "rejected" {
			rec.Sample(map[string]interface{}{"streaming": stream, "mutations": muts, "input": string(short(b)), "outcome": outcome})
		}
	})
}

func trim(a []int) []int {
	if len(a) > 16 {
		return append(append([]int(nil), a[:16]...), -1)
	}
	return a
}

func short(b []byte) []byte {
	if len(b) > 1500 {
		return append(append([]byte(nil), b[:1200]...), []byte(fmt.Sprintf("...(%d bytes)", len(b)))...)
	}
	return b
}

// ---------------------------------------------------------------------------
// Body limit: well-formed requests around MaxRequestBodySize.

func TestC03BodyLimit(t *testing.T) {
	rec := ev.New("body-limit")
	rapid.Check(t, func(t *rapid.T) {
		limit := rapid.SampledFrom([]int{1, 100, 4096, 8192}).Draw(t, "limit")
		n := limit + rapid.SampledFrom([]int{-1, 0, 1, 2, 100, 5000}).Draw(t, "delta")
		if rapid.IntRange(0, 4).Draw(t, "randomLen") == 0 {
			n = rapid.IntRange(0, 3*limit+10).Draw(t, "len")
		}
		if n < 0 {
			n = 0
		}
		chunked := rapid.Bool().Draw(t, "chunked")
		expect := rapid.IntRange(0, 3).Draw(t, "expect") == 0
		host := wire.KV{K: "Host", V: "example.com"}
		body := gen.Body(n, 0, 7, rapid.IntRange(0, 8).Draw(t, "flavor"))
		lines := []wire.KV{host}
		// a well-formed multipart/form-data body of exactly n bytes (the server pre-parses those)
		multipart := false
		const mpHead, mpTail = "--b\r\nContent-Disposition: form-data; name=\"a\"\r\n\r\n", "\r\n--b--\r\n"
		if !chunked && n >= len(mpHead)+len(mpTail) && rapid.IntRange(0, 2).Draw(t, "multipart") == 0 {
			multipart = true
			fill := bytes.Repeat([]byte("m"), n-len(mpHead)-len(mpTail))
			body = append(append([]byte(mpHead), fill...), mpTail...)
			lines = append(lines, wire.KV{K: "Content-Type", V: "multipart/form-data; boundary=b"})
		}
		method := rapid.SampledFrom([]string{"POST", "POST", "PUT", "HEAD"}).Draw(t, "method")
		r := &wire.Req{Method: method, Target: "/upload", Proto: "HTTP/1.1", Body: body, BodyLen: n}
		if chunked {
			lines = append(lines, wire.KV{K: "Transfer-Encoding", V: "chunked"})
			r.Framing = wire.FrChunked
			k := rapid.IntRange(1, 4).Draw(t, "nChunks")
			for i := 0; i < k && n > 0; i++ {
				r.ChunkSizes = append(r.ChunkSizes, rapid.IntRange(1, n).Draw(t, "chunk"))
			}
		} else {
			lines = append(lines, wire.KV{K: "Content-Length", V: fmt.Sprint(n)})
			r.Framing = wire.FrCL
		}
		if expect && n > 0 {
			lines = append(lines, wire.KV{K: "Expect", V: "100-continue"})
			r.Expect100 = true
		}
		r.Lines = lines
		b, m := r.Encode(nil)
		probe := &wire.Req{Method: "GET", Target: "/after", Proto: "HTTP/1.1", Lines: []wire.KV{host}}
		b, _ = probe.Encode(b)
		cuts := gen.Cuts(t, len(b), []int{m.HeaderEnd, m.End})
		obs, res, _ := server(false, limit).Run(sconn.Split(b, cuts), sconn.EOF)
		over := n > limit
		rec.Case(true, ev.Hash(b, []byte(fmt.Sprint(limit, cuts))), fmt.Sprintf("limit-%d", limit), map[bool]string{true: "over-limit", false: "within-limit"}[over], map[bool]string{true: "chunked", false: "content-length"}[chunked], map[bool]string{true: "multipart-body", false: "opaque-body"}[multipart], "method-"+method)
		fail := func(f string, a ...interface{}) {
			t.Fatalf("method=%s limit=%d body=%d chunked=%v chunks=%v expect=%v multipart=%v cuts=%v: %s\noutput: %s", method, limit, n, chunked, r.ChunkSizes, r.Expect100, multipart, trim(cuts), fmt.Sprintf(f, a...), srv.Short(res.Output))
		}
		if res.Panic != nil {
			fail("panic: %v", res.Panic)
		}
		rs, err := decodeOutput(res.Output, obs)
		if err != nil {
			fail("output not well-formed: %v", err)
		}
		var finals []*wire.ParsedResp
		for _, x := range rs {
			if x.Status/100 != 1 {
				finals = append(finals, x)
			}
		}
		if over {
			if len(obs) != 0 {
				fail("a handler ran (%s %s, body %d) although the body of %d bytes exceeds the limit", obs[0].Method, obs[0].URI, len(obs[0].Body), n)
			}
			if len(finals) != 1 || finals[0].Status != 413 || !wire.HasToken(finals[0].Headers, "Connection", "close") {
				fail("want exactly one 413 + Connection: close, got %d final responses %v", len(finals), statuses(finals))
			}
			if !res.Closed {
				fail("connection not closed after 413")
			}
			if method == "HEAD" && len(finals[0].Body) > 0 {
				fail("the 413 that answers a HEAD request carries a body of %d bytes", len(finals[0].Body))
			}
		} else {
			// (a pre-parsed multipart body is handed to the handler re-marshalled: compare framing only)
			if len(obs) != 2 || (!multipart && string(obs[0].Body) != string(body)) || obs[1].URI != "/after" {
				fail("body within the limit must be served intact and the next request too; %d invocations\n%s", len(obs), srv.Describe(obs))
			}
			if len(finals) != 2 || finals[0].Status != 200 || finals[1].Status != 200 {
				fail("want two 200 responses, got %v", statuses(finals))
			}
		}
	})
}

func statuses(rs []*wire.ParsedResp) []int {
	var s []int
	for _, r := range rs {
		s = append(s, r.Status)
	}
	return s
}

var _ = strings.Contains
