package c03

import (
	"context"
	"fmt"
	"net"
	"strings"
	"sync"
	"testing"
	"time"

	"github.com/cloudwego/hertz/pkg/app/client"
	"pgregory.net/rapid"

	"verifharness/ev"
)

// TestC03ClientRedirect: a peer answers the hertz client with a redirect whose Location holds what it likes
// (spaces, tabs, control bytes, bytes above 0x7e, stray '%'). Whatever the client writes next, to this peer, is
// well-formed HTTP: a request line "method SP target SP version" whose target has no whitespace, control or
// non-ASCII byte in it; or the client gives up with an error and writes nothing.
func TestC03ClientRedirect(t *testing.T) {
	rec := ev.New("client-redirect")
	var mu sync.Mutex
	var location string
	var second []string
	ln, err := net.Listen("tcp", "127.0.0.1:0")
	if err != nil {
		t.Fatalf("harness: listen: %v", err)
	}
	defer ln.Close()
	go func() {
		for {
			c, err := ln.Accept()
			if err != nil {
				return
			}
			go func() {
				defer c.Close()
				for {
					buf := make([]byte, 0, 4096)
					tmp := make([]byte, 2048)
					for !strings.Contains(string(buf), "\r\n\r\n") {
						c.SetReadDeadline(time.Now().Add(2 * time.Second)) //nolint:errcheck
						n, err := c.Read(tmp)
						if err != nil {
							return
						}
						buf = append(buf, tmp[:n]...)
					}
					mu.Lock()
					loc := location
					first := strings.HasPrefix(string(buf), "GET /start ")
					if !first {
						second = append(second, string(buf))
					}
					mu.Unlock()
					if first {
						fmt.Fprintf(c, "HTTP/1.1 302 Found\r\nLocation: %s\r\nContent-Length: 0\r\n\r\n", loc)
					} else {
						fmt.Fprint(c, "HTTP/1.1 200 OK\r\nContent-Length: 2\r\n\r\nok")
					}
				}
			}()
		}
	}()
	cl, err := client.NewClient(client.WithDialTimeout(time.Second))
	if err != nil {
		t.Fatalf("harness: %v", err)
	}
	atoms := []string{"/next", "/a b", "?msg=", "hello world", "&x=1", "\t", "é", "\xff", "%", "%20", "%zz", "\x01", "\x7f", "#frag", "//", "..", ";", "=", "+"}
	rapid.Check(t, func(t *rapid.T) {
		n := rapid.IntRange(1, 6).Draw(t, "nAtoms")
		loc := ""
		for i := 0; i < n; i++ {
			loc += rapid.SampledFrom(atoms).Draw(t, "atom")
		}
		if !strings.HasPrefix(loc, "/") && !strings.HasPrefix(loc, "?") {
			loc = "/" + loc
		}
		// the header line itself is well-formed: no CR or LF in the value, outer blanks would be trimmed
		loc = strings.Trim(loc, " \t")
		mu.Lock()
		location, second = loc, nil
		mu.Unlock()
		hostile := strings.ContainsAny(loc, " \t\x01\x7f\xff") || strings.Contains(loc, "é")
		rec.Case(hostile, ev.HashString(loc), map[bool]string{true: "location-with-bytes-a-target-cannot-hold", false: "location-plain"}[hostile])
		ctx, cancel := context.WithTimeout(context.Background(), 5*time.Second)
		_, _, _ = cl.Get(ctx, nil, "http://"+ln.Addr().String()+"/start")
		cancel()
		mu.Lock()
		got := append([]string(nil), second...)
		mu.Unlock()
		for _, req := range got {
			line := req[:strings.Index(req, "\r\n")]
			parts := strings.Split(line, " ")
			bad := len(parts) != 3 || parts[0] != "GET" || parts[2] != "HTTP/1.1" || parts[1] == ""
			for i := 0; i < len(line) && !bad; i++ {
				if c := line[i]; c < 0x20 || c >= 0x7f {
					bad = true
				}
			}
			if bad {
				msg := fmt.Sprintf("after a 302 with Location %q the client wrote the request line %q: not 'method SP target SP version' over visible ASCII", loc, line)
				ev.Fail(prop, "client-redirect", map[string]interface{}{"location": loc}, msg)
				t.Fatalf("%s", msg)
			}
		}
	})
}
