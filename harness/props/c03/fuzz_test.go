package c03

import (
	"testing"

	"verifharness/sconn"
)

// Native coverage-guided fuzz targets (thorough tier only; Go's fuzzer cannot
// be seeded, the saved crasher is the reproducible unit). The oracle is the
// same as in the rapid units.

func cutsFromSeed(n int, seed uint16) []int {
	if n <= 1 || seed == 0 {
		return nil
	}
	switch seed % 4 {
	case 0:
		return []int{int(seed/4)%(n-1) + 1}
	case 1:
		var c []int
		step := int(seed/4)%7 + 1
		for p := step; p < n; p += step {
			c = append(c, p)
		}
		return c
	case 2:
		a := int(seed/4)%(n-1) + 1
		b := int(seed/64)%(n-1) + 1
		if a > b {
			a, b = b, a
		}
		if a == b {
			return []int{a}
		}
		return []int{a, b}
	}
	return nil
}

func serverSeeds(f *testing.F) {
	for _, s := range regressServerInputs {
		f.Add([]byte(s), false, uint16(0))
		f.Add([]byte(s), true, uint16(5))
	}
	for _, s := range []string{
		"GET / HTTP/1.1\r\nHost: h\r\n\r\n",
		"POST /p?q=1 HTTP/1.1\r\nHost: h\r\nContent-Length: 5\r\n\r\nhelloGET /2 HTTP/1.1\r\nHost: h\r\n\r\n",
		"POST / HTTP/1.1\r\nHost: h\r\nTransfer-Encoding: chunked\r\nTrailer: X-T\r\n\r\n5\r\nhello\r\n0\r\nX-T: v\r\n\r\n",
		"PUT / HTTP/1.1\r\nHost: h\r\nExpect: 100-continue\r\nContent-Length: 3\r\n\r\nabc",
		"HEAD / HTTP/1.0\r\nConnection: keep-alive\r\n\r\n",
		"GET / HTTP/1.1\r\nHost: h\r\nX: a\r\n b\r\n\r\n",
		// hostile constants: chunk sizes on the integer boundaries (16 hex digits reach the sign bit)
		"POST / HTTP/1.1\r\nHost: h\r\nTransfer-Encoding: chunked\r\n\r\n7fffffffffffffff\r\nhello\r\n0\r\n\r\n",
		"POST / HTTP/1.1\r\nHost: h\r\nTransfer-Encoding: chunked\r\n\r\n1\r\na\r\nfffffffffffffff\r\nhello\r\n0\r\n\r\n",
		"POST / HTTP/1.1\r\nHost: h\r\nContent-Length: 9223372036854775807\r\n\r\nhello",
		"GET / HTTP/1.1\r\nHost: h\r\nCookie: a=\"b\"; c=d\r\n\r\n",
		"POST / HTTP/1.1\r\nHost: h\r\nContent-Type: multipart/form-data; boundary=b\r\nContent-Length: 59\r\n\r\n--b\r\nContent-Disposition: form-data; name=\"a\"\r\n\r\nv\r\n--b--\r\n",
	} {
		f.Add([]byte(s), false, uint16(0))
		f.Add([]byte(s), true, uint16(9))
	}
}

func FuzzServerBytes(f *testing.F) {
	serverSeeds(f)
	f.Fuzz(func(t *testing.T, data []byte, stream bool, seed uint16) {
		if len(data) > 1<<16 {
			return
		}
		cuts := cutsFromSeed(len(data), seed)
		obs, res, _ := server(stream, 0).Run(sconn.Split(data, cuts), sconn.EOF)
		if _, msg := judgeServer(data, obs, res, sconn.EOF); msg != "" {
			t.Fatalf("streaming=%v cuts=%v: %s\ninput: %q", stream, trim(cuts), msg, short(data))
		}
	})
}

func FuzzClientBytes(f *testing.F) {
	for _, s := range regressClientInputs {
		f.Add([]byte(s), false, uint16(0))
	}
	for _, s := range []string{
		"HTTP/1.1 200 OK\r\nContent-Length: 5\r\n\r\nhello",
		"HTTP/1.1 200 OK\r\nTransfer-Encoding: chunked\r\nTrailer: X-T\r\n\r\n5\r\nhello\r\n0\r\nX-T: v\r\n\r\n",
		"HTTP/1.1 100 Continue\r\n\r\nHTTP/1.1 204 No Content\r\n\r\n",
		"HTTP/1.0 200 OK\r\n\r\nuntil close",
		"HTTP/1.1 200 OK\r\nSet-Cookie: a=b; Path=/; HttpOnly\r\nX: a\r\n b\r\nContent-Length: 0\r\n\r\n",
	} {
		f.Add([]byte(s), false, uint16(0))
		f.Add([]byte(s), true, uint16(3))
	}
	f.Fuzz(func(t *testing.T, data []byte, stream bool, seed uint16) {
		if len(data) > 1<<16 {
			return
		}
		o := clientRun(stream, "GET", data, cutsFromSeed(len(data), seed))
		if o.Panic != "" {
			t.Fatalf("client panicked: %s\nresponse: %q", o.Panic, short(data))
		}
	})
}

func fuzzParser(f *testing.F, names ...string) {
	var ts []parserTarget
	for _, pt := range parserTargets() {
		for _, n := range names {
			if pt.name == n {
				ts = append(ts, pt)
			}
		}
	}
	for _, s := range parserAtoms {
		f.Add([]byte(s), []byte(s), 10)
	}
	for _, s := range []string{"http://user:pw@host:80/p/a/t/h?query=1&b=%20#frag", "a=1&b=2&c", "k=v; Path=/; Domain=d; Expires=Mon, 02 Jan 2006 15:04:05 GMT; Max-Age=5; SameSite=Lax; Secure; HttpOnly; Partitioned",
		"bytes=0-10", "bytes=-5", "bytes=5-", "a, b,c", "multipart/form-data; boundary=\"xx\"", "Mon, 02 Jan 2006 15:04:05 GMT", "gzip, deflate;q=0.5", "--b\r\nContent-Disposition: form-data; name=\"a\"; filename=\"f\"\r\n\r\nv\r\n--b--\r\n"} {
		f.Add([]byte("b"), []byte(s), 100)
	}
	f.Fuzz(func(t *testing.T, a, b []byte, n int) {
		if len(a) > 4096 || len(b) > 1<<16 {
			return
		}
		for _, pt := range ts {
			if p := runTarget(pt, a, b, n); p != "" {
				t.Fatalf("%s panicked on a=%q b=%q n=%d: %s", pt.name, a, b, n, p)
			}
		}
	})
}

func FuzzURI(f *testing.F) {
	fuzzParser(f, "URI.Parse", "URI.Parse-nohost", "URI.Update", "ParseURI", "Request-accessors")
}
func FuzzCookie(f *testing.F) {
	fuzzParser(f, "Cookie.ParseBytes", "RequestHeader.Cookie", "ResponseHeader.Set-Cookie")
}
func FuzzArgs(f *testing.F) {
	fuzzParser(f, "Args.ParseBytes", "HasAcceptEncoding", "ParseContentLength")
}
func FuzzRange(f *testing.F) { fuzzParser(f, "ParseByteRange", "IfModifiedSince") }
func FuzzTrailer(f *testing.F) {
	fuzzParser(f, "Trailer.SetTrailers")
}
func FuzzMultipart(f *testing.F) {
	fuzzParser(f, "MultipartFormBoundary", "ReadMultipartForm", "ParseMultipartForm")
}
