package c03

import (
	"bytes"
	"fmt"
	"net"
	"runtime/debug"
	"strings"
	"testing"
	"time"

	"github.com/cloudwego/hertz/pkg/app"
	"github.com/cloudwego/hertz/pkg/protocol"
	"github.com/cloudwego/hertz/pkg/protocol/http1"
	"github.com/cloudwego/hertz/pkg/protocol/http1/ext"
	"pgregory.net/rapid"

	"verifharness/cli"
	"verifharness/ev"
	"verifharness/gen"
	"verifharness/sconn"
	"verifharness/wire"
)

// ---------------------------------------------------------------------------
// Client response read path.

type clientRig struct {
	c     *cli.Client
	frags [][]byte
	conn  *sconn.Conn
}

var rigs = map[bool]*clientRig{}

func rig(stream bool) *clientRig {
	if r, ok := rigs[stream]; ok {
		return r
	}
	r := &clientRig{}
	r.c = cli.New(http1.ClientOptions{ResponseBodyStream: stream, MaxConns: 4}, func(n int, addr string) (net.Conn, error) {
		r.conn = sconn.New(r.frags, sconn.EOF)
		return r.conn, nil
	})
	rigs[stream] = r
	return r
}

func clientRun(stream bool, method string, b []byte, cuts []int) cli.RespObs {
	r := rig(stream)
	r.frags = sconn.Split(b, cuts)
	req := protocol.AcquireRequest()
	defer protocol.ReleaseRequest(req)
	req.SetRequestURI("http://example.com/x")
	req.Header.SetMethod(method)
	o := r.c.Do(req)
	if o.Panic != "" {
		delete(rigs, stream)
	} else {
		r.c.HC.CloseIdleConnections()
	}
	return o
}

func TestC03Client(t *testing.T) {
	rec := ev.New("client")
	rapid.Check(t, func(t *rapid.T) {
		stream := rapid.Bool().Draw(t, "streaming")
		method := rapid.SampledFrom([]string{"GET", "GET", "POST", "HEAD"}).Draw(t, "method")
		var b []byte
		var muts []string
		var marks []int
		if rapid.IntRange(0, 9).Draw(t, "havoc") == 0 {
			b = append([]byte("HTTP/1.1 200 OK\r\n"), gen.Havoc(t, 200)...)
			muts = []string{"havoc"}
		} else {
			resp := gen.GenResp(t, 0, method, gen.RespOpts{Fold: true, UntilClose: true})
			if resp.BodyLen > 20000 {
				resp.Body, resp.BodyLen = resp.Body[:100], 100
				for i := range resp.Lines {
					if strings.EqualFold(resp.Lines[i].K, "Content-Length") && resp.Framing == wire.FrCL {
						resp.Lines[i].V = "100"
					}
				}
			}
			var m wire.Marks
			b, m = resp.Encode(nil)
			marks = append([]int{m.HeaderEnd, m.End}, m.ChunkStarts...)
			b, muts = gen.Mutate(t, b, marks)
		}
		cuts := gen.Cuts(t, len(b), marks)
		o := clientRun(stream, method, b, cuts)
		out := "ok"
		if o.Err != "" {
			out = "error"
		}
		cls := []string{"outcome-" + out}
		for _, m := range muts {
			cls = append(cls, "mut-"+m)
		}
		rec.Case(true, ev.Hash(b, []byte(fmt.Sprint(stream, method, cuts))), cls...)
		if o.Panic != "" {
			t.Fatalf("client panicked reading a response (streaming=%v method=%s mutations=%v cuts=%v): %s\nresponse stream: %q", stream, method, muts, trim(cuts), o.Panic, short(b))
		}
		if rec.WantSample() && out == "error" {
			rec.Sample(map[string]interface{}{"streaming": stream, "method": method, "mutations": muts, "response": string(short(b)), "err": o.Err})
		}
	})
}

// ---------------------------------------------------------------------------
// Exported parsers of untrusted data.

var parserAtoms = []string{"\r", "\n", "\x00", " ", "\t", ":", ";", ",", "=", "&", "%", "+", "/", ".", "\\", "\"", "-", "0", "9", "a", "Z", "\x7f", "\x80", "\xff",
	"%2", "%zz", "%00", "://", "//", "?", "#", "@", "[", "]", "[::1]", "bytes=", "bytes", "=-", "-1", "18446744073709551616", "99999999999999999999", "9223372036854775807",
	"SameSite", "samesite=", "SameSite=Lax", "max-age=", "Max-Age=-1", "expires=", "Expires=Mon, 02 Jan 2006 15:04:05 GMT", "domain=", "path=", "HttpOnly", "secure", "Partitioned",
	"Mon, 02 Jan 2006 15:04:05 GMT", "Mon, 02 Jan 2006", "GMT", "multipart/form-data", "; boundary=", "boundary", "\"\"", "--", "\r\n", "\r\n\r\n", "Content-Disposition: form-data; name=\"a\"", "filename=\"f\"",
	"gzip", "q=0", "chunked", "close", "http", "https", "a:b", "a:", ":b", "*", "k=v", "k", "=v"}

func genHostile(t *rapid.T, label string, maxAtoms int) []byte {
	n := rapid.IntRange(0, maxAtoms).Draw(t, label+"N")
	var b []byte
	for i := 0; i < n; i++ {
		b = append(b, rapid.SampledFrom(parserAtoms).Draw(t, label)...)
	}
	return b
}

type parserTarget struct {
	name string
	run  func(a, b []byte, n int)
}

func parserTargets() []parserTarget {
	return []parserTarget{
		{"URI.Parse", func(a, b []byte, n int) {
			var u protocol.URI
			u.Parse(a, b)
			touchURI(&u)
		}},
		{"URI.Parse-nohost", func(a, b []byte, n int) {
			var u protocol.URI
			u.Parse(nil, b)
			touchURI(&u)
		}},
		{"URI.Update", func(a, b []byte, n int) {
			var u protocol.URI
			u.Parse([]byte("h"), []byte("/a/b?c=d#e"))
			u.UpdateBytes(b)
			touchURI(&u)
			u.Update(string(a))
			touchURI(&u)
		}},
		{"ParseURI", func(a, b []byte, n int) {
			u := protocol.ParseURI(string(b))
			touchURI(u)
		}},
		{"Args.ParseBytes", func(a, b []byte, n int) {
			var ar protocol.Args
			ar.ParseBytes(b)
			ar.VisitAll(func(k, v []byte) {})
			_ = ar.QueryString()
			_ = ar.Peek(string(a))
			_ = ar.Has(string(a))
			ar.Del(string(a))
			_ = ar.Len()
		}},
		{"Cookie.ParseBytes", func(a, b []byte, n int) {
			var c protocol.Cookie
			_ = c.ParseBytes(b)
			_ = c.Cookie()
			_ = c.String()
			_ = c.Parse(string(a))
			_ = c.Cookie()
		}},
		{"RequestHeader.Cookie", func(a, b []byte, n int) {
			var h protocol.RequestHeader
			h.SetBytesKV([]byte("Cookie"), b)
			_ = h.Cookie(string(a))
			h.VisitAllCookie(func(k, v []byte) {})
			_ = h.Header()
		}},
		{"ResponseHeader.Set-Cookie", func(a, b []byte, n int) {
			var h protocol.ResponseHeader
			h.SetBytesV("Set-Cookie", b)
			h.VisitAllCookie(func(k, v []byte) {})
			var c protocol.Cookie
			c.SetKeyBytes(a)
			_ = h.Cookie(&c)
			_ = h.Header()
		}},
		{"Trailer.SetTrailers", func(a, b []byte, n int) {
			var tr protocol.Trailer
			_ = tr.SetTrailers(b)
			_ = tr.Header()
			_ = tr.GetBytes()
			_ = tr.Set(string(a), "v")
			var h protocol.RequestHeader
			h.SetBytesKV([]byte("Trailer"), b)
			_ = h.Header()
			var rh protocol.ResponseHeader
			rh.SetBytesV("Trailer", b)
			_ = rh.Header()
		}},
		{"MultipartFormBoundary", func(a, b []byte, n int) {
			var h protocol.RequestHeader
			h.SetContentTypeBytes(b)
			_ = h.MultipartFormBoundary()
			h.SetContentTypeBytes(append([]byte("multipart/form-data;"), b...))
			_ = h.MultipartFormBoundary()
			h.SetContentTypeBytes(append([]byte("multipart/form-data; boundary="), b...))
			_ = h.MultipartFormBoundary()
		}},
		{"ReadMultipartForm", func(a, b []byte, n int) {
			boundary := string(a)
			if len(boundary) > 70 {
				boundary = boundary[:70]
			}
			f, err := protocol.ReadMultipartForm(bytes.NewReader(b), boundary, len(b), n)
			if err == nil && f != nil {
				_ = f.RemoveAll()
			}
			body := append([]byte("--"+boundary+"\r\nContent-Disposition: form-data; name=\"a\"\r\n\r\n"), b...)
			body = append(body, "\r\n--"+boundary+"--\r\n"...)
			f, err = protocol.ReadMultipartForm(bytes.NewReader(body), boundary, len(body), n)
			if err == nil && f != nil {
				_ = f.RemoveAll()
			}
		}},
		{"ParseMultipartForm", func(a, b []byte, n int) {
			var req protocol.Request
			req.Header.SetContentTypeBytes(append([]byte("multipart/form-data; boundary="), a...))
			req.SetMultipartFormBoundary(string(req.Header.MultipartFormBoundary()))
			_ = protocol.ParseMultipartForm(bytes.NewReader(b), &req, len(b), n)
			req.RemoveMultipartFormFiles()
		}},
		{"ParseByteRange", func(a, b []byte, n int) {
			_, _, _ = app.ParseByteRange(b, n)
			_, _, _ = app.ParseByteRange(append([]byte("bytes="), b...), n)
		}},
		{"ParseContentLength", func(a, b []byte, n int) {
			_, _ = protocol.ParseContentLength(b)
		}},
		{"IfModifiedSince", func(a, b []byte, n int) {
			ctx := app.NewContext(0)
			ctx.Request.Header.SetBytesKV([]byte("If-Modified-Since"), b)
			_ = ctx.IfModifiedSince(time.Unix(int64(n), 0))
		}},
		{"HasAcceptEncoding", func(a, b []byte, n int) {
			var h protocol.RequestHeader
			h.SetBytesKV([]byte("Accept-Encoding"), b)
			_ = h.HasAcceptEncodingBytes(a)
			_ = h.HasAcceptEncodingBytes([]byte("gzip"))
			_ = ext.HasHeaderValue(b, a)
		}},
		{"Request-accessors", func(a, b []byte, n int) {
			var req protocol.Request
			req.Header.SetMethod("POST")
			req.SetRequestURI(string(b))
			req.Header.SetHostBytes(a)
			touchURI(req.URI())
			_ = req.Host()
			_ = req.Scheme()
			req.Header.SetContentTypeBytes([]byte("application/x-www-form-urlencoded"))
			req.SetBody(b)
			req.PostArgs().VisitAll(func(k, v []byte) {})
			_ = req.BasicAuth
		}},
	}
}

func touchURI(u *protocol.URI) {
	_ = u.Path()
	_ = u.PathOriginal()
	_ = u.Host()
	_ = u.Scheme()
	_ = u.QueryString()
	_ = u.Hash()
	_ = u.Username()
	_ = u.Password()
	_ = u.LastPathSegment()
	_ = u.FullURI()
	_ = u.RequestURI()
	u.QueryArgs().VisitAll(func(k, v []byte) {})
	_ = u.String()
}

func runTarget(pt parserTarget, a, b []byte, n int) (pan string) {
	defer func() {
		if r := recover(); r != nil {
			pan = fmt.Sprintf("%v\n%s", r, debug.Stack())
		}
	}()
	pt.run(a, b, n)
	return ""
}

func TestC03Parsers(t *testing.T) {
	rec := ev.New("parsers")
	targets := parserTargets()
	rapid.Check(t, func(t *rapid.T) {
		pt := targets[rapid.IntRange(0, len(targets)-1).Draw(t, "target")]
		a := genHostile(t, "a", 4)
		b := genHostile(t, "b", 10)
		n := rapid.SampledFrom([]int{0, 1, 2, 10, 100, 1 << 20, -1}).Draw(t, "n")
		rec.Case(len(b) > 0, ev.Hash([]byte(pt.name), a, b, []byte(fmt.Sprint(n))), "target-"+pt.name)
		if p := runTarget(pt, a, b, n); p != "" {
			t.Fatalf("%s panicked on a=%q b=%q n=%d: %s", pt.name, a, b, n, p)
		}
		if rec.WantSample() && len(b) > 6 {
			rec.Sample(map[string]interface{}{"target": pt.name, "a": string(a), "b": string(b), "n": n})
		}
	})
}

// ---------------------------------------------------------------------------
// Saved inputs.

var regressServerInputs = []string{
	"GET a:b HTTP/1.1\r\n\r\n",
	"GET a: HTTP/1.1\r\n\r\n",
	"GET http:x HTTP/1.1\r\n\r\n",
	"POST / HTTP/1.1\r\nHost: h\r\nTrailer: a,,b\r\nTransfer-Encoding: chunked\r\n\r\n0\r\n\r\n",
	"POST / HTTP/1.1\r\nHost: h\r\nTrailer: ,\r\nContent-Length: 0\r\n\r\n",
	"POST / HTTP/1.1\r\nHost: h\r\nTrailer: \r\nContent-Length: 0\r\n\r\n",
	"GET / HTTP/1.1\r\nHost: h\r\nTrailer: a, ,\r\n\r\nGET /2 HTTP/1.1\r\nHost: h\r\n\r\n",
	"GET / HTTP/1.1\r\nHost: h\r\nRange: bytes=-1\r\n\r\n",
	"GET / HTTP/1.1\r\nHost: h\r\nCookie: a=b; SameSite=\r\n\r\n",
}

var regressClientInputs = []string{
	"HTTP/1.1 200 OK\r\nTrailer: a,,b\r\nTransfer-Encoding: chunked\r\n\r\n0\r\n\r\n",
	"HTTP/1.1 200 OK\r\nTrailer: ,\r\nContent-Length: 0\r\n\r\n",
	"HTTP/1.1 200 OK\r\nSet-Cookie: k=v; SameSite=\r\nContent-Length: 0\r\n\r\n",
	"HTTP/1.1 200 OK\r\nContent-Length: 9223372036854775807\r\n\r\n",
	"HTTP/1.1 200 OK\r\nContent-Length: 4611686018427387905\r\n\r\nabc",
	"HTTP/1.1 200 OK\r\nTransfer-Encoding: chunked\r\n\r\n7ffffffffffffff\r\nabc",
}

func TestC03Regress(t *testing.T) {
	rec := ev.New("regress")
	for _, in := range regressServerInputs {
		b := []byte(in)
		for _, stream := range []bool{false, true} {
			segs := [][]int{nil}
			var bw []int
			for i := 1; i < len(b); i++ {
				bw = append(bw, i)
				segs = append(segs, []int{i})
			}
			segs = append(segs, bw)
			for _, cuts := range segs {
				obs, res, _ := server(stream, 0).Run(sconn.Split(b, cuts), sconn.EOF)
				rec.Case(true, ev.Hash(b, []byte(fmt.Sprint(stream, cuts))), "server")
				if _, msg := judgeServer(b, obs, res, sconn.EOF); msg != "" {
					ev.Fail(prop, "regress", map[string]interface{}{"input": in, "streaming": stream, "cuts": trim(cuts)}, msg)
					t.Errorf("%q streaming=%v cuts=%v: %s", in, stream, trim(cuts), msg)
					break
				}
			}
		}
	}
	// D41: body limit switched off, a length that no machine has
	for _, cl := range []string{"9000000000000000000", "9223372036854775807", "4611686018427387904"} {
		in := "POST /upload HTTP/1.1\r\nHost: example.com\r\nContent-Length: " + cl + "\r\n\r\nabc"
		for _, stream := range []bool{false, true} {
			for _, end := range []sconn.End{sconn.EOF, sconn.Timeout} {
				obs, res, _ := server(stream, -1).Run([][]byte{[]byte(in)}, end)
				rec.Case(true, ev.Hash([]byte(in), []byte(fmt.Sprint(stream, end))), "server", "body-limit-off")
				if _, msg := judgeServer([]byte(in), obs, res, end); msg != "" {
					ev.Fail(prop, "regress", map[string]interface{}{"input": in, "streaming": stream, "body_limit": "off"}, msg)
					t.Errorf("%q streaming=%v limit off: %s", in, stream, msg)
				}
			}
		}
	}
	// A peer that stalls inside a well-formed header block until the read deadline passes has sent nothing malformed:
	// whatever the server says (hertz answers a stalled connection with 408, or closes), it does not call the request
	// malformed (400), and it says the same as for a peer that stalls before its first byte.
	for _, part := range []string{"G", "GET / HTTP/1.1\r\nHo", "GET / HTTP/1.1\r\nHost: example.com\r\n"} {
		for _, stream := range []bool{false, true} {
			_, res, _ := server(stream, 0).Run([][]byte{[]byte(part)}, sconn.Timeout)
			rec.Case(true, ev.Hash([]byte(part), []byte(fmt.Sprint(stream))), "server", "stall-inside-header-block")
			if res.Panic != nil {
				t.Errorf("panic: %v", res.Panic)
			}
			if strings.Contains(string(res.Output), " 400 ") {
				msg := fmt.Sprintf("a peer that sent %q and then stalled until the read timeout is answered %q: nothing it sent is malformed", part, srvShort(res.Output))
				ev.Fail(prop, "regress", map[string]interface{}{"input": part, "streaming": stream, "end": "timeout"}, msg)
				t.Errorf("%s", msg)
			}
		}
	}
	for _, in := range regressClientInputs {
		for _, stream := range []bool{false, true} {
			o := clientRun(stream, "GET", []byte(in), nil)
			rec.Case(true, ev.Hash([]byte(in), []byte(fmt.Sprint(stream))), "client")
			if o.Panic != "" {
				ev.Fail(prop, "regress", map[string]interface{}{"response": in, "streaming": stream}, o.Panic)
				t.Errorf("client panicked on %q: %s", in, o.Panic)
			}
		}
	}
	targets := parserTargets()
	for _, in := range []string{"a:b", "a:", ":", "SameSite=", "k=v; SameSite=", "a,,b", ",", "bytes=-1", "bytes=-0", "bytes=-", "multipart/form-data; boundary=", "=;", "%", "%2"} {
		for _, pt := range targets {
			for _, n := range []int{0, 1, 10} {
				rec.Case(true, ev.Hash([]byte(pt.name), []byte(in), []byte(fmt.Sprint(n))), "parser")
				if p := runTarget(pt, []byte(in), []byte(in), n); p != "" {
					ev.Fail(prop, "regress", map[string]interface{}{"target": pt.name, "input": in, "n": n}, p)
					t.Errorf("%s panicked on %q n=%d: %s", pt.name, in, n, p)
				}
			}
		}
	}
}

func srvShort(b []byte) string {
	if len(b) > 120 {
		return string(b[:120]) + "..."
	}
	return string(b)
}
