package c13

import (
	"bytes"
	"fmt"
	"io"
	"net"
	"os"
	"strings"
	"testing"

	"github.com/cloudwego/hertz/pkg/network"
	"github.com/cloudwego/hertz/pkg/network/standard"
	"pgregory.net/rapid"

	"verifharness/ev"
	"verifharness/sconn"
)

const prop = "C13"

func TestMain(m *testing.M) {
	code := m.Run()
	ev.Flush()
	os.Exit(code)
}

func maxSteps() int {
	if ev.Thorough() {
		return 200
	}
	return 60
}

// streamByte is position dependent so that any shift, loss or duplication is visible.
func streamByte(i int, salt byte) byte {
	return byte(i) ^ byte(i>>8)*31 ^ byte(i>>16)*7 ^ salt
}

func makeStream(n int, salt byte) []byte {
	b := make([]byte, n)
	for i := range b {
		b[i] = streamByte(i, salt)
	}
	return b
}

var interestingSizes = []int{0, 1, 2, 3, 7, 100, 1023, 1024, 1025, 4095, 4096, 4097, 8191, 8192, 8193, 20000, 65535, 65536, 65537, 512*1024 - 1, 512 * 1024, 512*1024 + 1}

func genStreamLen(t *rapid.T) int {
	switch rapid.IntRange(0, 9).Draw(t, "lenClass") {
	case 0:
		return rapid.IntRange(0, 16).Draw(t, "len")
	case 1, 2, 3:
		return rapid.IntRange(0, 10000).Draw(t, "len")
	case 4, 5, 6:
		return rapid.IntRange(0, 40000).Draw(t, "len")
	case 7, 8:
		return rapid.IntRange(0, 150000).Draw(t, "len")
	}
	return rapid.IntRange(500000, 620000).Draw(t, "len")
}

// genFragments cuts the stream with a cyclic pattern of read sizes.
func genFragments(t *rapid.T, stream []byte) ([][]byte, []int) {
	np := rapid.IntRange(1, 6).Draw(t, "npattern")
	pat := make([]int, np)
	minSize := 1
	if len(stream) > 50000 {
		minSize = len(stream) / 3000 // bound the number of fragments
	}
	for i := range pat {
		switch rapid.IntRange(0, 5).Draw(t, "fragClass") {
		case 0:
			pat[i] = rapid.IntRange(1, 3).Draw(t, "frag")
		case 1:
			pat[i] = rapid.SampledFrom([]int{1023, 1024, 1025, 4095, 4096, 4097, 8192, 20000}).Draw(t, "frag")
		default:
			pat[i] = rapid.IntRange(1, 20480).Draw(t, "frag")
		}
		if pat[i] < minSize {
			pat[i] = minSize
		}
	}
	var frags [][]byte
	pos := 0
	for i := 0; pos < len(stream); i++ {
		n := pat[i%np]
		if pos+n > len(stream) {
			n = len(stream) - pos
		}
		frags = append(frags, stream[pos:pos+n])
		pos += n
	}
	return frags, pat
}

type livePeek struct {
	got  []byte // slice returned by Peek (aliases connection memory)
	copy []byte
	step int
}

type readerCase struct {
	BufSize  int      `json:"buf_size"`
	Len      int      `json:"stream_len"`
	Pattern  []int    `json:"fragment_pattern"`
	End      string   `json:"end"`
	Ops      []string `json:"ops"`
	multi    bool
	nontriv  bool
	phaseNT  int
	released bool
}

func genSize(t *rapid.T, lenNow, remaining int) int {
	switch rapid.IntRange(0, 7).Draw(t, "sizeClass") {
	case 0:
		return rapid.SampledFrom(interestingSizes).Draw(t, "size")
	case 1:
		return lenNow
	case 2:
		return lenNow + 1
	case 3:
		return remaining
	case 4:
		return remaining + 1
	case 5:
		return rapid.IntRange(0, 20000).Draw(t, "size")
	}
	return rapid.IntRange(0, 300).Draw(t, "size")
}

func runReader(t *rapid.T, rec *ev.Recorder) {
	bufSize := rapid.SampledFrom([]int{0, 1, 4096, 8192, 65536}).Draw(t, "bufSize")
	n := genStreamLen(t)
	salt := byte(rapid.IntRange(0, 255).Draw(t, "salt"))
	stream := makeStream(n, salt)
	frags, pat := genFragments(t, stream)
	end := sconn.EOF
	if rapid.Bool().Draw(t, "timeoutEnd") {
		end = sconn.Timeout
	}
	sc := sconn.New(frags, end)
	conn := standard.NewConnForVerif(sc, bufSize)
	rc := &readerCase{BufSize: bufSize, Len: n, Pattern: pat, End: end.String()}

	cursor := 0
	var live []livePeek
	steps := rapid.IntRange(1, maxSteps()).Draw(t, "steps")

	checkLive := func(step int, after string) {
		for _, lp := range live {
			if !bytes.Equal(lp.got, lp.copy) {
				t.Fatalf("slice returned by Peek at step %d changed before any Release (noticed after step %d %s): first diff at %d of %d", lp.step, step, after, firstDiff(lp.got, lp.copy), len(lp.copy))
			}
		}
	}
	checkLen := func(step int, after string) {
		if got, want := conn.Len(), sc.Delivered-cursor; got != want {
			t.Fatalf("after step %d %s: Len()=%d, want delivered(%d)-consumed(%d)=%d", step, after, got, sc.Delivered, cursor, want)
		}
	}

	for step := 0; step < steps; step++ {
		remaining := n - cursor
		lenNow := conn.Len()
		op := rapid.IntRange(0, 11).Draw(t, "op")
		var desc string
		switch op {
		case 0, 1, 2: // Peek
			k := genSize(t, lenNow, remaining)
			desc = fmt.Sprintf("Peek(%d)", k)
			readsBefore := sc.Reads()
			p, err := conn.Peek(k)
			if k <= remaining {
				if err != nil {
					t.Fatalf("step %d %s: unexpected error %v with %d bytes remaining", step, desc, err, remaining)
				}
				if !bytes.Equal(p, stream[cursor:cursor+k]) {
					t.Fatalf("step %d %s: wrong bytes (len %d) first diff at %d", step, desc, len(p), firstDiff(p, stream[cursor:cursor+k]))
				}
			} else {
				if err == nil {
					t.Fatalf("step %d %s: no error although only %d bytes remain", step, desc, remaining)
				}
				if len(p) > remaining || !bytes.Equal(p, stream[cursor:cursor+len(p)]) {
					t.Fatalf("step %d %s: short peek returned %d bytes that are not a prefix of the remaining %d", step, desc, len(p), remaining)
				}
			}
			if len(p) > 0 {
				live = append(live, livePeek{got: p, copy: append([]byte(nil), p...), step: step})
			}
			if sc.Reads()-readsBefore >= 2 && err == nil {
				rc.multi = true
				if rc.phaseNT == 0 {
					rc.phaseNT = 1
				}
			}
			if rc.phaseNT == 2 && len(p) > 0 {
				rc.nontriv = true
			}
		case 3, 4: // Skip (precondition: n <= Len)
			if lenNow == 0 {
				desc = "Skip(0)"
				if err := conn.Skip(0); err != nil {
					t.Fatalf("step %d Skip(0): %v", step, err)
				}
				break
			}
			k := rapid.IntRange(0, lenNow).Draw(t, "skip")
			if rapid.IntRange(0, 3).Draw(t, "skipAll") == 0 {
				k = lenNow
			}
			desc = fmt.Sprintf("Skip(%d)", k)
			if err := conn.Skip(k); err != nil {
				t.Fatalf("step %d %s with Len()=%d: %v", step, desc, lenNow, err)
			}
			cursor += k
		case 5: // ReadByte
			desc = "ReadByte"
			b, err := conn.ReadByte()
			if remaining >= 1 {
				if err != nil {
					t.Fatalf("step %d ReadByte: unexpected error %v", step, err)
				}
				if b != stream[cursor] {
					t.Fatalf("step %d ReadByte: got %#x want %#x at offset %d", step, b, stream[cursor], cursor)
				}
				cursor++
			} else if err == nil {
				t.Fatalf("step %d ReadByte: no error at end of stream", step)
			}
		case 6, 7: // ReadBinary
			k := genSize(t, lenNow, remaining)
			if k > 2*1024*1024 {
				k = 2 * 1024 * 1024
			}
			desc = fmt.Sprintf("ReadBinary(%d)", k)
			p, err := conn.ReadBinary(k)
			if k <= remaining {
				if err != nil {
					t.Fatalf("step %d %s: unexpected error %v with %d remaining", step, desc, err, remaining)
				}
				if !bytes.Equal(p, stream[cursor:cursor+k]) {
					t.Fatalf("step %d %s: wrong bytes, first diff at %d", step, desc, firstDiff(p, stream[cursor:cursor+k]))
				}
				cursor += k
			} else if err == nil {
				t.Fatalf("step %d %s: no error although only %d bytes remain", step, desc, remaining)
			}
		case 8, 9: // Read
			k := genSize(t, lenNow, remaining)
			if k == 0 {
				k = 1
			}
			if k > 1024*1024 {
				k = 1024 * 1024
			}
			desc = fmt.Sprintf("Read(len %d)", k)
			buf := make([]byte, k)
			m, err := conn.Read(buf)
			if m < 0 || m > k || m > remaining {
				t.Fatalf("step %d %s: returned n=%d with %d remaining", step, desc, m, remaining)
			}
			if !bytes.Equal(buf[:m], stream[cursor:cursor+m]) {
				t.Fatalf("step %d %s: wrong bytes, first diff at %d", step, desc, firstDiff(buf[:m], stream[cursor:cursor+m]))
			}
			if m == 0 && err == nil {
				t.Fatalf("step %d %s: returned (0, nil)", step, desc)
			}
			if m == 0 && remaining > 0 {
				t.Fatalf("step %d %s: returned 0 bytes, err=%v although %d bytes remain", step, desc, err, remaining)
			}
			if m > 0 && err != nil && remaining-m > 0 {
				t.Fatalf("step %d %s: error %v with %d bytes still remaining", step, desc, err, remaining-m)
			}
			cursor += m
			live = nil // Read releases internally; earlier peeked slices are documented invalid
			if rc.phaseNT == 1 {
				rc.phaseNT = 2
			}
		case 10: // Release
			desc = "Release"
			checkLive(step, "(before Release)")
			live = nil
			if err := conn.Release(); err != nil {
				t.Fatalf("step %d Release: %v", step, err)
			}
			rc.released = true
			if rc.phaseNT == 1 {
				rc.phaseNT = 2
			}
		case 11: // Len
			desc = "Len"
		}
		rc.Ops = append(rc.Ops, desc)
		checkLen(step, desc)
		checkLive(step, desc)
	}
	// drain: everything not yet consumed must still be there, in order
	rest := n - cursor
	if rest > 0 {
		p, err := conn.ReadBinary(rest)
		if err != nil {
			t.Fatalf("final drain ReadBinary(%d): %v", rest, err)
		}
		if !bytes.Equal(p, stream[cursor:]) {
			t.Fatalf("final drain: wrong bytes, first diff at %d", firstDiff(p, stream[cursor:]))
		}
		cursor += rest
	}
	if _, err := conn.Peek(1); err == nil {
		t.Fatalf("Peek(1) after the whole stream was consumed returned no error")
	}
	cls := "reader"
	if rc.multi {
		cls = "reader-multiread-peek"
	}
	rec.Case(rc.nontriv, ev.HashString(fmt.Sprint(bufSize, n, pat, end), strings.Join(rc.Ops, ",")), cls, "end-"+rc.End, fmt.Sprintf("buf-%d", bufSize), lenClass(n))
	if rc.nontriv && rec.WantSample() {
		s := *rc
		if len(s.Ops) > 40 {
			s.Ops = append(append([]string(nil), s.Ops[:40]...), fmt.Sprintf("... %d more", len(rc.Ops)-40))
		}
		rec.Sample(s)
	}
}

func lenClass(n int) string {
	switch {
	case n == 0:
		return "stream-0"
	case n <= 4096:
		return "stream-le4k"
	case n <= 65536:
		return "stream-le64k"
	case n <= 512*1024:
		return "stream-le512k"
	}
	return "stream-gt512k"
}

func firstDiff(a, b []byte) int {
	for i := 0; i < len(a) && i < len(b); i++ {
		if a[i] != b[i] {
			return i
		}
	}
	if len(a) != len(b) {
		if len(a) < len(b) {
			return len(a)
		}
		return len(b)
	}
	return -1
}

func TestC13Reader(t *testing.T) {
	rec := ev.New("reader")
	rapid.Check(t, func(t *rapid.T) { runReader(t, rec) })
}

// ---------------------------------------------------------------------------
// Writer side.

type writerCase struct {
	Impl      string   `json:"implementation"`
	Ops       []string `json:"ops"`
	FailAfter int      `json:"fail_after"`
	ReadFrom  int      `json:"read_from_ops,omitempty"`
	nontriv   bool
}

// plainConn hides the scripted connection's ReadFrom, as a tls.Conn has none: standard.Conn.ReadFrom then copies
// through its own output nodes (the path every streamed body takes on a TLS server)
type plainConn struct{ net.Conn }

// pieceReader hands out its content in reads of at most max bytes
type pieceReader struct {
	b   []byte
	max int
}

func (r *pieceReader) Read(p []byte) (int, error) {
	if len(r.b) == 0 {
		return 0, io.EOF
	}
	n := len(p)
	if n > r.max {
		n = r.max
	}
	n = copy(p[:n], r.b)
	r.b = r.b[n:]
	return n, nil
}

func runWriter(t *rapid.T, rec *ev.Recorder) {
	sc := sconn.New(nil, sconn.EOF)
	failAfter := -1
	if rapid.IntRange(0, 5).Draw(t, "injectWriteError") == 0 {
		failAfter = rapid.IntRange(0, 30000).Draw(t, "failAfter")
		sc.FailWritesAfter(failAfter)
	}
	// two implementations of the same writer contract: the standard transport's connection and the
	// generic network.NewWriter (used for hijacked/extended writers and by clients of other transports)
	var conn network.Writer
	var under net.Conn = sc
	noReaderFrom := rapid.Bool().Draw(t, "underlyingConnWithoutReaderFrom")
	if noReaderFrom {
		under = plainConn{sc}
	}
	stdConn := standard.NewConnForVerif(under, 4096)
	impl := "standard.Conn"
	if rapid.IntRange(0, 2).Draw(t, "implementation") == 0 {
		impl = "network.NewWriter"
		conn = network.NewWriter(sc)
	} else {
		conn = stdConn
	}
	wc := &writerCase{FailAfter: failAfter, Impl: impl}
	// a payload that is written piecewise as sub-slices of one buffer (each piece has spare capacity:
	// the rest of the payload), with small separators in between, as a chunked body is
	var payload, payloadOrig []byte
	payloadOff := 0
	var expect []byte // everything written so far
	var keep [][]byte // zero-copy buffers that must stay alive until flush
	pos := 0          // position in the logical output stream (for content)
	flushed := 0      // expect[:flushed] must have reached the peer
	sawMalloc, sawZC := false, false
	salt := byte(rapid.IntRange(0, 255).Draw(t, "salt"))
	steps := rapid.IntRange(1, maxSteps()).Draw(t, "steps")
	failed := false

	content := func(k int) []byte {
		b := make([]byte, k)
		for i := range b {
			b[i] = streamByte(pos+i, salt)
		}
		pos += k
		return b
	}
	looseHi := 0
	loose := false // after ReadFrom: everything before it must be out, the copied bytes may still be buffered
	verify := func(step int, desc string) {
		out := sc.Output()
		if loose && !failed {
			if len(out) < flushed || len(out) > looseHi || !bytes.HasPrefix(expect, out) {
				t.Fatalf("after step %d %s: peer has %d bytes; want at least the %d written before and a prefix of the %d written (first diff %d)", step, desc, len(out), flushed, len(expect), firstDiff(out, expect))
			}
			return
		}
		if failed {
			if !bytes.HasPrefix(expect, out) {
				t.Fatalf("after write error at step %d %s: peer received %d bytes that are not a prefix of what was written (first diff %d)", step, desc, len(out), firstDiff(out, expect))
			}
			return
		}
		if !bytes.Equal(out, expect[:flushed]) {
			t.Fatalf("after step %d %s: peer has %d bytes, want exactly the %d bytes written before the last flush (first diff %d)", step, desc, len(out), flushed, firstDiff(out, expect[:flushed]))
		}
	}

	for step := 0; step < steps && !failed; step++ {
		op := rapid.IntRange(0, 10).Draw(t, "op")
		var desc string
		switch op {
		case 10: // ReadFrom: write what a reader delivers (how streamed bodies are written); flushes first
			if impl != "standard.Conn" {
				desc = "noop"
				break
			}
			k := rapid.SampledFrom([]int{0, 1, 100, 4095, 4096, 4097, 8192, 16384, 16385, 40000, 102400}).Draw(t, "readFromSize")
			max := rapid.SampledFrom([]int{1 << 20, 4096, 1000, 7}).Draw(t, "readFromPiece")
			if k > 20000 && max == 7 {
				max = 1000
			}
			desc = fmt.Sprintf("ReadFrom(%d bytes, reads of <=%d)", k, max)
			c := content(k)
			before := len(expect)
			expect = append(expect, c...)
			m, err := stdConn.(io.ReaderFrom).ReadFrom(&pieceReader{b: append([]byte(nil), c...), max: max})
			if err != nil {
				if failAfter < 0 {
					t.Fatalf("step %d %s: n=%d err=%v", step, desc, m, err)
				}
				failed = true
			} else {
				if int(m) != k {
					t.Fatalf("step %d %s: copied %d bytes without error", step, desc, m)
				}
				flushed = before
				loose, looseHi = true, len(expect)
				keep = nil
				sawMalloc, sawZC = false, false
				wc.ReadFrom++
			}
		case 0, 1, 2: // Malloc + fill
			k := rapid.SampledFrom([]int{0, 1, 2, 100, 1000, 4095, 4096, 4097, 8191, 8192, 8193, 20000, 70000}).Draw(t, "mallocSize")
			if rapid.Bool().Draw(t, "smallRandom") {
				k = rapid.IntRange(0, 5000).Draw(t, "mallocSize2")
			}
			desc = fmt.Sprintf("Malloc(%d)", k)
			buf, err := conn.Malloc(k)
			if err != nil {
				t.Fatalf("step %d %s: %v", step, desc, err)
			}
			if len(buf) != k {
				t.Fatalf("step %d %s: returned %d bytes", step, desc, len(buf))
			}
			c := content(k)
			copy(buf, c)
			expect = append(expect, c...)
			if k > 0 {
				sawMalloc = true
			}
		case 3, 4, 5: // WriteBinary
			k := rapid.SampledFrom([]int{0, 1, 100, 4095, 4096, 4097, 8192, 8193, 65536, 70000}).Draw(t, "wbSize")
			if rapid.Bool().Draw(t, "smallRandom") {
				k = rapid.IntRange(0, 9000).Draw(t, "wbSize2")
			}
			desc = fmt.Sprintf("WriteBinary(%d)", k)
			c := content(k)
			m, err := conn.WriteBinary(c)
			if err != nil || m != k {
				t.Fatalf("step %d %s: n=%d err=%v", step, desc, m, err)
			}
			keep = append(keep, c)
			expect = append(expect, c...)
			if k >= 4096 {
				sawZC = true
			}
		case 6, 7: // Flush
			desc = "Flush"
			err := conn.Flush()
			if err != nil {
				if failAfter < 0 {
					t.Fatalf("step %d Flush: %v", step, err)
				}
				failed = true
			} else {
				if failAfter >= 0 && len(expect) > failAfter {
					t.Fatalf("step %d Flush returned nil although the peer refuses bytes after %d and %d were written", step, failAfter, len(expect))
				}
				flushed = len(expect)
				loose = false
				if sawMalloc && sawZC {
					wc.nontriv = true
				}
				sawMalloc, sawZC = false, false
				keep = nil
			}
		case 9: // the next piece of the shared payload buffer, zero-copy
			if payload == nil || payloadOff >= len(payload) {
				n := rapid.SampledFrom([]int{9000, 20000, 70000}).Draw(t, "payloadSize")
				payloadOrig = content(n)
				payload = append([]byte(nil), payloadOrig...)
				payloadOff = 0
				pos -= n // content positions are assigned when the pieces are written
			}
			k := rapid.SampledFrom([]int{1, 100, 4096, 4097, 8192, 8193}).Draw(t, "pieceSize")
			if k > len(payload)-payloadOff {
				k = len(payload) - payloadOff
			}
			desc = fmt.Sprintf("WriteBinary(payload[%d:%d] cap %d)", payloadOff, payloadOff+k, len(payload)-payloadOff)
			m, err := conn.WriteBinary(payload[payloadOff : payloadOff+k])
			if err != nil || m != k {
				t.Fatalf("step %d %s: n=%d err=%v", step, desc, m, err)
			}
			expect = append(expect, payloadOrig[payloadOff:payloadOff+k]...)
			payloadOff += k
			pos += k
			keep = append(keep, payload)
			if k >= 4096 {
				sawZC = true
			}
		case 8: // direct Write (flushes first)
			if impl != "standard.Conn" {
				desc = "noop"
				break
			}
			k := rapid.SampledFrom([]int{1, 100, 4096, 9000}).Draw(t, "writeSize")
			desc = fmt.Sprintf("Write(%d)", k)
			c := content(k)
			m, err := stdConn.Write(c)
			if err != nil {
				if failAfter < 0 {
					t.Fatalf("step %d %s: %v", step, desc, err)
				}
				expect = append(expect, c...)
				failed = true
			} else {
				if m != k {
					t.Fatalf("step %d %s: short write %d", step, desc, m)
				}
				expect = append(expect, c...)
				flushed = len(expect)
				loose = false
				keep = nil
				sawMalloc, sawZC = false, false
			}
		}
		wc.Ops = append(wc.Ops, desc)
		verify(step, desc)
	}
	if !failed {
		if err := conn.Flush(); err != nil {
			if failAfter < 0 {
				t.Fatalf("final Flush: %v", err)
			}
			failed = true
		} else {
			flushed = len(expect)
			loose = false
		}
		verify(steps, "final Flush")
	}
	_ = keep
	cls := "writer"
	if failAfter >= 0 {
		cls = "writer-with-write-error"
	}
	clss := []string{cls, "impl-" + impl}
	if wc.ReadFrom > 0 {
		clss = append(clss, "read-from")
		if noReaderFrom {
			clss = append(clss, "read-from-through-output-nodes")
		}
	}
	rec.Case(wc.nontriv, ev.HashString(impl, fmt.Sprint(failAfter, noReaderFrom), strings.Join(wc.Ops, ",")), clss...)
	if wc.nontriv && rec.WantSample() {
		s := *wc
		if len(s.Ops) > 40 {
			s.Ops = append(append([]string(nil), s.Ops[:40]...), "...")
		}
		rec.Sample(s)
	}
}

func TestC13Writer(t *testing.T) {
	rec := ev.New("writer")
	rapid.Check(t, func(t *rapid.T) { runWriter(t, rec) })
}
