package c19

import (
	"context"
	"fmt"
	"strings"
	"sync"
	"testing"

	"github.com/cloudwego/hertz/pkg/app"
	"github.com/cloudwego/hertz/pkg/app/server"
	"github.com/cloudwego/hertz/pkg/common/config"

	"verifharness/ev"
	"verifharness/sconn"
)

type bodyAtFinish struct {
	mu     sync.Mutex
	bodies map[string]string
}

func (b *bodyAtFinish) Start(ctx context.Context, c *app.RequestContext) context.Context { return ctx }

func (b *bodyAtFinish) Finish(ctx context.Context, c *app.RequestContext) {
	b.mu.Lock()
	b.bodies[string(c.Request.URI().Path())] = string(c.Request.Body())
	b.mu.Unlock()
}

// TestC19FinishAfterBuffersReleased: buffered mode. The Finish of a request carries that request's data: a
// tracer that looks at Request.Body() in Finish sees the body the handler handled, also when the peer is slow
// to take the response and another connection's request is read meanwhile (the scripted connection runs a whole
// exchange of connection B inside A's first Write). Bodies larger than the buffer node that holds the header
// are held in memory of the transport's pool, which is released before the response is flushed.
func TestC19FinishAfterBuffersReleased(t *testing.T) {
	rec := ev.New("finish-after-buffers-released")
	for _, n := range []int{100, 3000, 6000, 20000, 70000, -6000, -20000} {
		// negative: a multipart body that is not pre-parsed and whose form the handler asks for (the request then
		// holds a parsed form beside the raw body)
		multipart := n < 0
		if multipart {
			n = -n
		}
		tr := &bodyAtFinish{bodies: map[string]string{}}
		var handled string
		opts := []config.Option{server.WithTracer(tr), server.WithMaxRequestBodySize(1 << 20)}
		if multipart {
			opts = append(opts, server.WithDisablePreParseMultipartForm(true))
		}
		s := sconn.NewServer(func(h *server.Hertz) {
			h.POST("/a", func(c context.Context, ctx *app.RequestContext) {
				handled = string(ctx.Request.Body())
				if multipart {
					ctx.MultipartForm() //nolint:errcheck
				}
				ctx.SetBodyString("ok-a")
			})
			h.POST("/b", func(c context.Context, ctx *app.RequestContext) { ctx.SetBodyString("ok-b") })
		}, opts...)
		bodyA, bodyB := strings.Repeat("A", n), strings.Repeat("B", n)
		ct := ""
		if multipart {
			wrap := func(x string) string {
				return "--bnd\r\nContent-Disposition: form-data; name=\"f\"\r\n\r\n" + x + "\r\n--bnd--\r\n"
			}
			bodyA, bodyB = wrap(bodyA), wrap(bodyB)
			ct = "Content-Type: multipart/form-data; boundary=bnd\r\n"
		}
		reqFor := func(path, body string) []byte {
			return []byte(fmt.Sprintf("POST %s HTTP/1.1\r\nHost: h\r\n%sContent-Length: %d\r\n\r\n%s", path, ct, len(body), body))
		}
		ca := sconn.New([][]byte{reqFor("/a", bodyA)}, sconn.EOF)
		ca.OnFirstWrite = func() {
			for i := 0; i < 4; i++ {
				s.Serve(sconn.New([][]byte{reqFor("/b", bodyB)}, sconn.EOF))
			}
		}
		res := s.Serve(ca)
		s.Close()
		rec.Case(true, ev.HashString(fmt.Sprint(n, multipart)), fmt.Sprintf("body-%d", n), map[bool]string{true: "multipart-form-asked-for", false: "plain-body"}[multipart])
		if res.Panic != nil {
			t.Fatalf("panic: %v", res.Panic)
		}
		tr.mu.Lock()
		got, ok := tr.bodies["/a"]
		tr.mu.Unlock()
		if handled != bodyA {
			t.Fatalf("harness: the handler of /a saw %d bytes", len(handled))
		}
		if !ok || got != bodyA {
			nb := strings.Count(got, "B")
			msg := fmt.Sprintf("body of %d bytes (multipart=%v): the handler of /a handled %d x 'A'; the Finish of that request carries a body of %d bytes with %d x 'B' in it (another connection's request was read while the response to /a was being written)", n, multipart, n, len(got), nb)
			ev.Fail(prop, "finish-after-buffers-released", map[string]int{"body": n}, msg)
			t.Errorf("%s", msg)
		}
	}
}
