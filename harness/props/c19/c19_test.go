package c19

import (
	"context"
	"fmt"
	"io"
	"os"
	"strings"
	"testing"
	"time"

	"github.com/cloudwego/hertz/pkg/app"
	"github.com/cloudwego/hertz/pkg/app/middlewares/server/recovery"
	"github.com/cloudwego/hertz/pkg/app/server"
	"github.com/cloudwego/hertz/pkg/common/config"
	"github.com/cloudwego/hertz/pkg/common/tracer/stats"
	"github.com/cloudwego/hertz/pkg/network"
	"github.com/cloudwego/hertz/pkg/network/standard"
	"pgregory.net/rapid"

	"verifharness/ev"
	"verifharness/gen"
	"verifharness/sconn"
	"verifharness/wire"
)

const prop = "C19"

func TestMain(m *testing.M) {
	code := m.Run()
	ev.Flush()
	os.Exit(code)
}

type call struct {
	Kind   string `json:"kind"` // "S" or "F"
	Method string `json:"method,omitempty"`
	URI    string `json:"uri,omitempty"`
	Stages string `json:"stages,omitempty"`
	Bad    string `json:"bad,omitempty"`
	Err    string `json:"err,omitempty"`  // Stats().Error() as the tracer sees it in Finish
	Body   string `json:"body,omitempty"` // Request.Body() as the tracer sees it in Finish (buffered mode only)
}

type recTracer struct {
	log    []call
	stream bool // request bodies are streamed: looking at the body in Finish would consume it
}

var stageOrder = []struct {
	name string
	ev   stats.Event
}{
	{"HTTPStart", stats.HTTPStart}, {"ReadHeaderStart", stats.ReadHeaderStart}, {"ReadHeaderFinish", stats.ReadHeaderFinish},
	{"ReadBodyStart", stats.ReadBodyStart}, {"ReadBodyFinish", stats.ReadBodyFinish}, {"ServerHandleStart", stats.ServerHandleStart},
	{"ServerHandleFinish", stats.ServerHandleFinish}, {"WriteStart", stats.WriteStart}, {"WriteFinish", stats.WriteFinish}, {"HTTPFinish", stats.HTTPFinish},
}

func (r *recTracer) Start(ctx context.Context, c *app.RequestContext) context.Context {
	r.log = append(r.log, call{Kind: "S"})
	return ctx
}

func (r *recTracer) Finish(ctx context.Context, c *app.RequestContext) {
	cl := call{Kind: "F", Method: string(c.Request.Header.Method()), URI: string(c.Request.Header.RequestURI())}
	if !r.stream {
		cl.Body = string(c.Request.Body())
	}
	st := c.GetTraceInfo().Stats()
	var present []string
	var last time.Time
	lastName := ""
	have := map[string]bool{}
	for _, s := range stageOrder {
		e := st.GetEvent(s.ev)
		if e == nil || e.IsNil() {
			continue
		}
		have[s.name] = true
		present = append(present, s.name)
		if !last.IsZero() && e.Time().Before(last) {
			cl.Bad = fmt.Sprintf("stage %s (%v) is recorded before %s (%v)", s.name, e.Time(), lastName, last)
		}
		last, lastName = e.Time(), s.name
	}
	for _, p := range [][2]string{{"ReadHeaderStart", "ReadHeaderFinish"}, {"ReadBodyStart", "ReadBodyFinish"}, {"ServerHandleStart", "ServerHandleFinish"}, {"WriteStart", "WriteFinish"}, {"HTTPStart", "HTTPFinish"}} {
		if have[p[0]] && !have[p[1]] && cl.Bad == "" {
			cl.Bad = fmt.Sprintf("stage %s was started but %s is missing when the tracer finishes", p[0], p[1])
		}
	}
	cl.Stages = strings.Join(present, ",")
	if e := st.Error(); e != nil {
		cl.Err = e.Error()
	}
	r.log = append(r.log, cl)
}

type cfgKey struct {
	stream bool
	level  stats.Level
	idle0  bool
}

type rig struct {
	s    *sconn.Server
	tr   *recTracer
	conn *sconn.Conn
}

var rigs = map[cfgKey]*rig{}

func getRig(k cfgKey) *rig {
	if r, ok := rigs[k]; ok {
		return r
	}
	r := &rig{tr: &recTracer{stream: k.stream}}
	opts := []config.Option{server.WithStreamBody(k.stream), server.WithTracer(r.tr), server.WithTraceLevel(k.level), server.WithMaxRequestBodySize(20000)}
	if k.idle0 {
		opts = append(opts, server.WithIdleTimeout(0))
	}
	r.s = sconn.NewServer(func(h *server.Hertz) {
		h.Use(recovery.Recovery())
		h.NoRoute(func(c context.Context, ctx *app.RequestContext) {
			uri := string(ctx.Request.Header.RequestURI())
			switch {
			case strings.Contains(uri, "panic"):
				panic("handler panic for " + uri)
			case strings.Contains(uri, "hijack"):
				// the hijack handler goes on talking to the peer on the connection: it reads what the peer sends next
				ctx.Hijack(func(c network.Conn) {
					buf := make([]byte, len(hijackChatter))
					c.SetReadTimeout(200 * time.Millisecond) //nolint:errcheck
					io.ReadFull(c, buf)                      //nolint:errcheck
				})
			case strings.Contains(uri, "partial") && ctx.Request.IsBodyStream():
				buf := make([]byte, 3)
				ctx.RequestBodyStream().Read(buf) //nolint:errcheck
			}
			ctx.SetStatusCode(200)
			ctx.SetBodyString("ok " + uri)
		})
	}, opts...)
	rigs[k] = r
	return r
}

var (
	hijackBody    = strings.Repeat("A", 64)
	hijackChatter = strings.Repeat("B", 512)
	hijackCut     int // offset behind the hijack request in the stream built last
)

const (
	oOK = iota
	oPanic
	oMalformed
	oTooLarge
	oMidBodyClose
	oHijack
	oExpect
	oPartial
	oWriteError
	nOutcomes
)

var outcomeNames = []string{"ok", "handler-panic", "malformed-header", "body-too-large", "peer-closes-mid-body", "hijack", "expect-100", "partial-stream-read", "write-error"}

type History struct {
	Stream   bool     `json:"streaming"`
	Level    int      `json:"trace_level"`
	Idle0    bool     `json:"idle_timeout_zero"`
	Outcomes []int    `json:"outcomes"`
	Names    []string `json:"outcome_names"`
	End      string   `json:"end"` // "eof", "timeout", "close"
	Cuts     []int    `json:"cuts"`
}

func terminating(o int) bool {
	return o == oMalformed || o == oTooLarge || o == oMidBodyClose || o == oHijack || o == oWriteError
}

// build encodes the history; returns the stream, the targets and methods of
// the requests the server will start reading, and which of them reach a handler.
func build(h *History) (stream []byte, targets, methods []string, handled []bool) {
	host := "Host: example.com\r\n"
	for i, o := range h.Outcomes {
		last := i == len(h.Outcomes)-1
		closeHdr := ""
		if last && h.End == "close" {
			closeHdr = "Connection: close\r\n"
		}
		t := fmt.Sprintf("/r%d", i)
		m := "GET"
		run := true
		switch o {
		case oOK:
			stream = append(stream, fmt.Sprintf("GET %s HTTP/1.1\r\n%s%s\r\n", t, host, closeHdr)...)
		case oPanic:
			t += "/panic"
			stream = append(stream, fmt.Sprintf("GET %s HTTP/1.1\r\n%s%s\r\n", t, host, closeHdr)...)
		case oMalformed:
			t += "/malformed"
			stream = append(stream, fmt.Sprintf("GET %s HTTP/1.1\r\n%sBad Header Name: x\r\n\r\n", t, host)...)
			run = false
		case oTooLarge:
			t += "/toolarge"
			m = "POST"
			stream = append(stream, fmt.Sprintf("POST %s HTTP/1.1\r\n%sContent-Length: 30000\r\n\r\n", t, host)...)
			stream = append(stream, gen.Body(30000, i, 1, 0)...)
			run = h.Stream // in streaming mode the handler decides; buffered mode rejects with 413
		case oMidBodyClose:
			t += "/midbody"
			m = "POST"
			stream = append(stream, fmt.Sprintf("POST %s HTTP/1.1\r\n%sContent-Length: 100\r\n\r\nonly-part", t, host)...)
			run = false
		case oHijack:
			// a request with a body; behind it what the peer says to the hijack handler (delivered by a later
			// read when the history cuts there)
			t += "/hijack"
			m = "POST"
			stream = append(stream, fmt.Sprintf("POST %s HTTP/1.1\r\n%sContent-Length: %d\r\n\r\n%s", t, host, len(hijackBody), hijackBody)...)
			hijackCut = len(stream)
			stream = append(stream, hijackChatter...)
		case oExpect:
			t += "/expect"
			m = "POST"
			stream = append(stream, fmt.Sprintf("POST %s HTTP/1.1\r\n%sExpect: 100-continue\r\nContent-Length: 5\r\n%s\r\nhello", t, host, closeHdr)...)
		case oPartial:
			t += "/partial"
			m = "POST"
			stream = append(stream, fmt.Sprintf("POST %s HTTP/1.1\r\n%sTransfer-Encoding: chunked\r\n%s\r\n5\r\nhello\r\n6\r\n world\r\n0\r\n\r\n", t, host, closeHdr)...)
		case oWriteError:
			t += "/writeerror"
			stream = append(stream, fmt.Sprintf("GET %s HTTP/1.1\r\n%s%s\r\n", t, host, closeHdr)...)
		}
		targets = append(targets, t)
		methods = append(methods, m)
		handled = append(handled, run)
		if terminating(o) {
			break
		}
	}
	return
}

// serve runs the history once; failAfter < 0 disables write-error injection.
func serve(h *History, stream []byte, failAfter int) ([]call, sconn.Result) {
	r := getRig(cfgKey{h.Stream, stats.Level(h.Level), h.Idle0})
	r.tr.log = nil
	end := sconn.EOF
	if h.End == "timeout" {
		end = sconn.Timeout
	}
	c := sconn.New(sconn.Split(stream, h.Cuts), end)
	if failAfter >= 0 {
		c.FailWritesAfter(failAfter)
	}
	var res sconn.Result
	if !h.Idle0 {
		res = r.s.Serve(c)
	} else {
		// IdleTimeout == 0: the protocol server returns to the network layer after every
		// request; a poller-based transport calls it again when more data is readable.
		res = serveRepoll(r.s, c)
	}
	return append([]call(nil), r.tr.log...), res
}

func serveRepoll(s *sconn.Server, c *sconn.Conn) (res sconn.Result) {
	nc := standard.NewConnForVerif(c, 4096)
	for i := 0; i < 20; i++ {
		r := s.ServeConn(nc, c)
		res = r
		if r.Panic != nil || c.Closed() {
			return
		}
		if nc.Len() == 0 && c.Remaining() == 0 {
			return
		}
	}
	return
}

// Check returns "" or the violation.
func Check(h *History) string {
	stream, targets, methods, handled := build(h)
	failAfter := -1
	// locate the response of the write-error request with a dry run
	for i, o := range h.Outcomes {
		if o == oWriteError && i < len(targets) {
			dry := *h
			dry.Outcomes = append([]int(nil), h.Outcomes...)
			_, res := serve(&dry, stream, -1)
			pos := 0
			found := false
			mi := 0
			for pos < len(res.Output) && mi < len(methods) {
				pr, err := wire.ReadResponse(res.Output, pos, methods[mi])
				if err != nil {
					break
				}
				if pr.Status/100 != 1 {
					if mi == i {
						failAfter = pos + (pr.End-pos)/2
						found = true
						break
					}
					mi++
				}
				pos = pr.End
			}
			if !found {
				return "" // earlier outcome ended the connection; nothing to inject
			}
			break
		}
	}
	// first an exchange that ends in an error on a connection of its own: the context it used goes
	// back to the pool and is (most likely) the one the history's first request gets
	poison := &History{Stream: h.Stream, Level: h.Level, Idle0: h.Idle0, Outcomes: []int{oMalformed}, End: "eof"}
	ps, _, _, _ := build(poison)
	serve(poison, ps, -1)
	log, res := serve(h, stream, failAfter)
	if res.Panic != nil {
		return fmt.Sprintf("panic: %v\n%s", res.Panic, res.Stack)
	}
	desc := describe(log)
	// 1. strict alternation
	for i, c := range log {
		want := "S"
		if i%2 == 1 {
			want = "F"
		}
		if c.Kind != want {
			if c.Kind == "F" {
				return fmt.Sprintf("tracer Finish without a preceding unmatched Start (call #%d): %s", i, desc)
			}
			return fmt.Sprintf("two tracer Start calls in a row (call #%d): %s", i, desc)
		}
	}
	if len(log)%2 == 1 {
		return fmt.Sprintf("connection ended with an unfinished tracer Start: %s", desc)
	}
	pairs := len(log) / 2
	// 2. number of pairs
	n := len(targets)
	if n == 0 {
		if pairs > 1 {
			return fmt.Sprintf("connection that sent nothing produced %d start/finish pairs: %s", pairs, desc)
		}
	} else if pairs != n {
		return fmt.Sprintf("%d requests were started on the connection (%v) but the tracer saw %d start/finish pairs: %s", n, targets, pairs, desc)
	}
	// 3. data and stage order
	for i := 0; i < pairs; i++ {
		f := log[2*i+1]
		if f.Bad != "" {
			return fmt.Sprintf("pair #%d: %s (stages %s): %s", i, f.Bad, f.Stages, desc)
		}
		if i < n && handled[i] {
			if f.URI != targets[i] || f.Method != methods[i] {
				return fmt.Sprintf("pair #%d: Finish carries %s %q, the request handled in this pair is %s %q: %s", i, f.Method, f.URI, methods[i], targets[i], desc)
			}
			if !h.Stream && i < len(h.Outcomes) && h.Outcomes[i] == oHijack && f.Body != hijackBody {
				return fmt.Sprintf("pair #%d: the Finish of the hijacked request %q carries the body %.40q..., the request's body is %.40q...: %s", i, f.URI, f.Body, hijackBody, desc)
			}
		}
		// the error a Finish carries is that of its own exchange: a request that was served without
		// any error must not show the error of an earlier exchange that used the same (pooled) context
		if i < len(h.Outcomes) && h.Outcomes[i] == oOK && f.Err != "" {
			return fmt.Sprintf("pair #%d: request %s %q was served without error, but the tracer's Finish sees Stats().Error()=%q (left over from an earlier exchange on the recycled context): %s", i, f.Method, f.URI, f.Err, desc)
		}
	}
	return ""
}

func describe(log []call) string {
	var sb strings.Builder
	for _, c := range log {
		if c.Kind == "S" {
			sb.WriteString("S ")
		} else {
			fmt.Fprintf(&sb, "F(%s %s) ", c.Method, c.URI)
		}
	}
	return sb.String()
}

func genHistory(t *rapid.T) *History {
	h := &History{Stream: rapid.Bool().Draw(t, "streaming"), Level: rapid.IntRange(0, 2).Draw(t, "level"), Idle0: rapid.IntRange(0, 3).Draw(t, "idle0") == 0}
	k := rapid.IntRange(0, 5).Draw(t, "nReqs")
	for i := 0; i < k; i++ {
		o := oOK
		if rapid.IntRange(0, 2).Draw(t, "special") > 0 {
			o = rapid.IntRange(0, nOutcomes-1).Draw(t, "outcome")
		}
		h.Outcomes = append(h.Outcomes, o)
		h.Names = append(h.Names, outcomeNames[o])
	}
	h.End = rapid.SampledFrom([]string{"eof", "eof", "timeout", "close"}).Draw(t, "end")
	hijackCut = 0
	stream, _, _, _ := build(h)
	if rapid.Bool().Draw(t, "segmented") {
		h.Cuts = gen.Cuts(t, len(stream), nil)
		if len(h.Cuts) > 40 {
			h.Cuts = h.Cuts[:40]
		}
	} else if hijackCut > 0 && rapid.Bool().Draw(t, "peerTalksAfterTheHijackedResponse") {
		// what the peer says to the hijack handler arrives with a later read
		h.Cuts = []int{hijackCut}
	}
	return h
}

func classify(h *History) (bool, []string) {
	cls := []string{fmt.Sprintf("reqs-%d", len(h.Outcomes)), "end-" + h.End, fmt.Sprintf("level-%d", h.Level)}
	if h.Idle0 {
		cls = append(cls, "return-to-poller")
	} else {
		cls = append(cls, "in-loop-idle")
	}
	nt := len(h.Outcomes) >= 2
	for _, o := range h.Outcomes {
		cls = append(cls, "outcome-"+outcomeNames[o])
		if o != oOK {
			nt = true
		}
		if terminating(o) {
			break
		}
	}
	if len(h.Outcomes) >= 1 && h.End != "close" {
		nt = true
	}
	seen := map[string]bool{}
	var out []string
	for _, c := range cls {
		if !seen[c] {
			seen[c] = true
			out = append(out, c)
		}
	}
	return nt, out
}

func TestC19Histories(t *testing.T) {
	rec := ev.New("histories")
	rapid.Check(t, func(t *rapid.T) {
		h := genHistory(t)
		nt, cls := classify(h)
		rec.Case(nt, ev.HashString(fmt.Sprintf("%+v", *h)), cls...)
		if msg := Check(h); msg != "" {
			t.Fatalf("%s\nhistory: %+v", msg, *h)
		}
		if nt && rec.WantSample() {
			rec.Sample(h)
		}
	})
}

// TestC19Exhaustive enumerates all histories of up to 3 requests over the outcome alphabet.
func TestC19Exhaustive(t *testing.T) {
	unit := "exhaustive"
	if os.Getenv("HERTZ_DISABLE_REQUEST_CONTEXT_POOL") == "true" {
		unit = "exhaustive-nopool" // the server loop allocates its request context itself instead of taking it from the engine's pool
	}
	rec := ev.New(unit)
	shard, nshards := ev.Shard()
	var global, evals, nontriv int64
	fails := 0
	maxK := 3
	for k := 0; k <= maxK; k++ {
		total := 1
		for i := 0; i < k; i++ {
			total *= nOutcomes
		}
		for code := 0; code < total; code++ {
			outs := make([]int, k)
			c := code
			skip := false
			for i := 0; i < k; i++ {
				outs[i] = c % nOutcomes
				c /= nOutcomes
			}
			for i := 0; i < k-1; i++ {
				if terminating(outs[i]) {
					skip = true // later requests are never read: same as the shorter history
				}
			}
			if skip {
				continue
			}
			for _, stream := range []bool{false, true} {
				for _, idle0 := range []bool{false, true} {
					for _, end := range []string{"eof", "timeout", "close"} {
						global++
						if global%int64(nshards) != int64(shard) {
							continue
						}
						h := &History{Stream: stream, Level: 2, Idle0: idle0, Outcomes: outs, End: end}
						for _, o := range outs {
							h.Names = append(h.Names, outcomeNames[o])
						}
						evals++
						if nt, _ := classify(h); nt {
							nontriv++
						}
						if msg := Check(h); msg != "" {
							fails++
							ev.Fail(prop, unit, h, msg)
							t.Errorf("%s\nhistory: %+v", msg, *h)
							if fails > 6 {
								rec.Exact(evals, nontriv)
								return
							}
						}
						if evals%97 == 1 && rec.WantSample() {
							rec.Sample(h)
						}
					}
				}
			}
		}
	}
	rec.Exact(evals, nontriv)
	rec.Exhaustive(fmt.Sprintf("all histories of 0..%d requests over %d outcomes (non-final requests non-terminating) x {buffered, streaming} x {in-loop idle, return-to-poller} x end {peer EOF, idle timeout, Connection: close}, trace level detailed, delivered in one read", maxK, nOutcomes))
}

func TestC19Replay(t *testing.T) {
	f := ev.ReplayFile()
	if f == "" {
		t.Skip("no replay file")
	}
	var h History
	if err := ev.LoadReplay(f, &h); err != nil {
		t.Fatal(err)
	}
	if msg := Check(&h); msg != "" {
		ev.Fail(prop, "replay", &h, msg)
		t.Fatal(msg)
	}
}
