package c19

import (
	"bufio"
	"context"
	"fmt"
	"io"
	"net"
	"strings"
	"sync"
	"testing"
	"time"

	"runtime"

	"github.com/cloudwego/hertz/pkg/app"
	"github.com/cloudwego/hertz/pkg/app/server"
	"github.com/cloudwego/hertz/pkg/network/standard"

	"verifharness/ev"
)

// farLogger is the tracer under observation: at Finish it looks at the body of the
// request it is told about.
type farLogger struct {
	mu    sync.Mutex
	bodyA []string
}

func (tr *farLogger) Start(ctx context.Context, c *app.RequestContext) context.Context {
	return ctx
}

func (tr *farLogger) Finish(ctx context.Context, c *app.RequestContext) {
	if string(c.Request.URI().Path()) != "/a" {
		return
	}
	b := string(c.Request.Body())
	tr.mu.Lock()
	tr.bodyA = append(tr.bodyA, b)
	tr.mu.Unlock()
}

func (tr *farLogger) count() int {
	tr.mu.Lock()
	defer tr.mu.Unlock()
	return len(tr.bodyA)
}

// farSlow is registered behind farLogger, so its Finish runs first (reverse order):
// a tracer that takes a while (an exporter, a lock).
type farSlow struct {
	inFinish chan struct{}
	release  chan struct{}
}

func (tr *farSlow) Start(ctx context.Context, c *app.RequestContext) context.Context {
	return ctx
}

func (tr *farSlow) Finish(ctx context.Context, c *app.RequestContext) {
	if string(c.Request.URI().Path()) != "/a" {
		return
	}
	tr.inFinish <- struct{}{}
	<-tr.release
}

func farFreeAddr(t *testing.T) string {
	ln, err := net.Listen("tcp", "127.0.0.1:0")
	if err != nil {
		t.Fatal(err)
	}
	defer ln.Close()
	return ln.Addr().String()
}

func farReadResponse(br *bufio.Reader) (string, error) {
	cl := 0
	status := ""
	for {
		line, err := br.ReadString('\n')
		if err != nil {
			return status, err
		}
		if status == "" {
			status = strings.TrimSpace(line)
		}
		l := strings.ToLower(line)
		if strings.HasPrefix(l, "content-length:") {
			fmt.Sscanf(strings.TrimSpace(l[len("content-length:"):]), "%d", &cl)
		}
		if line == "\r\n" {
			break
		}
	}
	_, err := io.CopyN(io.Discard, br, int64(cl))
	return status, err
}

func farSendChunked(c net.Conn, path, body string) {
	fmt.Fprintf(c, "POST %s HTTP/1.1\r\nHost: x\r\nTransfer-Encoding: chunked\r\n\r\n%x\r\n%s\r\n0\r\n\r\n", path, len(body), body)
}

func farWait(h *server.Hertz) {
	for i := 0; i < 200 && !h.IsRunning(); i++ {
		time.Sleep(10 * time.Millisecond)
	}
	time.Sleep(50 * time.Millisecond)
}

// TestC19FinishAfterRelease: stream mode. The Finish of a request can reach, through the request it is told
// about, only that request: after the exchange on connection A is over and while A's trace is still being
// finished (a second tracer, finished first, takes its time), connection B's request is read and its handler
// starts. A's Finish then reads "its" request body: it must not get B's bytes (the pooled body stream object,
// released before Finish and re-armed for B), and B's handler must find its own body. Ordering is by channels.
func TestC19FinishAfterRelease(t *testing.T) {
	rec := ev.New("finish-after-release")
	defer runtime.GOMAXPROCS(runtime.GOMAXPROCS(1)) // the released object goes to this P's pool slot

	logger := &farLogger{}
	slow := &farSlow{inFinish: make(chan struct{}, 1)}
	addr := farFreeAddr(t)
	h := server.New(server.WithHostPorts(addr), server.WithTracer(logger), server.WithTracer(slow),
		server.WithTransport(standard.NewTransporter), server.WithStreamBody(true),
		server.WithExitWaitTime(100*time.Millisecond))
	bIn := make(chan struct{}, 1)
	var bGo chan struct{}
	bBody := make(chan string, 1)
	h.POST("/a", func(c context.Context, ctx *app.RequestContext) {
		// a streaming handler: the body goes where it has to go, piece by piece
		io.Copy(io.Discard, ctx.RequestBodyStream()) //nolint:errcheck
		ctx.String(200, "ok")
	})
	h.POST("/b", func(c context.Context, ctx *app.RequestContext) {
		bIn <- struct{}{}
		<-bGo
		b, _ := io.ReadAll(ctx.RequestBodyStream())
		bBody <- string(b)
		ctx.String(200, "ok")
	})
	go h.Spin()
	farWait(h)
	defer func() {
		ctx, cancel := context.WithTimeout(context.Background(), time.Second)
		defer cancel()
		h.Shutdown(ctx) //nolint:errcheck
	}()

	bodyA := strings.Repeat("A", 64)
	bodyB := strings.Repeat("B", 64)
	for round := 0; round < 12; round++ {
		rec.Case(true, ev.HashString(fmt.Sprint(round)), "stream-mode-two-connections")
		slow.release = make(chan struct{})
		bGo = make(chan struct{})

		ca, err := net.Dial("tcp", addr)
		if err != nil {
			t.Fatal(err)
		}
		ca.SetDeadline(time.Now().Add(10 * time.Second))
		farSendChunked(ca, "/a", bodyA)
		if st, err := farReadResponse(bufio.NewReader(ca)); err != nil || !strings.Contains(st, "200") {
			t.Fatalf("connection A: %q %v", st, err)
		}
		<-slow.inFinish // the exchange on A is over, its trace is being finished

		cb, err := net.Dial("tcp", addr)
		if err != nil {
			t.Fatal(err)
		}
		cb.SetDeadline(time.Now().Add(10 * time.Second))
		farSendChunked(cb, "/b", bodyB)
		<-bIn // B's request was read as far as its body, its handler runs

		before := logger.count()
		close(slow.release) // the slow tracer is done, the logger's Finish for /a follows
		for i := 0; i < 2000 && logger.count() == before; i++ {
			time.Sleep(time.Millisecond)
		}
		if logger.count() == before {
			t.Fatal("no Finish for /a")
		}
		close(bGo) // B's handler reads its body now
		var gotB string
		select {
		case gotB = <-bBody:
		case <-time.After(5 * time.Second):
			t.Fatal("B's handler did not return from reading its body")
		}
		farReadResponse(bufio.NewReader(cb)) //nolint:errcheck
		ca.Close()
		cb.Close()

		logger.mu.Lock()
		gotA := logger.bodyA[len(logger.bodyA)-1]
		logger.mu.Unlock()
		if strings.Contains(gotA, "B") || gotB != bodyB {
			msg := fmt.Sprintf("round %d: the Finish of the request to /a (body sent: 64 x 'A') carries the body %q; the handler of the request to /b on the other connection (body sent: 64 x 'B') read %q", round, gotA, gotB)
			ev.Fail(prop, "finish-after-release", map[string]int{"round": round}, msg)
			t.Fatalf("%s", msg)
		}
	}
}
