package c10

import (
	"context"
	"crypto/tls"
	"fmt"
	"net"
	"sync/atomic"
	"testing"
	"time"

	"github.com/cloudwego/hertz/pkg/app/client/retry"
	"github.com/cloudwego/hertz/pkg/common/config"
	"github.com/cloudwego/hertz/pkg/network"
	"github.com/cloudwego/hertz/pkg/network/netpoll"
	"github.com/cloudwego/hertz/pkg/network/standard"
	"github.com/cloudwego/hertz/pkg/protocol"
	"github.com/cloudwego/hertz/pkg/protocol/http1"

	"verifharness/ev"
	"verifharness/loadsense"
)

// TestC10RealDialers: the timeout clause with the dialers hertz ships (netpoll is the default on
// Linux, standard everywhere else), over a real loopback TCP connection. The peer does not stall completely: it
// trickles the response, a few bytes at intervals shorter than the timeout, for much longer than the
// timeout. "However the peer stalls", a call given a request timeout (or a read timeout) returns no
// later than that timeout plus slack.
//
// On the current tree the netpoll dialer's connection restarts its read timeout with every blocking
// read, so a trickling peer holds the call for as long as it likes: known finding D66.
func TestC10RealDialers(t *testing.T) {
	rec := ev.New("real-dialers")
	const (
		timeout  = 300 * time.Millisecond
		interval = 120 * time.Millisecond
		trickle  = 2500 * time.Millisecond
	)
	var known int64
	for di, d := range []struct {
		name   string
		dialer network.Dialer
	}{{"standard", standard.NewDialer()}, {"netpoll", netpoll.NewDialer()}} {
		for mi, mode := range []string{"request-timeout", "read-timeout"} {
			_, _ = di, mi
			ln, err := net.Listen("tcp", "127.0.0.1:0")
			if err != nil {
				t.Fatalf("listen: %v", err)
			}
			sock := ln.Addr().String()
			var peerDone int32
			go func() {
				c, err := ln.Accept()
				if err != nil {
					return
				}
				defer c.Close()
				buf := make([]byte, 4096)
				c.Read(buf) //nolint:errcheck
				resp := "HTTP/1.1 200 OK\r\nContent-Length: 40\r\nX-Pad: " + "ppppppppppppppppppppppppppppppppppppppppppppppppppp" + "\r\n\r\n0123456789012345678901234567890123456789"
				start := time.Now()
				for i := 0; i < len(resp) && time.Since(start) < trickle; i += 4 {
					end := i + 4
					if end > len(resp) {
						end = len(resp)
					}
					if _, err := c.Write([]byte(resp[i:end])); err != nil {
						break
					}
					time.Sleep(interval)
				}
				atomic.StoreInt32(&peerDone, 1)
			}()
			opts := &http1.ClientOptions{Dialer: d.dialer, MaxConns: 1, DialTimeout: time.Second}
			hc := http1.NewHostClient(opts).(*http1.HostClient)
			hc.Addr = sock
			req, resp := protocol.AcquireRequest(), protocol.AcquireResponse()
			req.SetRequestURI("http://example.com/trickle")
			if mode == "request-timeout" {
				req.SetOptions(config.WithRequestTimeout(timeout), config.WithDialTimeout(time.Second))
			} else {
				req.SetOptions(config.WithReadTimeout(timeout), config.WithDialTimeout(time.Second))
			}
			probe := loadsense.Start()
			var maxLate int64
			stop := make(chan struct{})
			go func() {
				for {
					select {
					case <-stop:
						return
					default:
					}
					t0 := time.Now()
					time.Sleep(time.Millisecond)
					if l := int64(time.Since(t0) - time.Millisecond); l > atomic.LoadInt64(&maxLate) {
						atomic.StoreInt64(&maxLate, l)
					}
				}
			}()
			t0 := time.Now()
			err = hc.Do(context.Background(), req, resp)
			el := time.Since(t0)
			close(stop)
			ln.Close()
			hc.CloseIdleConnections()
			late := time.Duration(atomic.LoadInt64(&maxLate))
			rec.Case(true, ev.HashString(d.name, mode), "dialer-"+d.name, "mode-"+mode)
			if late > 100*time.Millisecond || probe.Stalled() > 0.9 {
				rec.Class("verdict-dropped-machine-overloaded", 1)
				continue
			}
			// the peer needs 2.5 s to deliver; a call bounded by 300 ms is back long before 1.3 s
			if el > timeout+time.Second {
				msg := fmt.Sprintf("%s dialer, %s of %v, peer trickling 4 bytes every %v: Do returned after %v (err=%v): the timeout does not bound the call", d.name, mode, timeout, interval, el, err)
				if d.name == "netpoll" && ev.ReportKnown(prop, "D66") {
					known++
					continue
				}
				ev.Fail(prop, "real-dialers", map[string]string{"dialer": d.name, "mode": mode}, msg)
				t.Errorf("%s", msg)
			}
		}
	}
	rec.Excluded("D66-netpoll-dialer-timeout-restarts-with-every-read", known)
}

// TestC10TLSStall: the timeout clause over TLS (the standard dialer is the only one that does TLS). The
// peer accepts the TCP connection and says nothing at all: the client's handshake waits for a ServerHello
// that never comes. A call given a request timeout, or read and write timeouts, returns no later than
// that timeout plus slack; the same stall on a plain connection is the control.
func TestC10TLSStall(t *testing.T) {
	rec := ev.New("tls-stall")
	const timeout = 300 * time.Millisecond
	const hold = 3 * time.Second
	for _, tlsOn := range []bool{false, true} {
		for _, mode := range []string{"request-timeout", "read-write-timeouts", "read-timeout"} {
			ln, err := net.Listen("tcp", "127.0.0.1:0")
			if err != nil {
				t.Fatalf("listen: %v", err)
			}
			go func() {
				c, err := ln.Accept()
				if err != nil {
					return
				}
				time.Sleep(hold) // accepts and stalls
				c.Close()
			}()
			opts := &http1.ClientOptions{Dialer: standard.NewDialer(), MaxConns: 1, DialTimeout: time.Second}
			if tlsOn {
				opts.TLSConfig = &tls.Config{InsecureSkipVerify: true} //nolint:gosec
			}
			hc := http1.NewHostClient(opts).(*http1.HostClient)
			hc.Addr = ln.Addr().String()
			hc.IsTLS = tlsOn
			req, resp := protocol.AcquireRequest(), protocol.AcquireResponse()
			scheme := "http"
			if tlsOn {
				scheme = "https"
			}
			req.SetRequestURI(scheme + "://example.com/stall")
			switch mode {
			case "request-timeout":
				req.SetOptions(config.WithRequestTimeout(timeout), config.WithDialTimeout(time.Second))
			case "read-timeout":
				req.SetOptions(config.WithReadTimeout(timeout), config.WithDialTimeout(time.Second))
			default:
				req.SetOptions(config.WithReadTimeout(timeout), config.WithWriteTimeout(timeout), config.WithDialTimeout(time.Second))
			}
			probe := loadsense.Start()
			t0 := time.Now()
			done := make(chan error, 1)
			go func() { done <- hc.Do(context.Background(), req, resp) }()
			var callErr error
			var el time.Duration
			select {
			case callErr = <-done:
				el = time.Since(t0)
			case <-time.After(hold + 2*time.Second):
				el = time.Since(t0)
				callErr = fmt.Errorf("(the call had not returned after %v)", el)
			}
			ln.Close()
			rec.Case(true, ev.HashString(fmt.Sprint(tlsOn), mode), map[bool]string{true: "tls", false: "plain"}[tlsOn], mode)
			if callErr == nil {
				t.Errorf("tls=%v %s: the call succeeded against a peer that never answers", tlsOn, mode)
				continue
			}
			if el > timeout+1500*time.Millisecond && probe.Stalled() < loadsense.Busy {
				msg := fmt.Sprintf("tls=%v %s: a peer that accepts the connection and then stalls held the call for %v (timeout %v, the machine was not short of CPU); it returned %v", tlsOn, mode, el, timeout, callErr)
				ev.Fail(prop, "tls-stall", map[string]interface{}{"tls": tlsOn, "mode": mode}, msg)
				t.Errorf("%s", msg)
			}
		}
	}
}

// TestC10RetryPause: a retry policy with a pause between attempts (RetryConfig.Delay) and a custom
// RetryIf. The pause is part of the call: "a call given a request timeout returns no later than that
// timeout plus slack", also when the time is spent sleeping between attempts. The peer closes before the
// first response byte, every time. The sleep is a hard lower bound, no load explains a late return.
func TestC10RetryPause(t *testing.T) {
	rec := ev.New("retry-pause")
	const timeout = 300 * time.Millisecond
	for _, delay := range []time.Duration{50 * time.Millisecond, 2 * time.Second} {
		ln, err := net.Listen("tcp", "127.0.0.1:0")
		if err != nil {
			t.Fatalf("listen: %v", err)
		}
		var accepted int32
		go func() {
			for {
				c, err := ln.Accept()
				if err != nil {
					return
				}
				atomic.AddInt32(&accepted, 1)
				buf := make([]byte, 4096)
				c.Read(buf) //nolint:errcheck
				c.Close()
			}
		}()
		opts := &http1.ClientOptions{Dialer: standard.NewDialer(), MaxConns: 2, DialTimeout: time.Second,
			RetryConfig: &retry.Config{MaxAttemptTimes: 3, Delay: delay, DelayPolicy: retry.FixedDelayPolicy},
			RetryIfFunc: func(req *protocol.Request, resp *protocol.Response, err error) bool { return err != nil }}
		hc := http1.NewHostClient(opts).(*http1.HostClient)
		hc.Addr = ln.Addr().String()
		req, resp := protocol.AcquireRequest(), protocol.AcquireResponse()
		req.SetRequestURI("http://example.com/flaky")
		req.SetOptions(config.WithRequestTimeout(timeout), config.WithDialTimeout(time.Second))
		probe := loadsense.Start()
		t0 := time.Now()
		callErr := hc.Do(context.Background(), req, resp)
		el := time.Since(t0)
		ln.Close()
		rec.Case(true, ev.HashString(delay.String()), "retry-delay-"+delay.String())
		if callErr == nil {
			t.Errorf("delay %v: the call succeeded against a peer that closes every connection", delay)
			continue
		}
		if el > timeout+1500*time.Millisecond && (delay >= time.Second || probe.Stalled() < loadsense.Busy) {
			msg := fmt.Sprintf("RetryConfig{MaxAttemptTimes: 3, Delay: %v}: a call with a request timeout of %v returned after %v (%d connections accepted by the peer), error %v: the pauses between the attempts are not bounded by the request timeout", delay, timeout, el, atomic.LoadInt32(&accepted), callErr)
			ev.Fail(prop, "retry-pause", map[string]interface{}{"delay": delay.String()}, msg)
			t.Errorf("%s", msg)
		}
		if hc.PendingRequests() != 0 {
			t.Errorf("delay %v: PendingRequests()=%d after the call returned", delay, hc.PendingRequests())
		}
	}
}

// TestC10HelperLateWrite: GetTimeout / GetDeadline let the exchange go on behind the caller (documented). A
// dst buffer the caller passed is the caller's again once the call has returned errTimeout: the late
// response must not be read into it ("the response returned to a caller is the response to that caller's
// request" also for the next call that is given the same buffer).
func TestC10HelperLateWrite(t *testing.T) {
	rec := ev.New("helper-late-write")
	for _, lateMs := range []int{150, 300} {
		ln, err := net.Listen("tcp", "127.0.0.1:0")
		if err != nil {
			t.Fatalf("listen: %v", err)
		}
		go func() {
			for {
				c, err := ln.Accept()
				if err != nil {
					return
				}
				go func(c net.Conn) {
					defer c.Close()
					buf := make([]byte, 4096)
					c.Read(buf) //nolint:errcheck
					time.Sleep(time.Duration(lateMs) * time.Millisecond)
					c.Write([]byte("HTTP/1.1 200 OK\r\nContent-Length: 16\r\n\r\nSLOW-SLOW-SLOW-A")) //nolint:errcheck
				}(c)
			}
		}()
		hc := http1.NewHostClient(&http1.ClientOptions{Dialer: standard.NewDialer(), MaxConns: 4, DialTimeout: time.Second}).(*http1.HostClient)
		hc.Addr = ln.Addr().String()
		dst := make([]byte, 0, 64)
		_, _, callErr := hc.GetTimeout(context.Background(), dst, "http://example.com/slow", 60*time.Millisecond)
		rec.Case(true, ev.HashString(fmt.Sprint(lateMs)), fmt.Sprintf("response-%dms-late", lateMs))
		if callErr == nil {
			ln.Close()
			continue // the machine was slow enough for the response to arrive in time: no verdict
		}
		mine := dst[:16]
		copy(mine, "caller-owned-dat")
		time.Sleep(time.Duration(lateMs+250) * time.Millisecond)
		ln.Close()
		if string(mine) != "caller-owned-dat" {
			msg := fmt.Sprintf("GetTimeout returned %v; %d ms later the caller's buffer, reused by the caller, reads %q: the exchange left behind wrote its response into memory the call had handed back", callErr, lateMs+250, mine)
			ev.Fail(prop, "helper-late-write", map[string]interface{}{"late_ms": lateMs}, msg)
			t.Errorf("%s", msg)
		}
	}
}

// TestC10WaiterFreshConn: MaxConns 1 with waiting enabled; more callers than connections; the peer reads every
// request and closes without a byte. A connection that is dialed for a queued waiter has never been idle in
// the pool: a failure on it ends the call (it is no keep-alive race), it is not repeated without limit. The
// verdict is a count: the number of requests the peer received for 3 calls. An unbounded repetition shows
// as hundreds of requests within the observation window; the window itself decides nothing.
func TestC10WaiterFreshConn(t *testing.T) {
	rec := ev.New("waiter-fresh-conn")
	for _, d := range []struct {
		name   string
		dialer network.Dialer
	}{{"standard", standard.NewDialer()}, {"netpoll", netpoll.NewDialer()}} {
		for _, lag := range []time.Duration{0, 3 * time.Millisecond} {
			ln, err := net.Listen("tcp", "127.0.0.1:0")
			if err != nil {
				t.Fatalf("listen: %v", err)
			}
			var requests int32
			go func() {
				for {
					c, err := ln.Accept()
					if err != nil {
						return
					}
					go func() {
						buf := make([]byte, 4096)
						if n, _ := c.Read(buf); n > 0 {
							atomic.AddInt32(&requests, 1)
						}
						time.Sleep(lag)
						c.Close()
					}()
				}
			}()
			opts := &http1.ClientOptions{Dialer: d.dialer, MaxConns: 1, MaxConnWaitTimeout: 300 * time.Millisecond, DialTimeout: time.Second, ReadTimeout: 200 * time.Millisecond}
			hc := http1.NewHostClient(opts).(*http1.HostClient)
			hc.Addr = ln.Addr().String()
			const callers = 3
			var returned int32
			for i := 0; i < callers; i++ {
				go func() {
					req, resp := protocol.AcquireRequest(), protocol.AcquireResponse()
					req.SetRequestURI("http://example.com/x")
					hc.Do(context.Background(), req, resp) //nolint:errcheck
					atomic.AddInt32(&returned, 1)
				}()
			}
			deadline := time.Now().Add(3 * time.Second)
			for time.Now().Before(deadline) && atomic.LoadInt32(&returned) < callers && atomic.LoadInt32(&requests) < 200 {
				time.Sleep(10 * time.Millisecond)
			}
			got, back := atomic.LoadInt32(&requests), atomic.LoadInt32(&returned)
			ln.Close()
			rec.Case(true, ev.HashString(d.name, lag.String()), "dialer-"+d.name)
			// each call may repeat once or twice on a connection that really came out of the pool
			if got > 40 {
				msg := fmt.Sprintf("%s dialer, peer closes %v after each request: %d requests received for %d calls, %d of them returned: a connection dialed for a queued waiter is treated as a pooled one and the call is repeated without limit", d.name, lag, got, callers, back)
				ev.Fail(prop, "waiter-fresh-conn", map[string]interface{}{"dialer": d.name, "lag": lag.String()}, msg)
				t.Errorf("%s", msg)
			}
		}
	}
}
