//go:build race

package c10

const raceBuild = true
