package c10

import (
	"context"
	"errors"
	"fmt"
	"io"
	"net"
	"os"
	"runtime"
	"strings"
	"sync"
	"sync/atomic"
	"testing"
	"time"

	"github.com/cloudwego/hertz/pkg/common/config"
	"github.com/cloudwego/hertz/pkg/protocol"
	"github.com/cloudwego/hertz/pkg/protocol/http1"
	"pgregory.net/rapid"

	"verifharness/cli"
	"verifharness/ev"
	"verifharness/wire"
)

const prop = "C10"

// H2: the host client calls verifYield at the lock boundaries of its pool (build tag verif). The
// table of the running plan decides what happens at the n-th such point: nothing, a Gosched, or a
// short sleep; the table is drawn by rapid, so the perturbation is part of the (shrinkable) case.
var yieldTable atomic.Value // []int
var yieldCounter uint32

// widenClose: histories that call CloseIdleConnections concurrently hold every close for a moment
// (between giving the slot back and closing the socket), so that releases land while idle
// connections are being closed.
var widenClose int32

func yieldPoint(point string) {
	if point == "close:afterDec" && atomic.LoadInt32(&widenClose) != 0 {
		time.Sleep(200 * time.Microsecond)
	}
	tb, _ := yieldTable.Load().([]int)
	if len(tb) == 0 {
		return
	}
	switch tb[int(atomic.AddUint32(&yieldCounter, 1))%len(tb)] {
	case 1:
		runtime.Gosched()
	case 2:
		time.Sleep(20 * time.Microsecond)
	case 3:
		time.Sleep(300 * time.Microsecond)
	case 4:
		time.Sleep(2 * time.Millisecond)
	}
}

func TestMain(m *testing.M) {
	http1.VerifYield = yieldPoint
	code := m.Run()
	ev.Flush()
	os.Exit(code)
}

const (
	fOK = iota
	fOKClose
	fOKSilentClose
	fCloseBeforeFirstByte
	fCloseMidHeader
	fCloseMidBody
	fStall
	fContinue100
	fSilentCloseThenStall
	fCloseAfterLastChunk
	fCloseMidTrailer
	nFaults
)

var faultNames = []string{"ok", "ok+Connection:close", "ok-then-silent-close", "close-before-first-byte", "close-mid-header", "close-mid-body", "stall-past-read-timeout", "100-continue-then-ok", "silent-180ms-then-close;stall-when-repeated", "chunked-body-complete-then-close-before-the-final-CRLF", "chunked-body-complete-then-close-inside-a-trailer-line"}

const (
	readTimeout = 40 * time.Millisecond
	reqTimeout  = 300 * time.Millisecond // whole-request timeout of calls planned with ReqTimeout
	silentTime  = 180 * time.Millisecond // fSilentCloseThenStall: silent for this long, then closes without a byte
	tightSlack  = 100 * time.Millisecond // used for the request-timeout verdict, only while the heartbeat is below quietBeat
	quietBeat   = 20 * time.Millisecond
	stallTime   = 130 * time.Millisecond
	slack       = 2 * time.Second
	// Timing verdicts (a call with a read timeout returns within timeout + slack; all calls return
	// within 30 s) are only drawn when the scheduler was demonstrably responsive during the history:
	// the heartbeat's worst wake-up lateness must stay below this, otherwise the history counts as
	// inconclusive for timing (all other invariants are still checked).
	overloaded   = 250 * time.Millisecond
	inconclusive = "TIMING-INCONCLUSIVE"
)

// ReqPlan is one planned call.
type ReqPlan struct {
	ID         string `json:"id"`
	Method     string `json:"method"`
	Fault      int    `json:"fault"`
	FaultN     string `json:"fault_name"`
	Timeout    bool   `json:"read_timeout_40ms"`
	ReqTimeout bool   `json:"request_timeout_300ms"`
	API        string `json:"api,omitempty"` // "" = Do, "GetTimeout" = HostClient.GetTimeout (40 ms / 300 ms / 2 s)
	Ctx        string `json:"ctx"`           // "live", "cancelled-before", "cancelled-during"
	PreDelay   int    `json:"pre_delay_us"`
	CloseForm  int    `json:"close_form,omitempty"` // fault ok+Connection:close: which spelling of the header the peer uses (closeForms)
	BodySize   int    `json:"body_size,omitempty"`  // 0 = the short body "id=<id>"; otherwise the response body is padded to this many bytes
}

// closeForms: ways in which a response says that the connection ends with this exchange. Connection
// options are a comma-separated list of case-insensitive tokens, possibly spread over several lines.
var closeForms = []string{
	"Connection: close\r\n",
	"Connection: Close\r\n",
	"Connection: CLOSE\r\n",
	"Connection: close, x-foo\r\n",
	"Connection: x-foo, close\r\n",
	"Connection: close\r\nConnection: x-foo\r\n",
	"Connection: x-foo\r\nConnection: close\r\n",
}

type Plan struct {
	MaxConns          int         `json:"max_conns"`
	WaitTimeout       int         `json:"max_conn_wait_timeout_ms"`
	Goroutines        [][]ReqPlan `json:"goroutines"`
	MaxConnDurationMs int         `json:"max_conn_duration_ms,omitempty"`         // 0 = unlimited; on older connections the client announces Connection: close
	CloseIdleAtUs     []int       `json:"close_idle_connections_at_us,omitempty"` // CloseIdleConnections() is called from another goroutine at these offsets
	DialFaults        []int       `json:"dial_faults"`                            // per dial: 0 ok, 1 error, 2 slow
	Stream            bool        `json:"response_body_stream,omitempty"`         // the client delivers response bodies as streams (ResponseBodyStream)
	Yields            []int       `json:"yield_table,omitempty"`                  // action at the n-th pool lock boundary (mod len): 0 none, 1 Gosched, 2 20us, 3 300us, 4 2ms
}

// ---------------------------------------------------------------------------
// Scripted peer over in-memory pipes.

type world struct {
	mu         sync.Mutex
	plan       *Plan
	faults     map[string]int
	recv       map[string]int // id -> times received
	method     map[string]string
	violations []string
	dialed     int32
	closed     int32
	open       int32
	dials      int32
	busyPeers  int32
	wg         sync.WaitGroup
	log        []string
	hc         *http1.HostClient
	overshoots int32
	ends       map[int]*clientEnd // conn id -> client end
	announced  map[int]string     // conn id -> id of the request on which the client announced Connection: close
	mustClose  map[int]string     // conn id -> why the exchange on it did not complete cleanly (the peer ended it inside the response)
	bodySize   map[string]int
	maxLate    int64 // worst observed wake-up lateness of the heartbeat (ns)
	// reuse of a connection after a stalled exchange: a violation only if the client's call for
	// the stalled exchange really failed (decided after all calls returned, from the call results —
	// under heavy machine load the 40 ms read deadline can lose the race against the 130 ms stall,
	// the call then succeeds and reusing the connection is legitimate)
	stallReuse []stallReuse
}

type stallReuse struct {
	conn        int
	id, stalled string
}

func (w *world) violate(f string, a ...interface{}) {
	w.mu.Lock()
	if len(w.violations) < 10 {
		w.violations = append(w.violations, fmt.Sprintf(f, a...))
	}
	w.mu.Unlock()
}

// failed records that the exchange on a connection ended inside the response: whatever the caller
// does with what it got, the client must close that connection, not keep it for reuse.
func (w *world) failed(connID int, why string) {
	w.mu.Lock()
	w.mustClose[connID] = why
	w.mu.Unlock()
}

func (w *world) logf(f string, a ...interface{}) {
	w.mu.Lock()
	if len(w.log) < 400 {
		w.log = append(w.log, fmt.Sprintf(f, a...))
	}
	w.mu.Unlock()
}

// clientEnd wraps the client's side of the pipe to observe Close.
type clientEnd struct {
	net.Conn
	w           *world
	once        sync.Once
	connID      int
	localClosed int32
}

// Write emulates TCP: writing to a peer that has already closed succeeds locally (the bytes are
// lost); the failure shows up on the next read. net.Pipe alone would fail the write at once.
func (c *clientEnd) Write(p []byte) (int, error) {
	n, err := c.Conn.Write(p)
	if err != nil && strings.Contains(err.Error(), "closed pipe") && atomic.LoadInt32(&c.localClosed) == 0 {
		return len(p), nil
	}
	return n, err
}

// deadline setters of a TCP socket do not fail because the peer has closed
func (c *clientEnd) SetDeadline(t time.Time) error { return c.maskPeerClosed(c.Conn.SetDeadline(t)) }
func (c *clientEnd) SetReadDeadline(t time.Time) error {
	return c.maskPeerClosed(c.Conn.SetReadDeadline(t))
}
func (c *clientEnd) SetWriteDeadline(t time.Time) error {
	return c.maskPeerClosed(c.Conn.SetWriteDeadline(t))
}

func (c *clientEnd) maskPeerClosed(err error) error {
	if err != nil && strings.Contains(err.Error(), "closed pipe") && atomic.LoadInt32(&c.localClosed) == 0 {
		return nil
	}
	return err
}

func (c *clientEnd) Close() error {
	atomic.StoreInt32(&c.localClosed, 1)
	c.once.Do(func() {
		atomic.AddInt32(&c.w.closed, 1)
		atomic.AddInt32(&c.w.open, -1)
		c.w.logf("conn%d closed by client", c.connID)
	})
	return c.Conn.Close()
}

func (w *world) dial(n int, addr string) (net.Conn, error) {
	d := int(atomic.AddInt32(&w.dials, 1)) - 1
	fault := 0
	if d < len(w.plan.DialFaults) {
		fault = w.plan.DialFaults[d]
	}
	switch fault {
	case 1:
		w.logf("dial %d fails", d)
		return nil, errors.New("scripted dial error")
	case 2:
		time.Sleep(15 * time.Millisecond)
	}
	open := atomic.AddInt32(&w.open, 1)
	// The bound is on the connections the host client counts (dialing + in use + idle). At this
	// point the connection being dialed is already counted, so the gauge must be within the bound
	// here, at the very moment the pool grows. (The number of sockets open at the network level may
	// exceed the bound for an instant: closeConn gives the slot back before it closes the socket.
	// The statement bounds the counted connections, so that overshoot is not a violation; socket
	// conservation is checked at quiescence.)
	if hc := w.hc; hc != nil {
		if st := hc.ConnPoolState(); st.TotalConnNum > w.plan.MaxConns {
			w.violate("connection bound exceeded: ConnPoolState().TotalConnNum=%d at dial %d with MaxConns=%d", st.TotalConnNum, d, w.plan.MaxConns)
		}
	}
	if int(open) > w.plan.MaxConns {
		atomic.AddInt32(&w.overshoots, 1)
	}
	id := int(atomic.AddInt32(&w.dialed, 1))
	cc, sc := net.Pipe()
	w.logf("dial %d -> conn%d (open=%d)", d, id, open)
	w.wg.Add(1)
	go w.peer(id, sc)
	ce := &clientEnd{Conn: cc, w: w, connID: id}
	w.mu.Lock()
	w.ends[id] = ce
	w.mu.Unlock()
	return ce, nil
}

func bodyOf(id string, size int) string {
	body := "id=" + id
	if size > len(body) {
		body += ";" + strings.Repeat("p", size-len(body)-1)
	}
	return body
}

func (w *world) response(id string, extra string) []byte {
	w.mu.Lock()
	size := w.bodySize[id]
	w.mu.Unlock()
	body := bodyOf(id, size)
	return []byte(fmt.Sprintf("HTTP/1.1 200 OK\r\nContent-Length: %d\r\n%s\r\n%s", len(body), extra, body))
}

// peer serves one connection.
func (w *world) peer(connID int, c net.Conn) {
	defer w.wg.Done()
	defer c.Close()
	var buf []byte
	tainted := ""
	pendingTaint := ""
	stalledID := ""
	tmp := make([]byte, 4096)
	for {
		// read one complete request
		var req *wire.ParsedReq
		for {
			r, err := wire.ReadRequest(buf, 0)
			if err == nil {
				req = r
				break
			}
			if !errors.Is(err, wire.ErrIncomplete) {
				w.violate("conn%d: client wrote bytes that are not a well-formed request: %v: %q", connID, err, buf)
				return
			}
			c.SetReadDeadline(time.Now().Add(3 * time.Second)) //nolint:errcheck
			n, rerr := c.Read(tmp)
			buf = append(buf, tmp[:n]...)
			if rerr != nil {
				if len(buf) > 0 && !errors.Is(rerr, os.ErrDeadlineExceeded) {
					// client closed in the middle of a request: allowed (e.g. write timeout), nothing to check
				}
				return
			}
		}
		rest := buf[req.End:]
		ids := wire.Get(req.Headers, "X-Id")
		id := "?"
		if len(ids) == 1 {
			id = ids[0]
		} else if i := strings.Index(req.Target, "?id="); i >= 0 {
			id = req.Target[i+4:] // calls made through GetTimeout carry their id in the query
		}
		atomic.AddInt32(&w.busyPeers, 1)
		w.mu.Lock()
		w.recv[id]++
		fault, known := w.faults[id]
		w.method[id] = req.Method
		w.mu.Unlock()
		w.logf("conn%d: received %s id=%s fault=%s", connID, req.Method, id, faultNames[fault%nFaults])
		if tainted != "" {
			w.violate("conn%d received request id=%s although the connection must not be reused (%s)", connID, id, tainted)
		}
		if stalledID != "" {
			w.mu.Lock()
			w.stallReuse = append(w.stallReuse, stallReuse{connID, id, stalledID})
			w.mu.Unlock()
		}
		if wire.HasToken(req.Headers, "Connection", "close") {
			// the client itself announced that this is the last exchange on the connection (MaxConnDuration)
			w.mu.Lock()
			w.announced[connID] = id
			w.mu.Unlock()
			pendingTaint = "the request id=" + id + " carried Connection: close"
		}
		if len(rest) > 0 {
			w.violate("conn%d: a second request arrived before the first (id=%s) was answered: the connection carries two requests at a time", connID, id)
		}
		if !known {
			fault = fOK
		}
		buf = nil
		done := func() { atomic.AddInt32(&w.busyPeers, -1) }
		switch fault {
		case fOK:
			c.Write(w.response(id, "")) //nolint:errcheck
		case fContinue100:
			c.Write([]byte("HTTP/1.1 100 Continue\r\n\r\n")) //nolint:errcheck
			c.Write(w.response(id, ""))                      //nolint:errcheck
		case fOKClose:
			form := closeForms[0]
			w.mu.Lock()
			for _, g := range w.plan.Goroutines {
				for _, r := range g {
					if r.ID == id {
						form = closeForms[r.CloseForm%len(closeForms)]
					}
				}
			}
			w.mu.Unlock()
			c.Write(w.response(id, form)) //nolint:errcheck
			tainted = fmt.Sprintf("the response to id=%s carried %q", id, form)
		case fOKSilentClose:
			c.Write(w.response(id, "")) //nolint:errcheck
			done()
			return
		case fCloseBeforeFirstByte:
			w.failed(connID, "the peer closed before the first byte of the response to id="+id)
			done()
			return
		case fCloseMidHeader:
			c.Write([]byte("HTTP/1.1 200 OK\r\nContent-Le")) //nolint:errcheck
			w.failed(connID, "the peer closed inside the header of the response to id="+id)
			done()
			return
		case fCloseAfterLastChunk, fCloseMidTrailer:
			// a chunked response whose body is complete; the peer closes where the trailer section
			// should end (or inside a trailer line): the body may be delivered, the connection is dead
			body := bodyOf(id, 0)
			tail := "0\r\n"
			if fault == fCloseMidTrailer {
				tail = "0\r\nX-Sum: 12"
			}
			c.Write([]byte(fmt.Sprintf("HTTP/1.1 200 OK\r\nTransfer-Encoding: chunked\r\nTrailer: X-Sum\r\n\r\n%x\r\n%s\r\n%s", len(body), body, tail))) //nolint:errcheck
			w.failed(connID, "the peer closed where the trailer section of the chunked response to id="+id+" should end")
			done()
			return
		case fCloseMidBody:
			full := w.response(id, "")
			w.mu.Lock()
			size := w.bodySize[id]
			w.mu.Unlock()
			if size == 0 {
				c.Write([]byte("HTTP/1.1 200 OK\r\nContent-Length: 50\r\n\r\nid=" + id)) //nolint:errcheck
			} else {
				c.Write(full[:len(full)-size/2]) //nolint:errcheck
			}
			w.failed(connID, fmt.Sprintf("the peer closed inside the body (%d bytes announced) of the response to id=%s", size, id))
			done()
			return
		case fSilentCloseThenStall:
			w.mu.Lock()
			nth := w.recv[id]
			w.mu.Unlock()
			if nth <= 1 {
				// first receipt: say nothing for a while, then close before the first byte (a stale pooled
				// connection: retryable requests are sent again on another connection)
				time.Sleep(silentTime)
				done()
				return
			}
			// repeated receipt: stall until the client gives up and closes
			c.SetReadDeadline(time.Now().Add(5 * time.Second)) //nolint:errcheck
			c.Read(tmp)                                        //nolint:errcheck
			done()
			return
		case fStall:
			time.Sleep(stallTime)
			w.mu.Lock()
			timeouted := false
			for _, g := range w.plan.Goroutines {
				for _, r := range g {
					if r.ID == id && r.Timeout && r.API == "" {
						timeouted = true // (through GetTimeout only the caller times out; the exchange itself goes on and may complete)
					}
				}
			}
			w.mu.Unlock()
			c.SetWriteDeadline(time.Now().Add(200 * time.Millisecond)) //nolint:errcheck
			c.Write(w.response(id, ""))                                //nolint:errcheck
			if timeouted {
				stalledID = id
			}
		}
		if pendingTaint != "" {
			tainted = pendingTaint
		}
		done()
	}
}

// ---------------------------------------------------------------------------

type callResult struct {
	id      string
	err     error
	body    string
	elapsed time.Duration
}

func runPlan(p *Plan) (string, *world) {
	w := &world{plan: p, faults: map[string]int{}, recv: map[string]int{}, method: map[string]string{}, ends: map[int]*clientEnd{}, announced: map[int]string{}, mustClose: map[int]string{}, bodySize: map[string]int{}}
	for _, g := range p.Goroutines {
		for _, r := range g {
			w.faults[r.ID] = r.Fault
			w.bodySize[r.ID] = r.BodySize
		}
	}
	opts := http1.ClientOptions{MaxConns: p.MaxConns, MaxConnWaitTimeout: time.Duration(p.WaitTimeout) * time.Millisecond, MaxIdleConnDuration: time.Hour, DialTimeout: time.Second,
		MaxConnDuration: time.Duration(p.MaxConnDurationMs) * time.Millisecond, ResponseBodyStream: p.Stream}
	if len(p.CloseIdleAtUs) > 0 {
		atomic.StoreInt32(&widenClose, 1)
	} else {
		atomic.StoreInt32(&widenClose, 0)
	}
	yieldTable.Store(append([]int(nil), p.Yields...))
	atomic.StoreUint32(&yieldCounter, 0)
	cl := cli.New(opts, w.dial)
	hc := cl.HC
	w.hc = hc
	var results []callResult
	var rmu sync.Mutex
	var wg sync.WaitGroup
	stopSample := make(chan struct{})
	defer close(stopSample)
	late := func() time.Duration { return time.Duration(atomic.LoadInt64(&w.maxLate)) }
	go func() {
		for {
			select {
			case <-stopSample:
				return
			default:
			}
			if st := hc.ConnPoolState(); st.TotalConnNum > p.MaxConns {
				w.violate("ConnPoolState().TotalConnNum=%d exceeds MaxConns=%d", st.TotalConnNum, p.MaxConns)
			}
			// the sampler doubles as a scheduling heartbeat: how late does a 200 µs sleep wake up?
			t0 := time.Now()
			time.Sleep(200 * time.Microsecond)
			if late := int64(time.Since(t0)); late > atomic.LoadInt64(&w.maxLate) {
				atomic.StoreInt64(&w.maxLate, late)
			}
		}
	}()
	if len(p.CloseIdleAtUs) > 0 {
		wg.Add(1)
		go func() {
			defer wg.Done()
			start := time.Now()
			for _, at := range p.CloseIdleAtUs {
				if d := time.Duration(at)*time.Microsecond - time.Since(start); d > 0 {
					time.Sleep(d)
				}
				hc.CloseIdleConnections()
				w.logf("CloseIdleConnections() returned")
			}
		}()
	}
	for gi, g := range p.Goroutines {
		wg.Add(1)
		go func(gi int, g []ReqPlan) {
			defer wg.Done()
			for _, r := range g {
				if r.PreDelay > 0 {
					time.Sleep(time.Duration(r.PreDelay) * time.Microsecond)
				}
				req := protocol.AcquireRequest()
				resp := protocol.AcquireResponse()
				req.SetRequestURI("http://example.com/x")
				req.Header.SetMethod(r.Method)
				req.Header.Set("X-Id", r.ID)
				if r.Method != "GET" {
					req.SetBodyString("payload-" + r.ID)
				}
				var ropts []config.RequestOption
				if r.Timeout {
					ropts = append(ropts, config.WithReadTimeout(readTimeout))
				}
				if r.ReqTimeout {
					ropts = append(ropts, config.WithRequestTimeout(reqTimeout))
				}
				if len(ropts) > 0 {
					req.SetOptions(ropts...)
				}
				ctx, cancel := context.WithCancel(context.Background())
				switch r.Ctx {
				case "cancelled-before":
					cancel()
				case "cancelled-during":
					go func() { time.Sleep(5 * time.Millisecond); cancel() }()
				}
				t0 := time.Now()
				var err error
				var getBody []byte
				if r.API == "GetTimeout" {
					// the URL helper: the exchange runs in a goroutine of its own and goes on after the caller timed out
					to := 2 * time.Second
					if r.Timeout {
						to = readTimeout
					} else if r.ReqTimeout {
						to = reqTimeout
					}
					_, getBody, err = hc.GetTimeout(ctx, nil, "http://example.com/x?id="+r.ID, to)
				} else {
					err = hc.Do(ctx, req, resp)
				}
				el := time.Since(t0)
				cancel()
				res := callResult{id: r.ID, err: err, elapsed: el}
				if err == nil {
					// (in stream mode this reads the body stream to its end; a stream that breaks is a failed call)
					b, berr := resp.BodyE()
					res.body = string(b)
					if berr != nil {
						res.err = fmt.Errorf("reading the response body: %w", berr)
					}
					if r.API == "GetTimeout" {
						res.body = string(getBody)
					}
				}
				rmu.Lock()
				results = append(results, res)
				rmu.Unlock()
				w.logf("g%d: %s(%s id=%s) -> err=%v body=%q in %v", gi, map[bool]string{true: "GetTimeout", false: "Do"}[r.API == "GetTimeout"], r.Method, r.ID, err, res.body, el)
				protocol.ReleaseRequest(req)
				protocol.ReleaseResponse(resp)
			}
		}(gi, g)
	}
	finished := make(chan struct{})
	go func() { wg.Wait(); close(finished) }()
	select {
	case <-finished:
	case <-time.After(30 * time.Second):
		if late() > overloaded {
			return fmt.Sprintf("%s: calls did not return within 30 s, but a 200 µs sleep woke up %v late during the history: the machine is too loaded for a timing verdict", inconclusive, late()), w
		}
		return "calls did not return within 30 s (a call with a read timeout or a failing peer must return)", w
	}
	timingOK := late() <= overloaded
	// per-call invariants
	byID := map[string]ReqPlan{}
	for _, g := range p.Goroutines {
		for _, r := range g {
			byID[r.ID] = r
		}
	}
	for _, res := range results {
		r := byID[res.id]
		if res.err == nil && res.body != bodyOf(res.id, r.BodySize) {
			return fmt.Sprintf("call id=%s returned the response %q: not the response to its own request", res.id, res.body), w
		}
		if timingOK && r.Timeout && res.elapsed > readTimeout+slack {
			return fmt.Sprintf("call id=%s with a %v read timeout returned after %v", res.id, readTimeout, res.elapsed), w
		}
		if timingOK && r.ReqTimeout && res.elapsed > reqTimeout+slack {
			return fmt.Sprintf("call id=%s with a %v request timeout returned after %v", res.id, reqTimeout, res.elapsed), w
		}
		// the request timeout covers the whole call, repeated attempts included: with a quiet scheduler
		// (heartbeat never more than quietBeat late) the slack is tight enough to notice a budget that
		// restarts with every attempt (silent 180 ms + a fresh 300 ms = 480 ms)
		if r.ReqTimeout && r.Ctx == "live" && late() <= quietBeat && res.elapsed > reqTimeout+tightSlack {
			return fmt.Sprintf("call id=%s with a %v request timeout returned after %v although the scheduler was never more than %v late: the timeout does not bound the whole call (attempts repeated after a stale pooled connection included)", res.id, reqTimeout, res.elapsed, late()), w
		}
		if r.Ctx == "cancelled-before" && res.err == nil {
			// allowed: nothing in the statement forbids completing; hertz returns ctx.Err()
		}
	}
	w.mu.Lock()
	for _, sr := range w.stallReuse {
		for _, res := range results {
			if res.id == sr.stalled && res.err != nil {
				w.mu.Unlock()
				return fmt.Sprintf("conn%d received request id=%s although the connection must not be reused (the exchange of id=%s failed on the client with %q: the peer stalled past the read timeout)", sr.conn, sr.id, sr.stalled, res.err), w
			}
		}
	}
	for id, n := range w.recv {
		r, ok := byID[id]
		if ok && r.Method == "POST" && n > 1 {
			w.mu.Unlock()
			return fmt.Sprintf("POST id=%s (not safe to repeat) was received %d times by the peer", id, n), w
		}
	}
	if len(w.violations) > 0 {
		v := strings.Join(w.violations, "\n")
		w.mu.Unlock()
		return v, w
	}
	w.mu.Unlock()
	// quiescence
	check := func() string {
		st := hc.ConnPoolState()
		if n := hc.PendingRequests(); n != 0 {
			return fmt.Sprintf("PendingRequests()=%d after all calls returned", n)
		}
		if st.TotalConnNum != st.PoolConnNum {
			return fmt.Sprintf("connections counted (%d) != idle in pool (%d) after all calls returned: a connection is neither idle nor closed", st.TotalConnNum, st.PoolConnNum)
		}
		d, c := int(atomic.LoadInt32(&w.dialed)), int(atomic.LoadInt32(&w.closed))
		if d != c+st.PoolConnNum {
			return fmt.Sprintf("dialed=%d != closed=%d + pooled=%d: a connection leaked", d, c, st.PoolConnNum)
		}
		if atomic.LoadInt32(&w.busyPeers) != 0 {
			return "a peer is still in the middle of an exchange"
		}
		return ""
	}
	deadline := time.Now().Add(3 * time.Second)
	msg := check()
	for msg != "" && time.Now().Before(deadline) {
		time.Sleep(5 * time.Millisecond)
		msg = check()
	}
	if msg != "" {
		if late() > overloaded {
			return fmt.Sprintf("%s: not quiescent after 3 s (%s), but the scheduler was %v late", inconclusive, msg, late()), w
		}
		return "at quiescence: " + msg, w
	}
	// a connection whose exchange ended inside the response must have been closed by the client
	w.mu.Lock()
	for cid, why := range w.mustClose {
		if ce := w.ends[cid]; ce != nil && atomic.LoadInt32(&ce.localClosed) == 0 {
			w.mu.Unlock()
			return fmt.Sprintf("conn%d: %s, yet after all calls returned the client has not closed the connection: it was put back for reuse although its exchange did not complete (response body stream: %v)", cid, why, p.Stream), w
		}
	}
	w.mu.Unlock()
	// a connection on which the client announced Connection: close must have been closed by the client
	w.mu.Lock()
	for cid, rid := range w.announced {
		if ce := w.ends[cid]; ce != nil && atomic.LoadInt32(&ce.localClosed) == 0 {
			w.mu.Unlock()
			return fmt.Sprintf("conn%d: the client sent Connection: close on request id=%s (MaxConnDuration %d ms exceeded) but did not close the connection after the exchange: it is still counted/pooled", cid, rid, p.MaxConnDurationMs), w
		}
	}
	w.mu.Unlock()
	// one clean request sweeps the lazily cleaned waiter queue
	{
		w.mu.Lock()
		w.faults["final"] = fOK
		w.mu.Unlock()
		req := protocol.AcquireRequest()
		resp := protocol.AcquireResponse()
		req.SetRequestURI("http://example.com/final")
		req.Header.Set("X-Id", "final")
		err := hc.Do(context.Background(), req, resp)
		if err != nil {
			// a pooled connection may have been closed silently by the peer: retried for GET; an error here is tolerated only for scripted dial errors
			if !strings.Contains(err.Error(), "scripted dial error") {
				return fmt.Sprintf("final clean request failed: %v", err), w
			}
		} else if string(resp.Body()) != "id=final" {
			return fmt.Sprintf("final clean request got %q", resp.Body()), w
		}
		protocol.ReleaseRequest(req)
		protocol.ReleaseResponse(resp)
	}
	deadline = time.Now().Add(3 * time.Second)
	for {
		st := hc.ConnPoolState()
		msg = check()
		if msg == "" && st.WaitConnNum != 0 {
			msg = fmt.Sprintf("%d waiters still queued after a clean request", st.WaitConnNum)
		}
		if msg == "" || time.Now().After(deadline) {
			break
		}
		time.Sleep(5 * time.Millisecond)
	}
	if msg != "" {
		if late() > overloaded {
			return fmt.Sprintf("%s: not quiescent after 3 s (%s), but the scheduler was %v late", inconclusive, msg, late()), w
		}
		return "at quiescence (after the final clean request): " + msg, w
	}
	w.mu.Lock()
	v := strings.Join(w.violations, "\n")
	w.mu.Unlock()
	hc.CloseIdleConnections()
	return v, w
}

func genPlan(t *rapid.T) *Plan {
	p := &Plan{MaxConns: rapid.IntRange(1, 4).Draw(t, "maxConns"), WaitTimeout: rapid.SampledFrom([]int{0, 30, 300}).Draw(t, "waitTimeout")}
	G := rapid.IntRange(1, 6).Draw(t, "goroutines")
	n := 0
	for g := 0; g < G; g++ {
		M := rapid.IntRange(1, 6).Draw(t, "requests")
		var rs []ReqPlan
		for m := 0; m < M; m++ {
			r := ReqPlan{ID: fmt.Sprintf("g%dr%d", g, m), Method: rapid.SampledFrom([]string{"GET", "PUT", "POST", "POST"}).Draw(t, "method")}
			r.Fault = fOK
			if rapid.IntRange(0, 2).Draw(t, "faulty") == 0 {
				r.Fault = rapid.IntRange(1, nFaults-1).Draw(t, "fault")
			}
			r.FaultN = faultNames[r.Fault]
			r.Timeout = r.Fault == fStall || rapid.IntRange(0, 3).Draw(t, "timeout") == 0
			r.ReqTimeout = rapid.IntRange(0, 4).Draw(t, "reqTimeout") == 0
			if r.Fault == fSilentCloseThenStall {
				r.Timeout, r.ReqTimeout = false, true
			}
			if rapid.IntRange(0, 4).Draw(t, "viaGetTimeout") == 0 {
				// GetTimeout leaves the exchange running after the caller's timeout: only faults that end by themselves
				r.API, r.Method = "GetTimeout", "GET"
				if r.Fault == fSilentCloseThenStall {
					r.Fault, r.FaultN = fStall, faultNames[fStall]
				}
				r.Ctx = "live"
			}
			r.Ctx = rapid.SampledFrom([]string{"live", "live", "live", "live", "cancelled-before", "cancelled-during"}).Draw(t, "ctx")
			r.PreDelay = rapid.SampledFrom([]int{0, 0, 50, 500, 3000}).Draw(t, "preDelay")
			if r.Fault == fOKClose {
				r.CloseForm = rapid.IntRange(0, len(closeForms)-1).Draw(t, "closeForm")
			}
			if r.API == "" {
				r.BodySize = rapid.SampledFrom([]int{0, 0, 0, 100, 8192, 8193, 10000, 20000}).Draw(t, "bodySize")
				if r.Fault == fCloseAfterLastChunk || r.Fault == fCloseMidTrailer {
					r.BodySize = 0
				}
				if r.Fault == fCloseMidBody {
					// the peer sends half of the body: with 20000 or more the cut lies behind the 8 KiB that
					// a streaming client reads before it hands the response to the caller
					r.BodySize = rapid.SampledFrom([]int{0, 10000, 20000, 20000, 40000}).Draw(t, "cutBodySize")
				}
			}
			rs = append(rs, r)
			n++
		}
		p.Goroutines = append(p.Goroutines, rs)
	}
	p.MaxConnDurationMs = rapid.SampledFrom([]int{0, 0, 1, 4}).Draw(t, "maxConnDurationMs")
	p.Stream = rapid.IntRange(0, 2).Draw(t, "responseBodyStream") == 0
	if rapid.IntRange(0, 2).Draw(t, "closeIdleConcurrently") == 0 {
		at := 0
		for i := rapid.IntRange(4, 24).Draw(t, "nCloseIdle"); i > 0; i-- {
			at += rapid.SampledFrom([]int{0, 50, 100, 300, 1000, 3000}).Draw(t, "closeIdleGap")
			p.CloseIdleAtUs = append(p.CloseIdleAtUs, at)
		}
		if p.MaxConns < 3 {
			p.MaxConns = 3 // several idle connections to close while others are being released
		}
	}
	if rapid.IntRange(0, 2).Draw(t, "perturb") > 0 {
		for i := rapid.IntRange(1, 24).Draw(t, "yieldTableLen"); i > 0; i-- {
			p.Yields = append(p.Yields, rapid.SampledFrom([]int{0, 0, 0, 1, 1, 2, 3, 4}).Draw(t, "yield"))
		}
	}
	for i := 0; i < n+4; i++ {
		p.DialFaults = append(p.DialFaults, rapid.SampledFrom([]int{0, 0, 0, 0, 0, 1, 2}).Draw(t, "dialFault"))
	}
	return p
}

func classify(p *Plan) (bool, []string) {
	cls := []string{fmt.Sprintf("maxconns-%d", p.MaxConns), fmt.Sprintf("wait-%dms", p.WaitTimeout), fmt.Sprintf("goroutines-%d", len(p.Goroutines))}
	faults := 0
	for _, g := range p.Goroutines {
		for _, r := range g {
			if r.Fault != fOK {
				faults++
				cls = append(cls, "fault-"+faultNames[r.Fault])
			}
			if r.Fault == fOKClose && r.CloseForm > 0 {
				cls = append(cls, "connection-close-spelled-otherwise")
			}
			if r.Fault == fCloseMidBody && r.BodySize/2 > 8192 && p.Stream {
				cls = append(cls, "streamed-body-cut-behind-the-pre-read-part")
			}
			if r.Ctx != "live" {
				faults++
				cls = append(cls, "ctx-"+r.Ctx)
			}
		}
	}
	for _, d := range p.DialFaults {
		if d == 1 {
			cls = append(cls, "dial-error")
		}
	}
	if len(p.Yields) > 0 {
		cls = append(cls, "schedule-perturbed-at-pool-lock-boundaries")
	}
	if p.Stream {
		cls = append(cls, "response-body-stream")
	}
	if p.MaxConnDurationMs > 0 {
		cls = append(cls, "max-conn-duration")
	}
	if len(p.CloseIdleAtUs) > 0 {
		cls = append(cls, "concurrent-CloseIdleConnections")
	}
	nt := len(p.Goroutines) >= 2 && len(p.Goroutines) > p.MaxConns && faults >= 1
	seen := map[string]bool{}
	var out []string
	for _, x := range cls {
		if !seen[x] {
			seen[x] = true
			out = append(out, x)
		}
	}
	return nt, out
}

func TestC10Histories(t *testing.T) {
	rec := ev.New("histories")
	rapid.Check(t, func(t *rapid.T) {
		p := genPlan(t)
		nt, cls := classify(p)
		rec.Case(nt, ev.HashString(fmt.Sprintf("%+v", *p)), cls...)
		msg, w := runPlan(p)
		if time.Duration(atomic.LoadInt64(&w.maxLate)) > overloaded {
			rec.Class("timing-verdicts-skipped-scheduler-late-over-250ms", 1)
		}
		if strings.HasPrefix(msg, inconclusive) {
			rec.Class("history-abandoned-machine-overloaded", 1)
			t.Logf("%s", msg)
			return
		}
		if msg != "" {
			w.mu.Lock()
			log := strings.Join(w.log, "\n  ")
			w.mu.Unlock()
			t.Fatalf("%s\nplan: %+v\nhistory:\n  %s", msg, *p, log)
		}
		if atomic.LoadInt32(&w.overshoots) > 0 {
			rec.Class("sockets-open-above-bound-for-an-instant-while-a-close-is-in-flight", 1)
		}
		if nt && rec.WantSample() {
			rec.Sample(p)
		}
	})
}

// Saved input (D23): the whole-request timeout also bounds the wait for a free connection.
// MaxConns=1, MaxConnWaitTimeout=300 ms; call A keeps the only connection busy for 700 ms; call B,
// with a 100 ms request timeout, must be back after about 100 ms (it used to wait the full 300 ms).
func TestC10Regress(t *testing.T) {
	rec := ev.New("regress")
	for round := 0; round < 3; round++ {
		var maxLate int64
		stop := make(chan struct{})
		go func() {
			for {
				select {
				case <-stop:
					return
				default:
				}
				t0 := time.Now()
				time.Sleep(200 * time.Microsecond)
				if late := int64(time.Since(t0)); late > atomic.LoadInt64(&maxLate) {
					atomic.StoreInt64(&maxLate, late)
				}
			}
		}()
		dial := func(n int, addr string) (net.Conn, error) {
			cc, sc := net.Pipe()
			go func() {
				defer sc.Close()
				buf := make([]byte, 4096)
				var got []byte
				for {
					n, err := sc.Read(buf)
					got = append(got, buf[:n]...)
					if _, perr := wire.ReadRequest(got, 0); perr == nil {
						break
					}
					if err != nil {
						return
					}
				}
				time.Sleep(700 * time.Millisecond)
				sc.Write([]byte("HTTP/1.1 200 OK\r\nContent-Length: 4\r\n\r\nid=A")) //nolint:errcheck
			}()
			return cc, nil
		}
		cl := cli.New(http1.ClientOptions{MaxConns: 1, MaxConnWaitTimeout: 300 * time.Millisecond, MaxIdleConnDuration: time.Hour, DialTimeout: time.Second}, dial)
		doneA := make(chan error, 1)
		go func() {
			req, resp := protocol.AcquireRequest(), protocol.AcquireResponse()
			req.SetRequestURI("http://example.com/a")
			doneA <- cl.HC.Do(context.Background(), req, resp)
		}()
		time.Sleep(20 * time.Millisecond)
		req, resp := protocol.AcquireRequest(), protocol.AcquireResponse()
		req.SetRequestURI("http://example.com/b")
		req.SetOptions(config.WithRequestTimeout(100 * time.Millisecond))
		t0 := time.Now()
		err := cl.HC.Do(context.Background(), req, resp)
		el := time.Since(t0)
		<-doneA
		close(stop)
		late := time.Duration(atomic.LoadInt64(&maxLate))
		rec.Case(true, ev.HashString("D23", fmt.Sprint(round)), "regress-D23")
		if err == nil {
			ev.Fail(prop, "regress", map[string]string{"case": "D23"}, "call B succeeded although the only connection was busy")
			t.Errorf("D23: call B succeeded although the only connection was busy")
		}
		if late <= quietBeat && el > 100*time.Millisecond+tightSlack {
			msg := fmt.Sprintf("call with a 100 ms request timeout returned after %v (err=%v) although the scheduler was never more than %v late: the wait for a free connection (MaxConnWaitTimeout 300 ms) is not bounded by the request timeout", el, err, late)
			ev.Fail(prop, "regress", map[string]string{"case": "D23"}, msg)
			t.Errorf("D23: %s", msg)
		}
	}
	// "no waiter remains queued" has to be observable: WantConnectionCount on a client that has never queued one
	func() {
		defer func() {
			if r := recover(); r != nil {
				msg := fmt.Sprintf("HostClient.WantConnectionCount() on a client that has never queued a waiter panics: %v", r)
				ev.Fail(prop, "regress", map[string]string{"case": "want-connection-count"}, msg)
				t.Errorf("%s", msg)
			}
		}()
		rec.Case(true, ev.HashString("want-connection-count"), "regress-want-connection-count")
		hc := http1.NewHostClient(&http1.ClientOptions{MaxConns: 1}).(*http1.HostClient)
		if n := hc.WantConnectionCount(); n != 0 {
			t.Errorf("WantConnectionCount() = %d on a new client", n)
		}
	}()
	// The close option on the REQUEST side, in every spelling a list field allows: the peer does what it was asked to
	// (answers without repeating the option, then closes); the connection must not go back to the pool, the next
	// call, a POST that is never repeated, gets a connection of its own.
	for _, form := range []string{"close", "Close", "CLOSE", "TE, close", "close, TE", "keep-alive , Close"} {
		var dials int32
		dial := func(n int, addr string) (net.Conn, error) {
			atomic.AddInt32(&dials, 1)
			cc, sc := net.Pipe()
			go func() {
				defer sc.Close()
				buf := make([]byte, 4096)
				var got []byte
				for {
					n, err := sc.Read(buf)
					got = append(got, buf[:n]...)
					if _, perr := wire.ReadRequest(got, 0); perr == nil {
						break
					}
					if err != nil {
						return
					}
				}
				sc.Write([]byte("HTTP/1.1 200 OK\r\nContent-Length: 2\r\n\r\nok")) //nolint:errcheck
				if strings.Contains(strings.ToLower(string(got)), "close") {
					return // asked to close: closes
				}
				io.Copy(io.Discard, sc) //nolint:errcheck
			}()
			return cc, nil
		}
		cl := cli.New(http1.ClientOptions{MaxConns: 2, MaxIdleConnDuration: time.Hour, DialTimeout: time.Second}, dial)
		req, resp := protocol.AcquireRequest(), protocol.AcquireResponse()
		req.SetRequestURI("http://example.com/a")
		req.Header.Set("Connection", form)
		if strings.Contains(form, "TE") {
			req.Header.Set("TE", "trailers")
		}
		err1 := cl.HC.Do(context.Background(), req, resp)
		time.Sleep(20 * time.Millisecond) // let the peer's close arrive
		req.Reset()
		resp.Reset()
		req.SetRequestURI("http://example.com/b")
		req.Header.SetMethod("POST")
		req.SetBodyString("x")
		err2 := cl.HC.Do(context.Background(), req, resp)
		rec.Case(true, ev.HashString("request-close-option", form), "regress-request-close-option")
		if err1 != nil || err2 != nil || atomic.LoadInt32(&dials) != 2 {
			msg := fmt.Sprintf("request with Connection: %s answered without the option, peer closes: first call err=%v, the POST that follows err=%v, %d connections dialed (want 2): the connection of an exchange whose request said close went back to the pool", form, err1, err2, atomic.LoadInt32(&dials))
			ev.Fail(prop, "regress", map[string]string{"case": "request-close-option", "form": form}, msg)
			t.Errorf("%s", msg)
		}
	}
	// A 101 answer: the connection speaks another protocol from here on, whichever way the upgrade option is spelled
	// in the Connection list. It is never put back; the next request of the host gets a connection of its own.
	for _, form := range []string{"Upgrade", "upgrade", "keep-alive, Upgrade", "Upgrade, keep-alive", "keep-alive\r\nConnection: Upgrade"} {
		var dials int32
		var sawSecondOnFirst int32
		dial := func(n int, addr string) (net.Conn, error) {
			k := atomic.AddInt32(&dials, 1)
			cc, sc := net.Pipe()
			go func() {
				defer sc.Close()
				buf := make([]byte, 4096)
				var got []byte
				for {
					n, err := sc.Read(buf)
					got = append(got, buf[:n]...)
					if _, perr := wire.ReadRequest(got, 0); perr == nil {
						break
					}
					if err != nil {
						return
					}
				}
				if k == 1 {
					sc.Write([]byte("HTTP/1.1 101 Switching Protocols\r\nUpgrade: chat\r\nConnection: " + form + "\r\n\r\n")) //nolint:errcheck
					sc.SetReadDeadline(time.Now().Add(300 * time.Millisecond))                                                //nolint:errcheck
					if n, _ := sc.Read(buf); n > 0 && strings.HasPrefix(string(buf[:n]), "POST ") {
						atomic.StoreInt32(&sawSecondOnFirst, 1)
					}
					return
				}
				sc.Write([]byte("HTTP/1.1 200 OK\r\nContent-Length: 2\r\n\r\nok")) //nolint:errcheck
				io.Copy(io.Discard, sc)                                            //nolint:errcheck
			}()
			return cc, nil
		}
		cl := cli.New(http1.ClientOptions{MaxConns: 2, MaxIdleConnDuration: time.Hour, DialTimeout: time.Second}, dial)
		req, resp := protocol.AcquireRequest(), protocol.AcquireResponse()
		req.SetRequestURI("http://example.com/chat")
		req.Header.Set("Connection", "Upgrade")
		req.Header.Set("Upgrade", "chat")
		err1 := cl.HC.Do(context.Background(), req, resp)
		req2, resp2 := protocol.AcquireRequest(), protocol.AcquireResponse()
		req2.SetRequestURI("http://example.com/b")
		req2.Header.SetMethod("POST")
		req2.SetBodyString("x")
		ctx2, cancel2 := context.WithTimeout(context.Background(), 2*time.Second)
		err2 := cl.HC.Do(ctx2, req2, resp2)
		cancel2()
		time.Sleep(50 * time.Millisecond)
		rec.Case(true, ev.HashString("upgrade-option", form), "regress-101-upgrade-option")
		if err1 != nil || atomic.LoadInt32(&sawSecondOnFirst) != 0 || atomic.LoadInt32(&dials) != 2 || err2 != nil {
			msg := fmt.Sprintf("101 with Connection: %s: first call err=%v; the next request of the host: err=%v, %d connections dialed (want 2), written into the upgraded connection: %v", form, err1, err2, atomic.LoadInt32(&dials), atomic.LoadInt32(&sawSecondOnFirst) != 0)
			ev.Fail(prop, "regress", map[string]string{"case": "101-upgrade-option", "form": form}, msg)
			t.Errorf("%s", msg)
		}
	}
	// Saved inputs D30 (every spelling of the close option) and D31 (streamed body cut behind the
	// pre-read part): one caller, the faulty exchange last on its connection, so that nothing but the
	// client's own decision closes it.
	for form := range closeForms {
		p := &Plan{MaxConns: 1, Goroutines: [][]ReqPlan{{
			{ID: "g0r0", Method: "GET", Fault: fOKClose, FaultN: faultNames[fOKClose], Ctx: "live", CloseForm: form},
			{ID: "g0r1", Method: "POST", Fault: fOK, FaultN: faultNames[fOK], Ctx: "live"},
		}}}
		rec.Case(true, ev.HashString("D30", fmt.Sprint(form)), "regress-D30")
		if msg, w := runPlan(p); msg != "" && !strings.HasPrefix(msg, inconclusive) {
			ev.Fail(prop, "regress", map[string]interface{}{"case": "D30", "plan": p}, msg)
			t.Errorf("D30 %q: %s\n  %s", closeForms[form], msg, strings.Join(w.log, "\n  "))
		}
	}
	for _, size := range []int{10000, 20000, 40000} {
		for _, stream := range []bool{true, false} {
			p := &Plan{MaxConns: 1, Stream: stream, Goroutines: [][]ReqPlan{{
				{ID: "g0r0", Method: "GET", Fault: fOK, FaultN: faultNames[fOK], Ctx: "live", BodySize: size},
				{ID: "g0r1", Method: "GET", Fault: fCloseMidBody, FaultN: faultNames[fCloseMidBody], Ctx: "live", BodySize: size},
			}}}
			rec.Case(true, ev.HashString("D31", fmt.Sprint(size, stream)), "regress-D31")
			if msg, w := runPlan(p); msg != "" && !strings.HasPrefix(msg, inconclusive) {
				ev.Fail(prop, "regress", map[string]interface{}{"case": "D31", "plan": p}, msg)
				t.Errorf("D31 size=%d stream=%v: %s\n  %s", size, stream, msg, strings.Join(w.log, "\n  "))
			}
		}
	}
}
