package c10

import (
	"context"
	"fmt"
	"net"
	"strings"
	"sync"
	"testing"
	"time"

	"github.com/cloudwego/hertz/pkg/protocol/http1"

	"verifharness/cli"
	"verifharness/ev"
	"verifharness/wire"
)

// TestC10GetHelpers: many concurrent HostClient.GetTimeout calls (the URL helpers run the exchange in
// a goroutine of their own, around a pooled response whose body buffer they swap in and out), against
// a peer that cuts every second response inside its body. Every call that succeeds must return the
// body of its own response. A body buffer that one call hands back to the pool while still writing to
// it shows up as another call's empty or foreign body, and under the race detector (this unit is also
// built with -race in the thorough tier) as a data race.
func TestC10GetHelpers(t *testing.T) {
	unit := "get-helpers"
	if raceBuild {
		unit = "get-helpers-race"
	}
	rec := ev.New(unit)
	var mu sync.Mutex
	dial := func(n int, addr string) (net.Conn, error) {
		cc, sc := net.Pipe()
		go func() {
			defer sc.Close()
			buf := make([]byte, 4096)
			var got []byte
			for {
				sc.SetReadDeadline(time.Now().Add(3 * time.Second)) //nolint:errcheck
				n, err := sc.Read(buf)
				got = append(got, buf[:n]...)
				req, perr := wire.ReadRequest(got, 0)
				if perr == nil {
					got = got[req.End:]
					id := ""
					if i := strings.Index(req.Target, "?id="); i >= 0 {
						id = req.Target[i+4:]
					}
					body := "id=" + id + ";" + strings.Repeat("b", 600)
					if strings.HasSuffix(id, "cut") {
						// half of the body, then the connection goes away
						sc.Write([]byte(fmt.Sprintf("HTTP/1.1 200 OK\r\nContent-Length: %d\r\n\r\n%s", len(body), body[:300]))) //nolint:errcheck
						return
					}
					sc.Write([]byte(fmt.Sprintf("HTTP/1.1 200 OK\r\nContent-Length: %d\r\n\r\n%s", len(body), body))) //nolint:errcheck
					continue
				}
				if err != nil {
					return
				}
			}
		}()
		return cc, nil
	}
	// (with ResponseBodyStream a body that breaks inside the part read ahead resets the response while
	// the helper still holds its body buffer)
	cl := cli.New(http1.ClientOptions{MaxConns: 16, MaxIdleConnDuration: time.Hour, DialTimeout: time.Second, ResponseBodyStream: true}, dial)
	const G, M = 12, 60
	var wg sync.WaitGroup
	var fails []string
	okCalls, lastErr := 0, ""
	for g := 0; g < G; g++ {
		wg.Add(1)
		go func(g int) {
			defer wg.Done()
			var prevBody, held []byte
			heldWant := ""
			for m := 0; m < M; m++ {
				id := fmt.Sprintf("g%dm%d", g, m)
				if (g+m)%2 == 0 {
					id += "cut"
				}
				// half of the goroutines hand in a buffer of their own (with capacity), the way the dst
				// parameter is meant to be used: first a fresh one, then the slice the previous call returned
				var dst []byte
				if g%2 == 1 {
					if prevBody != nil {
						dst = prevBody[:0]
					} else {
						dst = make([]byte, 0, 512)
					}
				}
				var body []byte
				var err error
				if g%4 == 3 {
					_, body, err = cl.HC.Get(context.Background(), dst, "http://example.com/x?id="+id)
				} else {
					_, body, err = cl.HC.GetTimeout(context.Background(), dst, "http://example.com/x?id="+id, 2*time.Second)
				}
				want := "id=" + id + ";" + strings.Repeat("b", 600)
				if err == nil {
					// what a call returned stays what it was while other calls go on
					if held != nil && string(held) != heldWant {
						mu.Lock()
						if len(fails) < 5 {
							fails = append(fails, fmt.Sprintf("the body a call returned (%d bytes, %.30q...) changed while later calls of other goroutines ran: now %.40q", len(heldWant), heldWant, held))
						}
						mu.Unlock()
					}
					if g%2 == 0 {
						held, heldWant = body, want // kept and looked at again after the next successful call
					}
					prevBody = body
				}
				mu.Lock()
				if err == nil {
					okCalls++
				} else if lastErr == "" {
					lastErr = err.Error()
				}
				mu.Unlock()
				if err == nil && string(body) != want {
					mu.Lock()
					if len(fails) < 5 {
						fails = append(fails, fmt.Sprintf("GetTimeout(id=%s) returned nil error and a body of %d bytes %.40q, want its own %d-byte body", id, len(body), body, len(want)))
					}
					mu.Unlock()
				}
			}
		}(g)
	}
	wg.Wait()
	cl.HC.CloseIdleConnections()
	rec.Exact(G*M, G*M)
	rec.Class("calls-that-succeeded", int64(okCalls))
	if okCalls < G*M/4 {
		t.Errorf("harness: only %d of %d calls succeeded (first error: %s)", okCalls, G*M, lastErr)
	}
	for _, f := range fails {
		ev.Fail(prop, unit, map[string]string{"what": f}, f)
		t.Errorf("%s", f)
	}
}
