package c14

import (
	"bytes"
	"context"
	"errors"
	"github.com/cloudwego/hertz/pkg/app"
	"github.com/cloudwego/hertz/pkg/protocol"

	"fmt"
	hserver "github.com/cloudwego/hertz/pkg/app/server"
	"github.com/cloudwego/hertz/pkg/common/config"
	"io"
	"os"
	"strings"
	"testing"
	"time"

	"pgregory.net/rapid"

	"verifharness/ev"
	"verifharness/gen"
	"verifharness/sconn"
	"verifharness/srv"
	"verifharness/wire"
)

const prop = "C14"

func TestMain(m *testing.M) {
	code := m.Run()
	ev.Flush()
	os.Exit(code)
}

// Program says how the handler consumes the body stream.
type Program struct {
	Sizes []int `json:"read_sizes"`
	Stop  int   `json:"stop_after"`               // bytes; -1 = read to EOF and once more
	Form  bool  `json:"multipart_form,omitempty"` // the handler does not read the stream itself: it calls ctx.MultipartForm()
	// Via "body": the handler does not read the stream itself, it calls ctx.Request.Body() (which reads
	// the stream to its end and detaches it from the request)
	Via string `json:"via,omitempty"`
	// Drop: what the handler does to the request after its reads: "", "SetBodyString", "ResetBody",
	// "CloseBodyStream", "SetBodyStream" (each detaches the stream from the request)
	Drop string `json:"drop,omitempty"`
}

type readLog struct {
	data      []byte
	err       error
	extraN    int
	extraErr  error
	didExtra  bool
	zeroReads int
	calls     int
	viaBody   bool
}

var (
	curProg Program
	curLog  *readLog
)

func consume(r io.Reader) ([]byte, error) {
	lg := curLog
	p := curProg
	if p.Form {
		return nil, nil // the form was taken in beforeEcho
	}
	if lg.viaBody {
		return lg.data, nil
	}
	buf := make([]byte, 70000)
	total := 0
	for i := 0; ; i++ {
		if p.Stop >= 0 && total >= p.Stop {
			break
		}
		size := p.Sizes[i%len(p.Sizes)]
		if p.Stop >= 0 && size > p.Stop-total {
			size = p.Stop - total
		}
		n, err := r.Read(buf[:size])
		lg.calls++
		lg.data = append(lg.data, buf[:n]...)
		total += n
		if err != nil {
			lg.err = err
			break
		}
		if n == 0 {
			lg.zeroReads++
			if lg.zeroReads > 200 {
				break
			}
		}
	}
	if p.Stop < 0 && lg.err == io.EOF {
		lg.didExtra = true
		lg.extraN, lg.extraErr = r.Read(buf[:16])
	}
	return lg.data, nil
}

// doubler yields every byte of r twice, taking at most 256 bytes of r at a time
type doubler struct {
	r   io.Reader
	tmp [256]byte
}

func (d *doubler) Read(p []byte) (int, error) {
	n := len(p) / 2
	if n > len(d.tmp) {
		n = len(d.tmp)
	}
	if n == 0 {
		return 0, nil
	}
	m, err := d.r.Read(d.tmp[:n])
	for i := 0; i < m; i++ {
		p[2*i], p[2*i+1] = d.tmp[i], d.tmp[i]
	}
	return 2 * m, err
}

var warmPhase bool

func beforeEcho(c context.Context, ctx *app.RequestContext) {
	if warmPhase {
		ctx.Request.Body() // buffers the whole streamed body in the request's (pooled) body buffer
		return
	}
	if curProg.Form && ctx.Request.IsBodyStream() {
		ctx.MultipartForm() //nolint:errcheck
	}
	if curProg.Via == "wrapped-body" && ctx.Request.IsBodyStream() {
		// a decoding middleware: it puts a reader of its own around the body stream (one that yields more bytes than
		// it takes, in small steps, as a decompressor does) and sets it as the request's body stream; the handler
		// then takes the body with Request.Body()
		ctx.Request.SetBodyStream(&doubler{r: ctx.RequestBodyStream()}, -1)
		b, err := ctx.Request.BodyE()
		curLog.viaBody = true
		var first, second []byte
		for i := 0; i+1 < len(b); i += 2 {
			first, second = append(first, b[i]), append(second, b[i+1])
		}
		curLog.data = first
		if !bytes.Equal(first, second) || len(b)%2 != 0 {
			curLog.data = append([]byte("<the wrapper's output came back altered>"), b...)
		}
		curLog.err = err
		if err == nil {
			curLog.err, curLog.extraErr = io.EOF, io.EOF
		}
	}
	if curProg.Via == "body-twice" && ctx.Request.IsBodyStream() {
		// a middleware and then the handler ask for the body: what the second call says counts
		ctx.Request.BodyE() //nolint:errcheck
		b, err := ctx.Request.BodyE()
		curLog.viaBody = true
		curLog.data = append([]byte(nil), b...)
		curLog.err = err
		if err == nil {
			curLog.err, curLog.extraErr = io.EOF, io.EOF
		}
	}
	if curProg.Via == "writeto-then-body" && ctx.Request.IsBodyStream() {
		// the stream is consumed completely through BodyWriteTo (which detaches it); Body() afterwards has nothing
		// left to give: empty, or the whole body again, never a part of it and never bytes from behind it
		var sink bytes.Buffer
		err := ctx.Request.BodyWriteTo(&sink)
		curLog.viaBody = true
		curLog.data = append([]byte(nil), sink.Bytes()...)
		curLog.err = err
		if err == nil {
			curLog.err, curLog.extraErr = io.EOF, io.EOF
			if again := ctx.Request.Body(); len(again) != 0 && !bytes.Equal(again, sink.Bytes()) {
				curLog.data = append([]byte("<Body() after the stream was consumed returned a part of the body or foreign bytes>"), again...)
			}
		}
	}
	if curProg.Via == "body" && ctx.Request.IsBodyStream() {
		b, err := ctx.Request.BodyE()
		curLog.viaBody = true
		curLog.data = append([]byte(nil), b...)
		curLog.err = err
		if err == nil {
			curLog.err, curLog.extraErr = io.EOF, io.EOF
		}
	}
}

func afterEcho(c context.Context, ctx *app.RequestContext) {
	if warmPhase {
		return
	}
	switch curProg.Drop {
	case "SetBodyString":
		ctx.Request.SetBodyString("replaced")
	case "ResetBody":
		ctx.Request.ResetBody()
	case "CloseBodyStream":
		ctx.Request.CloseBodyStream() //nolint:errcheck
	case "SetBodyStream":
		ctx.Request.SetBodyStream(strings.NewReader("other"), 5)
	}
}

var servers = map[[2]int]*srv.Echo{}

// maxBody: MaxRequestBodySize; in streaming mode it is not a limit but the size of the pre-read
// window (capped at 8 KiB), so small values must change nothing observable.
func server(readBuf, maxBody int) *srv.Echo {
	if maxBody == 0 {
		maxBody = 8 << 20
	}
	k := [2]int{readBuf, maxBody}
	if s, ok := servers[k]; ok {
		return s
	}
	s := srv.NewEcho(srv.Config{Stream: true, ReadBuf: readBuf, MaxBody: maxBody, ReadBody: consume, BeforeEcho: beforeEcho, AfterEcho: afterEcho})
	servers[k] = s
	return s
}

type Case struct {
	Req      *wire.Req `json:"request"`
	Prog     Program   `json:"program"`
	Probe    bool      `json:"probe"`
	Truncate int       `json:"truncate_at"` // -1 = complete; else the stream ends (EOF) after this many bytes of the message
	Cuts     []int     `json:"cuts"`
	ReadBuf  int       `json:"read_buf"`
	MaxBody  int       `json:"max_request_body_size,omitempty"` // 0 = 8 MiB
	Warm     int       `json:"warm_up_body,omitempty"`          // size of the body an earlier request left buffered in the pooled context (0 = no earlier request)
	// Transport "" = scripted connection; "netpoll" / "standard" = real transport behind a unix socket
	Transport string `json:"transport,omitempty"`
}

func probeReq() *wire.Req {
	return &wire.Req{Method: "GET", Target: "/probe-after-stream?x=1", Proto: "HTTP/1.1", Lines: []wire.KV{{K: "Host", V: "example.com"}, {K: "X-Probe", V: "yes"}}}
}

// the loopback probe ends the connection, so that the exchange finishes without any timeout
func probeReqClose() *wire.Req {
	p := probeReq()
	p.Lines = append(p.Lines, wire.KV{K: "Connection", V: "close"})
	p.Close = true
	return p
}

var netServers = map[string]*srv.NetEcho{}

func netServer(transport string) (*srv.NetEcho, error) {
	if s, ok := netServers[transport]; ok {
		return s, nil
	}
	cfg := srv.Config{Stream: true, MaxBody: 8 << 20, ReadBody: consume, BeforeEcho: beforeEcho, AfterEcho: afterEcho}
	tr := transport
	if transport == "netpoll-idle0" {
		// IdleTimeout 0: after every request the connection goes back to the poller instead of
		// staying in the protocol server's keep-alive loop
		tr = "netpoll"
		cfg.Extra = []config.Option{hserver.WithIdleTimeout(0)}
	}
	s, err := srv.NewNetEcho(cfg, tr)
	if err != nil {
		return nil, err
	}
	s.Timeout = 6 * time.Second
	netServers[transport] = s
	return s, nil
}

const inconclusive = "INCONCLUSIVE"

// Check runs the case; returns "" or the violation.
func Check(c *Case) string {
	var stream []byte
	stream, m0 := c.Req.Encode(stream)
	msgEnd := m0.End
	if c.Truncate >= 0 {
		stream = stream[:c.Truncate]
	} else if c.Probe && c.Transport == "" {
		stream, _ = probeReq().Encode(stream)
	} else if c.Probe {
		stream, _ = probeReqClose().Encode(stream)
	}
	if c.Warm > 0 && c.Transport == "" {
		// history: an earlier exchange (on a connection of its own) whose handler buffered a large body
		// with ctx.Request.Body(); the pooled context it used, with its grown body buffer, is the one
		// the case's request gets
		warmPhase = true
		wb := gen.Body(c.Warm, 7, 5, 0)
		w := fmt.Sprintf("POST /warm HTTP/1.1\r\nHost: example.com\r\nX-Warm: 1\r\nContent-Length: %d\r\nConnection: close\r\n\r\n%s", len(wb), wb)
		curLog, curProg = &readLog{}, Program{Sizes: []int{1 << 20}, Stop: -1}
		server(c.ReadBuf, c.MaxBody).Run([][]byte{[]byte(w)}, sconn.EOF)
		warmPhase = false
	}
	lg := &readLog{}
	curLog, curProg = lg, c.Prog
	var obs []srv.Obs
	var res sconn.Result
	var conn *sconn.Conn
	probe := probeReq()
	if c.Transport == "" {
		obs, res, conn = server(c.ReadBuf, c.MaxBody).Run(sconn.Split(stream, c.Cuts), sconn.EOF)
	} else {
		probe = probeReqClose()
		ne, err := netServer(c.Transport)
		if err != nil {
			return inconclusive + ": " + err.Error()
		}
		obs, res, _ = ne.Run(sconn.Split(stream, c.Cuts), sconn.EOF)
		if res.Err == srv.ErrNetTimeout {
			if ne.MaxLate > 100*time.Millisecond {
				return fmt.Sprintf("%s: exchange not finished after %v, but the machine was %v late", inconclusive, ne.Timeout, ne.MaxLate)
			}
			return fmt.Sprintf("the exchange over the %s transport did not finish within %v (scheduler at most %v late) although the whole request and a probe asking for close were sent: the server waits for bytes beyond the message or lost the message boundary; %d handler invocations, read log %d bytes err=%v, output %s", c.Transport, ne.Timeout, ne.MaxLate, len(obs), len(lg.data), lg.err, srv.Short(res.Output))
		}
	}
	if res.Panic != nil {
		return fmt.Sprintf("panic: %v\n%s", res.Panic, res.Stack)
	}
	body := c.Req.Body
	if c.Truncate >= 0 && len(obs) == 0 {
		// the request never reached a handler (headers or prefetched part incomplete): nothing to check here
		if _, err := srv.Resps(res.Output, []string{c.Req.Method}); err != nil {
			return fmt.Sprintf("output not well-formed: %v: %s", err, srv.Short(res.Output))
		}
		return ""
	}
	if len(obs) == 0 {
		return fmt.Sprintf("no handler ran for a complete request; output %s", srv.Short(res.Output))
	}
	if obs[0].Method != c.Req.Method || obs[0].URI != c.Req.Target {
		return fmt.Sprintf("first invocation is %s %s, want %s %s", obs[0].Method, obs[0].URI, c.Req.Method, c.Req.Target)
	}
	if !obs[0].Streamed && lg.viaBody {
		// the handler took the body through Request.Body(): the echo saw the buffered copy
	} else if !obs[0].Streamed {
		// no body stream was constructed (request without framing): the handler saw the buffered body
		if c.Req.Framing != wire.FrNone {
			return fmt.Sprintf("request with %s framing was not given a body stream in streaming mode", c.Req.Framing)
		}
		lg.data, lg.err = obs[0].Body, io.EOF
		lg.extraErr = io.EOF
	}
	// (a handler that lets the framework read the form - ctx.MultipartForm() - does not see the bytes:
	// only what follows on the connection is checked then)
	if c.Prog.Form {
		goto whatFollows
	}
	// 1. prefix / EOF
	if !bytes.HasPrefix(body, lg.data) {
		d := 0
		for d < len(lg.data) && d < len(body) && lg.data[d] == body[d] {
			d++
		}
		return fmt.Sprintf("stream returned %d bytes that are not a prefix of the %d-byte body (first difference at %d): got %s", len(lg.data), len(body), d, srv.Short(lg.data))
	}
	if lg.zeroReads > 200 {
		return "Read returned (0, nil) more than 200 times in a row"
	}
	if c.Truncate < 0 {
		if lg.err != nil && lg.err != io.EOF {
			return fmt.Sprintf("Read failed with %v after %d of %d body bytes although the whole body was sent", lg.err, len(lg.data), len(body))
		}
		if lg.err == io.EOF && len(lg.data) != len(body) {
			return fmt.Sprintf("io.EOF after %d bytes of a %d-byte body", len(lg.data), len(body))
		}
		if c.Prog.Stop < 0 {
			if lg.err != io.EOF {
				return fmt.Sprintf("reading to the end: got err=%v after %d/%d bytes", lg.err, len(lg.data), len(body))
			}
			if lg.extraN != 0 || lg.extraErr != io.EOF {
				return fmt.Sprintf("Read after EOF returned (%d, %v), want (0, EOF)", lg.extraN, lg.extraErr)
			}
		}
		// 2. never wait for bytes beyond the message while the handler runs
		for _, r := range handlerReads(conn) {
			if r.Delivered >= msgEnd && len(obs) >= 1 {
				// reads by the probe's handler do not exist (no body), so any such read belongs to request 0
				return fmt.Sprintf("a wire read was issued while the handler was running although all %d bytes of the request had already been delivered (delivered=%d): the stream waits for bytes beyond the body", msgEnd, r.Delivered)
			}
		}
	} else {
		// truncated: never report a clean end of stream
		if c.Prog.Stop < 0 && (lg.err == nil || lg.err == io.EOF) && len(lg.data) < len(body) {
			return fmt.Sprintf("peer closed after %d bytes of the message; stream reported err=%v after %d of %d body bytes instead of an error", c.Truncate, lg.err, len(lg.data), len(body))
		}
	}
whatFollows:
	// 3. what follows
	methods := []string{c.Req.Method, "GET"}
	rs, err := srv.Resps(res.Output, methods)
	if err != nil {
		return fmt.Sprintf("output not well-formed: %v: %s", err, srv.Short(res.Output))
	}
	var finals []*wire.ParsedResp
	for _, r := range rs {
		if r.Status/100 != 1 {
			finals = append(finals, r)
		}
	}
	if len(finals) == 0 || finals[0].Status != 200 || srv.EchoIndex(finals[0]) != 0 {
		return fmt.Sprintf("first response is not the handler's 200: %s", srv.Short(res.Output))
	}
	switch {
	case len(obs) == 1 && len(finals) == 1:
		if c.Truncate < 0 && c.Probe && !res.Closed {
			return "probe not served and connection not closed"
		}
		// "or the connection is closed": the server must close, not go back to waiting for the peer.
		// If it asks for more input although the complete probe was delivered and is unanswered, the
		// probe's bytes were swallowed and a real client would wait for its response until a timeout.
		if c.Truncate < 0 && c.Probe && conn != nil && conn.EndReads > 0 {
			return fmt.Sprintf("the pipelined probe was delivered completely but never answered, and the server went back to waiting for more input (%d read(s) after the end of the script) instead of closing: the probe's bytes were consumed as something else", conn.EndReads)
		}
	case len(obs) == 2 && len(finals) == 2:
		if !c.Probe || c.Truncate >= 0 {
			return fmt.Sprintf("a second handler invocation (%s %s) although no second request was sent: body bytes were interpreted as a request", obs[1].Method, obs[1].URI)
		}
		if msg := srv.Match(probe, nil, &obs[1]); msg != "" {
			return "probe request was not parsed from the first byte after the body: " + msg
		}
		if finals[1].Status != 200 || srv.EchoIndex(finals[1]) != 1 {
			return fmt.Sprintf("second response has status %d", finals[1].Status)
		}
	default:
		return fmt.Sprintf("%d handler invocations and %d final responses (statuses %v): after the streamed request the connection must continue with the probe or be closed silently; observed:\n%s\noutput: %q\nread log: %d bytes err=%v", len(obs), len(finals), statuses(finals), srv.Describe(obs), res.Output, len(lg.data), lg.err)
	}
	return ""
}

func handlerReads(c *sconn.Conn) []sconn.ReadEvent {
	if c == nil {
		return nil // real socket: wire reads are not observable
	}
	return c.HandlerReads
}

func statuses(rs []*wire.ParsedResp) []int {
	var s []int
	for _, r := range rs {
		s = append(s, r.Status)
	}
	return s
}

func genProgram(t *rapid.T, bodyLen int, chunkEnds []int) Program {
	var p Program
	n := rapid.IntRange(1, 4).Draw(t, "nReadSizes")
	for i := 0; i < n; i++ {
		p.Sizes = append(p.Sizes, rapid.SampledFrom([]int{1, 2, 3, 7, 511, 512, 1000, 4096, 8192, 8193, 65536}).Draw(t, "readSize"))
	}
	switch rapid.IntRange(0, 9).Draw(t, "stopClass") {
	case 0, 1, 2:
		p.Stop = -1
	case 3:
		p.Stop = 0
	case 4:
		p.Stop = bodyLen
	case 5, 6:
		if len(chunkEnds) > 0 {
			p.Stop = rapid.SampledFrom(chunkEnds).Draw(t, "stopAtChunkEdge") + rapid.IntRange(-1, 1).Draw(t, "stopDelta")
		} else {
			p.Stop = rapid.SampledFrom([]int{8191, 8192, 8193, 4096}).Draw(t, "stopAtPrefetchEdge")
		}
	default:
		if bodyLen > 0 {
			p.Stop = rapid.IntRange(0, bodyLen).Draw(t, "stop")
		}
	}
	if p.Stop > bodyLen {
		p.Stop = bodyLen
	}
	if p.Stop < -1 {
		p.Stop = 0
	}
	switch rapid.IntRange(0, 11).Draw(t, "viaRequestBody") {
	case 0, 1:
		p.Via, p.Stop = "body", -1
	case 2, 3:
		p.Via, p.Stop = "wrapped-body", -1
	case 4:
		p.Via, p.Stop = "body-twice", -1
	case 5:
		p.Via, p.Stop = "writeto-then-body", -1
	}
	p.Drop = rapid.SampledFrom([]string{"", "", "", "SetBodyString", "ResetBody", "CloseBodyStream", "SetBodyStream"}).Draw(t, "drop")
	return p
}

func chunkEnds(r *wire.Req) []int {
	if r.Framing != wire.FrChunked {
		return nil
	}
	var ends []int
	pos := 0
	for _, sz := range r.ChunkSizes {
		if pos+sz > len(r.Body) {
			sz = len(r.Body) - pos
		}
		if sz <= 0 {
			break
		}
		pos += sz
		ends = append(ends, pos)
	}
	if pos < len(r.Body) {
		ends = append(ends, len(r.Body))
	}
	return ends
}

func classify(c *Case) (bool, []string) {
	cls := []string{"framing-" + c.Req.Framing.String()}
	if c.Prog.Form {
		cls = append(cls, "handler-calls-MultipartForm")
	}
	if c.Warm > 0 {
		cls = append(cls, "pooled-context-with-grown-body-buffer")
	}
	if c.Prog.Via != "" {
		cls = append(cls, "handler-calls-Request.Body")
	}
	if c.Prog.Drop != "" {
		cls = append(cls, "handler-detaches-stream-"+c.Prog.Drop)
	}
	n := c.Req.BodyLen
	ends := chunkEnds(c.Req)
	inside := c.Prog.Stop > 0 && c.Prog.Stop < n
	switch {
	case c.Prog.Stop < 0:
		cls = append(cls, "stop-eof")
	case c.Prog.Stop == 0:
		cls = append(cls, "stop-0")
	case c.Prog.Stop >= n:
		cls = append(cls, "stop-at-end")
	default:
		cls = append(cls, "stop-inside")
		atEdge := false
		for _, e := range ends {
			if e == c.Prog.Stop {
				atEdge = true
			}
		}
		if len(ends) > 0 {
			if atEdge {
				cls = append(cls, "stop-at-chunk-edge")
			} else {
				cls = append(cls, "stop-inside-chunk")
			}
		}
	}
	switch {
	case n == 0:
		cls = append(cls, "body-0")
	case n <= 8192:
		cls = append(cls, "body-le8k")
	default:
		cls = append(cls, "body-gt8k")
	}
	if c.Probe {
		cls = append(cls, "probe")
	}
	if c.Truncate >= 0 {
		cls = append(cls, "truncated")
	}
	if len(c.Req.Trailers) > 0 {
		cls = append(cls, "trailers")
	}
	nt := n > 0 && (inside || n > 8192 || len(ends) >= 2) && c.Probe && c.Truncate < 0
	return nt, cls
}

func TestC14Stream(t *testing.T) {
	rec := ev.New("stream")
	rapid.Check(t, func(t *rapid.T) {
		r, _ := gen.GenReq(t, 0, gen.ReqOpts{Fold: false, NearMiss: false, Expect: true, ChunkExt: true, Huge: false, ForceBody: rapid.IntRange(0, 9).Draw(t, "forceBody") > 0})
		if r.Method == "GET" || r.Method == "HEAD" {
			r.Method = "POST"
		}
		if r.Framing == wire.FrNone {
			r.Body, r.BodyLen = nil, 0
		}
		c := &Case{Req: r, Truncate: -1, ReadBuf: rapid.SampledFrom([]int{4096, 4096, 1, 8192}).Draw(t, "readBuf"), MaxBody: rapid.SampledFrom([]int{0, 0, 16, 1000, 8192, 20000}).Draw(t, "maxRequestBodySize")}
		if rapid.IntRange(0, 3).Draw(t, "warmUp") == 0 {
			c.Warm = rapid.SampledFrom([]int{9000, 30000, 70000}).Draw(t, "warmUpBody")
		}
		multipartBody := false
		if r.Framing == wire.FrChunked && rapid.IntRange(0, 5).Draw(t, "multipartBody") == 0 {
			// a chunked multipart/form-data upload (reaches the handler as a stream), with an epilogue
			multipartBody = true
			val := string(gen.Body(rapid.SampledFrom([]int{0, 1, 100, 5000, 20000}).Draw(t, "fieldLen"), 0, 3, 0))
			mp := "--b\r\nContent-Disposition: form-data; name=\"a\"\r\n\r\n" + val + "\r\n--b--\r\n" + strings.Repeat("e", rapid.SampledFrom([]int{0, 0, 10, 5000}).Draw(t, "epilogueLen"))
			r.Body, r.BodyLen = []byte(mp), len(mp)
			r.ChunkSizes = nil
			for rest := len(mp); rest > 0; {
				k := rapid.IntRange(1, rest).Draw(t, "mpChunk")
				r.ChunkSizes = append(r.ChunkSizes, k)
				rest -= k
				if len(r.ChunkSizes) > 6 {
					break
				}
			}
			r.Lines = append(r.Lines, wire.KV{K: "Content-Type", V: "multipart/form-data; boundary=b"})
		}
		c.Prog = genProgram(t, r.BodyLen, chunkEnds(r))
		if multipartBody && rapid.Bool().Draw(t, "handlerTakesForm") {
			c.Prog.Form = true
		}
		c.Probe = rapid.IntRange(0, 4).Draw(t, "probe") > 0
		var enc []byte
		enc, m := r.Encode(enc)
		total := m.End
		if rapid.IntRange(0, 9).Draw(t, "truncate") == 0 && m.End > m.HeaderEnd {
			c.Truncate = rapid.IntRange(m.HeaderEnd, m.End-1).Draw(t, "truncateAt")
			total = c.Truncate
			c.Probe = false
		} else if c.Probe {
			total += len(mustEncode(probeReq()))
		}
		marks := []int{m.HeaderEnd, m.End, m.HeaderEnd + 8192, m.HeaderEnd + 8193}
		marks = append(marks, m.ChunkStarts...)
		c.Cuts = gen.Cuts(t, total, marks)
		nt, cls := classify(c)
		rec.Case(nt, ev.Hash(enc, []byte(fmt.Sprint(c.Prog, c.Probe, c.Truncate, c.Cuts, c.ReadBuf))), cls...)
		if msg := Check(c); msg != "" {
			t.Fatalf("%s\nrequest: %s %s framing=%s body=%d chunks=%v trailers=%v expect=%v\nprogram=%+v probe=%v truncate=%d readBuf=%d cuts=%v", msg,
				r.Method, r.Target, r.Framing, r.BodyLen, r.ChunkSizes, r.Trailers, r.Expect100, c.Prog, c.Probe, c.Truncate, c.ReadBuf, trim(c.Cuts))
		}
		if nt && rec.WantSample() {
			cc := *c
			cc.Cuts = trim(cc.Cuts)
			rec.Sample(cc)
		}
	})
}

// TestC14Loopback runs the same consumption programs over the real transports (netpoll and
// standard behind a unix socket). The request is always complete and followed by a probe that asks
// for close, so every exchange ends by the server closing the connection.
func TestC14Loopback(t *testing.T) {
	rec := ev.New("loopback")
	defer func() {
		for k, s := range netServers {
			s.Close()
			delete(netServers, k)
		}
	}()
	inconcl := 0
	rapid.Check(t, func(t *rapid.T) {
		r, _ := gen.GenReq(t, 0, gen.ReqOpts{Expect: true, ChunkExt: true, ForceBody: rapid.IntRange(0, 9).Draw(t, "forceBody") > 0})
		if r.Method == "GET" || r.Method == "HEAD" {
			r.Method = "POST"
		}
		if r.Framing == wire.FrNone {
			r.Body, r.BodyLen = nil, 0
		}
		c := &Case{Req: r, Truncate: -1, Probe: true, Transport: rapid.SampledFrom([]string{"netpoll", "netpoll-idle0", "standard"}).Draw(t, "transport")}
		c.Prog = genProgram(t, r.BodyLen, chunkEnds(r))
		var enc []byte
		enc, m := r.Encode(enc)
		total := m.End + len(mustEncode(probeReqClose()))
		marks := []int{m.HeaderEnd, m.End, m.HeaderEnd + 8192, m.HeaderEnd + 8193}
		marks = append(marks, m.ChunkStarts...)
		c.Cuts = gen.Cuts(t, total, marks)
		nt, cls := classify(c)
		cls = append(cls, "transport-"+c.Transport)
		rec.Case(nt, ev.Hash(enc, []byte(fmt.Sprint(c.Prog, c.Transport, c.Cuts))), cls...)
		msg := Check(c)
		if strings.HasPrefix(msg, inconclusive) {
			inconcl++
			rec.Class("loopback-inconclusive", 1)
			if inconcl > 3 {
				fmt.Println("VERIF-INCONCLUSIVE: " + msg)
			}
			return
		}
		if msg != "" {
			t.Fatalf("%s\nrequest: %s %s framing=%s body=%d chunks=%v trailers=%v expect=%v\nprogram=%+v transport=%s cuts=%v", msg,
				r.Method, r.Target, r.Framing, r.BodyLen, r.ChunkSizes, r.Trailers, r.Expect100, c.Prog, c.Transport, trim(c.Cuts))
		}
		if nt && rec.WantSample() {
			cc := *c
			cc.Cuts = trim(cc.Cuts)
			rec.Sample(cc)
		}
	})
}

func mustEncode(r *wire.Req) []byte {
	b, _ := r.Encode(nil)
	return b
}

func trim(a []int) []int {
	if len(a) > 24 {
		return append(append([]int(nil), a[:24]...), -1)
	}
	return a
}

// ---------------------------------------------------------------------------
// Exhaustive stop points for small bodies.

func compositions(n, maxParts int) [][]int {
	if n == 0 {
		return [][]int{nil}
	}
	var out [][]int
	var rec func(rem int, cur []int)
	rec = func(rem int, cur []int) {
		if rem == 0 {
			out = append(out, append([]int(nil), cur...))
			return
		}
		if len(cur) == maxParts {
			return
		}
		for k := 1; k <= rem; k++ {
			rec(rem-k, append(cur, k))
		}
	}
	rec(n, nil)
	return out
}

func TestC14Exhaustive(t *testing.T) {
	rec := ev.New("exhaustive-stops")
	shard, nshards := ev.Shard()
	host := wire.KV{K: "Host", V: "example.com"}
	lens := []int{0, 1, 2, 3, 5}
	if ev.Thorough() {
		lens = []int{0, 1, 2, 3, 4, 5, 6, 8}
	}
	var global, evals, nontriv int64
	fails := 0
	type enc struct {
		fr     wire.FramingKind
		chunks []int
		tr     bool
	}
	type family struct {
		body    []byte
		encs    []enc
		maxStop int
	}
	var fams []family
	for _, L := range lens {
		body := append([]byte(nil), []byte("0\r\n\r\nGET /x HTTP/1.1\r\n")[:L]...)
		encs := []enc{{fr: wire.FrCL}}
		for _, comp := range compositions(L, 3) {
			encs = append(encs, enc{fr: wire.FrChunked, chunks: comp}, enc{fr: wire.FrChunked, chunks: comp, tr: true})
		}
		fams = append(fams, family{body, encs, L})
	}
	// bodies whose unread tail looks like the end of a chunked body followed by a request:
	// a reader that loses its place inside a chunk produces a visible smuggled request
	const smuggle = "0\r\n\r\nGET /smuggled HTTP/1.1\r\nHost: h\r\n\r\n"
	for k := 1; k <= 3; k++ {
		body := append([]byte("xyz"[:k]), smuggle...)
		n := len(body)
		encs := []enc{{fr: wire.FrCL}, {fr: wire.FrChunked, chunks: []int{n}}, {fr: wire.FrChunked, chunks: []int{k, n - k}}, {fr: wire.FrChunked, chunks: []int{k + 3, n - k - 3}, tr: true},
			{fr: wire.FrChunked, chunks: []int{k + 5, 2, n - k - 7}}}
		fams = append(fams, family{body, encs, k + 8})
	}
	for _, fam := range fams {
		body, encs, L := fam.body, fam.encs, len(fam.body)
		for _, en := range encs {
			lines := []wire.KV{host}
			var trailers []wire.KV
			if en.fr == wire.FrCL {
				lines = append(lines, wire.KV{K: "Content-Length", V: fmt.Sprint(L)})
			} else {
				lines = append(lines, wire.KV{K: "Transfer-Encoding", V: "chunked"})
				if en.tr {
					lines = append(lines, wire.KV{K: "Trailer", V: "X-Tr"})
					trailers = []wire.KV{{K: "X-Tr", V: "tv"}}
				}
			}
			r := &wire.Req{Method: "POST", Target: "/r0", Proto: "HTTP/1.1", Lines: lines, Framing: en.fr, Body: body, BodyLen: L, ChunkSizes: en.chunks, Trailers: trailers}
			encoded, m := r.Encode(nil)
			total := len(encoded) + len(mustEncode(probeReq()))
			for stop := -1; stop <= L && stop <= fam.maxStop; stop++ {
				for _, rs := range []int{1, 2, 64} {
					// segmentations: whole, byte-wise, and a single cut at every offset of the message
					segs := [][]int{nil, bytewise(total)}
					for cut := m.HeaderEnd - 1; cut <= m.End+1 && cut < total; cut++ {
						segs = append(segs, []int{cut})
					}
					for _, cuts := range segs {
						global++
						if global%int64(nshards) != int64(shard) {
							continue
						}
						c := &Case{Req: r, Prog: Program{Sizes: []int{rs}, Stop: stop}, Probe: true, Truncate: -1, Cuts: cuts, ReadBuf: 4096}
						evals++
						if nt, _ := classify(c); nt {
							nontriv++
						}
						if msg := Check(c); msg != "" {
							fails++
							ev.Fail(prop, "exhaustive-stops", c, msg)
							t.Errorf("body=%q framing=%s chunks=%v trailers=%v stop=%d readSize=%d cuts=%v: %s", body, en.fr, en.chunks, en.tr, stop, rs, trim(cuts), msg)
							if fails > 5 {
								rec.Exact(evals, nontriv)
								return
							}
						}
						if evals%5003 == 1 && rec.WantSample() {
							cc := *c
							cc.Cuts = trim(cc.Cuts)
							rec.Sample(cc)
						}
					}
				}
			}
		}
	}
	rec.Exact(evals, nontriv)
	rec.Exhaustive(fmt.Sprintf("body lengths %v x {Content-Length, every chunking into <=3 chunks, with/without trailer} x every stop point -1..len x read size {1,2,64} x {whole, byte-wise, every single cut across the message}, each followed by a pipelined probe", lens))
}

func bytewise(n int) []int {
	c := make([]int, 0, n)
	for i := 1; i < n; i++ {
		c = append(c, i)
	}
	return c
}

func TestC14Replay(t *testing.T) {
	f := ev.ReplayFile()
	if f == "" {
		t.Skip("no replay file")
	}
	var c Case
	if err := ev.LoadReplay(f, &c); err != nil {
		t.Fatal(err)
	}
	c.Req.Body = gen.Body(c.Req.BodyLen, 0, 0, 0)
	if msg := Check(&c); msg != "" {
		ev.Fail(prop, "replay", &c, msg)
		t.Fatal(msg)
	}
}

// Saved inputs (D24): Content-Length above MaxRequestBodySize in streaming mode; the pre-read used to
// swallow the pipelined probe, which was then neither answered nor followed by a close.
func TestC14Regress(t *testing.T) {
	rec := ev.New("regress")
	host := wire.KV{K: "Host", V: "example.com"}
	for _, n := range []int{17, 32, 1000} {
		for _, stop := range []int{-1, 0, 5, n} {
			for _, cuts := range [][]int{nil, {30}, {60}} {
				body := gen.Body(n, 0, 3, 0)
				r := &wire.Req{Method: "POST", Target: "/up", Proto: "HTTP/1.1", Lines: []wire.KV{host, {K: "Content-Length", V: fmt.Sprint(n)}}, Framing: wire.FrCL, Body: body, BodyLen: n}
				c := &Case{Req: r, Truncate: -1, Probe: true, ReadBuf: 4096, MaxBody: 16, Cuts: cuts, Prog: Program{Sizes: []int{7}, Stop: stop}}
				rec.Case(true, ev.HashString(fmt.Sprint(n, stop, cuts)), "regress-D24")
				if msg := Check(c); msg != "" {
					ev.Fail(prop, "regress", map[string]interface{}{"case": "D24", "body": n, "stop": stop, "cuts": cuts}, msg)
					t.Errorf("D24 body=%d stop=%d cuts=%v: %s", n, stop, cuts, msg)
				}
			}
		}
	}
	// D71/D72: chunk-size lines that the stream's reader refuses or used to refuse, in front of chunk data
	// that reads like an empty trailer section and a request. Raw streams: after POST /up the server serves
	// GET /after next, or closes; it never serves GET /smuggled.
	data := "\r\nGET /smuggled HTTP/1.1\r\nHost: a\r\nX-Pad: xxx\r\n\r\n"
	data = (data + strings.Repeat("p", 0x40))[:0x40]
	for _, sizeLine := range []string{"40;0", "40;ext=\"q\"", "00000000000000040", "000000000000000040", "40 ", "40;" + strings.Repeat("e", 5000)} {
		for _, stop := range []int{-1, 0, 3} {
			raw := "POST /up HTTP/1.1\r\nHost: example.com\r\nTransfer-Encoding: chunked\r\n\r\n" + sizeLine + "\r\n" + data + "\r\n0\r\n\r\n" + "GET /after HTTP/1.1\r\nHost: example.com\r\n\r\n"
			lg := &readLog{}
			curLog, curProg = lg, Program{Sizes: []int{4096}, Stop: stop}
			obs, res, _ := server(4096, 0).Run([][]byte{[]byte(raw)}, sconn.EOF)
			rec.Case(true, ev.HashString("chunk-size-line", sizeLine, fmt.Sprint(stop)), "regress-chunk-size-line")
			bad := ""
			if res.Panic != nil {
				bad = fmt.Sprintf("panic: %v", res.Panic)
			}
			for i, o := range obs {
				if !(i == 0 && o.URI == "/up") && o.URI != "/after" {
					bad = fmt.Sprintf("handler invocation #%d is %s %s: chunk data was served as a request (the stream gave %d bytes, err=%v)", i, o.Method, o.URI, len(lg.data), lg.err)
				}
			}
			if bad != "" {
				ev.Fail(prop, "regress", map[string]interface{}{"case": "chunk-size-line", "size_line": sizeLine, "stop": stop}, bad)
				t.Errorf("chunk-size line %q stop=%d: %s", sizeLine, stop, bad)
			}
		}
	}
	// A line feed inside a chunk extension: for every reader that ends lines at LF the chunk-size line ends there,
	// for a strict one the message is malformed. Nobody may read on to the next CR: "5;x\nAAAAA\r\n" would be one
	// size line, the digits of the next size line the data, and the 40 bytes of the second chunk a request.
	smuggled40 := ("0\r\n\r\nGET /smuggled HTTP/1.1\r\nHost: x\r\n\r\n" + strings.Repeat("p", 40))[:40]
	for _, ext := range []string{";x", ";x=1", ";a=\"q\"", " ;x", ";"} {
		for _, stop := range []int{-1, 0, 3} {
			raw := "POST /up HTTP/1.1\r\nHost: example.com\r\nTransfer-Encoding: chunked\r\n\r\n5" + ext + "\nAAAAA\r\n00028\r\n" + smuggled40 + "\r\n0\r\n\r\n" + "GET /after HTTP/1.1\r\nHost: example.com\r\n\r\n"
			lg := &readLog{}
			curLog, curProg = lg, Program{Sizes: []int{4096}, Stop: stop}
			obs, res, _ := server(4096, 0).Run([][]byte{[]byte(raw)}, sconn.EOF)
			rec.Case(true, ev.HashString("lf-in-chunk-extension", ext, fmt.Sprint(stop)), "regress-lf-in-chunk-extension")
			bad := ""
			if res.Panic != nil {
				bad = fmt.Sprintf("panic: %v", res.Panic)
			}
			for i, o := range obs {
				if !(i == 0 && o.URI == "/up") && o.URI != "/after" {
					bad = fmt.Sprintf("handler invocation #%d is %s %s: chunk data was served as a request (the stream gave %q, err=%v)", i, o.Method, o.URI, lg.data, lg.err)
				}
			}
			if bad == "" && lg.err == nil && stop < 0 && string(lg.data) != "AAAAA"+smuggled40 {
				bad = fmt.Sprintf("the stream gave %q without an error; with LF as the line end the body is %q, otherwise the message is malformed", lg.data, "AAAAA"+smuggled40)
			}
			if bad != "" {
				ev.Fail(prop, "regress", map[string]interface{}{"case": "lf-in-chunk-extension", "ext": ext, "stop": stop}, bad)
				t.Errorf("chunk extension %q + LF stop=%d: %s", ext, stop, bad)
			}
		}
	}
	// A request whose body stream failed remembers the error (the second Body() must not hand out the part). A new
	// body given to the request afterwards is the body from then on: BodyE returns it, without the old error.
	for name, set := range map[string]func(r *protocol.Request){
		"SetBody":          func(r *protocol.Request) { r.SetBody([]byte("new body")) },
		"SetBodyString":    func(r *protocol.Request) { r.SetBodyString("new body") },
		"AppendBody":       func(r *protocol.Request) { r.AppendBody([]byte("new body")) },
		"AppendBodyString": func(r *protocol.Request) { r.AppendBodyString("new body") },
		"SwapBody":         func(r *protocol.Request) { r.SwapBody([]byte("new body")) },
		"SetBodyRaw":       func(r *protocol.Request) { r.SetBodyRaw([]byte("new body")) },
	} {
		var r protocol.Request
		r.SetBodyStream(io.MultiReader(strings.NewReader("part"), failingReader{}), -1)
		_, err1 := r.BodyE()
		set(&r)
		b, err2 := r.BodyE()
		rec.Case(true, ev.HashString("new-body-after-failed-stream", name), "regress-new-body-after-failed-stream")
		if err1 == nil || err2 != nil || string(b) != "new body" {
			bad := fmt.Sprintf("a request whose body stream failed (first BodyE: %v) is given a new body with %s: BodyE returns %q, %v (want \"new body\", nil)", err1, name, b, err2)
			ev.Fail(prop, "regress", map[string]interface{}{"case": "new-body-after-failed-stream", "setter": name}, bad)
			t.Errorf("%s", bad)
		}
	}
	// Line ends that hertz accepts although they are not CRLF (a bare LF ends a trailer line as it ends a
	// header line): whatever it accepts when the handler reads the stream to its end it has to accept the
	// same way when it drains the rest behind a handler that stopped early. After POST /up the requests
	// GET /first and GET /second are served in this order, or the connection is closed; a request is never
	// skipped.
	for _, trailer := range []string{"\r\n", "\n", "X-Sum: 1\n\n", "X-Sum: 1\r\n\n", "X-Sum: 1\n\r\n", "X-Sum: 1\r\n\r\n"} {
		for _, stop := range []int{-1, 0, 2, 5} {
			for _, cuts := range [][]int{nil, {90}, {101}} {
				raw := "POST /up HTTP/1.1\r\nHost: example.com\r\nTransfer-Encoding: chunked\r\nTrailer: X-Sum\r\n\r\n5\r\nhello\r\n0\r\n" + trailer +
					"GET /first HTTP/1.1\r\nHost: example.com\r\n\r\nGET /second HTTP/1.1\r\nHost: example.com\r\n\r\n"
				lg := &readLog{}
				curLog, curProg = lg, Program{Sizes: []int{4096}, Stop: stop}
				obs, res, _ := server(4096, 0).Run(sconn.Split([]byte(raw), cuts), sconn.EOF)
				rec.Case(true, ev.HashString("trailer-line-ends", trailer, fmt.Sprint(stop, cuts)), "regress-trailer-line-ends")
				bad := ""
				if res.Panic != nil {
					bad = fmt.Sprintf("panic: %v", res.Panic)
				}
				want := []string{"/up", "/first", "/second"}
				for i, o := range obs {
					if i >= len(want) || o.URI != want[i] {
						bad = fmt.Sprintf("handler invocation #%d is %s %s, want %v in this order (or fewer and a closed connection): a request was skipped or invented (the stream gave %q, err=%v)", i, o.Method, o.URI, want, lg.data, lg.err)
						break
					}
				}
				if bad == "" && len(obs) < len(want) && !res.Closed {
					bad = fmt.Sprintf("only %d of 3 requests were served and the connection was not closed", len(obs))
				}
				if bad != "" {
					ev.Fail(prop, "regress", map[string]interface{}{"case": "trailer-line-ends", "trailer": trailer, "stop": stop, "cuts": cuts}, bad)
					t.Errorf("trailer %q stop=%d cuts=%v: %s", trailer, stop, cuts, bad)
				}
			}
		}
	}
}

type failingReader struct{}

func (failingReader) Read(p []byte) (int, error) { return 0, errors.New("the peer went away") }
