package c14

import (
	"fmt"
	"strings"
	"testing"
	"time"

	hserver "github.com/cloudwego/hertz/pkg/app/server"
	"github.com/cloudwego/hertz/pkg/common/config"

	"verifharness/ev"
	"verifharness/sconn"
	"verifharness/srv"
)

// TestC14ReadTimeout: real transports with a short read timeout, and a peer that pauses for longer
// than that in front of a chunk-size line. The handler's Read fails with the timeout (that is what
// a read timeout is for); the handler gives up and returns. After that the connection either goes on
// with the request that really follows the body, or it is closed: the bytes of the body, which keep
// arriving, are never taken for a request.
func TestC14ReadTimeout(t *testing.T) {
	rec := ev.New("read-timeout")
	const readTimeout = 80 * time.Millisecond
	inner := "GET /smuggled HTTP/1.1\r\nHost: evil\r\n\r\n"
	for _, transport := range []string{"netpoll", "standard"} {
		cfg := srv.Config{Stream: true, MaxBody: 8 << 20, ReadBody: consume, BeforeEcho: beforeEcho, AfterEcho: afterEcho,
			Extra: []config.Option{hserver.WithReadTimeout(readTimeout)}}
		ne, err := srv.NewNetEcho(cfg, transport)
		if err != nil {
			t.Fatalf("%s: %v", transport, err)
		}
		ne.Timeout = 5 * time.Second
		for _, pause := range []time.Duration{readTimeout * 3 / 2, readTimeout * 7 / 4, readTimeout / 4} {
			for _, firstChunk := range []int{5, 300} {
				// chunk sizes whose hex form has two digits: losing the first one changes the size
				// (the data of that chunk reads like a trailer section followed by a request, which is what a
				// reader that takes "40" for "0" makes of it)
				second := ("X-T: 1\r\n\r\n" + inner + strings.Repeat("p", 0x40))[:0x40]
				head := fmt.Sprintf("POST /upload HTTP/1.1\r\nHost: example.com\r\nTransfer-Encoding: chunked\r\n\r\n%x\r\n%s\r\n", firstChunk, strings.Repeat("a", firstChunk))
				rest := fmt.Sprintf("%x\r\n%s\r\n%x\r\n%s\r\n0\r\n\r\n", len(second), second, len(inner), inner)
				probe, _ := probeReqClose().Encode(nil)
				lg := &readLog{}
				curLog, curProg = lg, Program{Sizes: []int{4096}, Stop: -1}
				ne.PauseAfter = map[int]time.Duration{0: pause}
				obs, res, _ := ne.Run([][]byte{[]byte(head), append([]byte(rest), probe...)}, sconn.EOF)
				ne.PauseAfter = nil
				rec.Case(true, ev.HashString(transport, fmt.Sprint(pause, firstChunk)), "transport-"+transport, fmt.Sprintf("pause-%v", pause))
				if res.Err == srv.ErrNetTimeout {
					continue // neither served nor closed within 5 s: left to the loopback unit's own verdicts
				}
				for i, o := range obs {
					if i == 0 && o.URI == "/upload" {
						continue
					}
					if o.URI == "/probe-after-stream?x=1" {
						continue
					}
					msg := fmt.Sprintf("%s transport, read timeout %v, pause of %v in front of a chunk-size line: handler invocation #%d is %s %s: bytes of the chunked body were served as a request (the stream returned %d bytes, err=%v)", transport, readTimeout, pause, i, o.Method, o.URI, len(lg.data), lg.err)
					ev.Fail(prop, "read-timeout", map[string]interface{}{"transport": transport, "pause_ms": pause.Milliseconds(), "first_chunk": firstChunk}, msg)
					t.Errorf("%s\noutput: %s", msg, srv.Short(res.Output))
				}
				// a handler that kept reading after the error must never see a clean end before the body's end
				if lg.err != nil && lg.err.Error() == "EOF" && len(lg.data) < firstChunk+len(second)+len(inner) {
					msg := fmt.Sprintf("%s transport: the stream reported EOF after %d of %d body bytes", transport, len(lg.data), firstChunk+len(second)+len(inner))
					ev.Fail(prop, "read-timeout", map[string]interface{}{"transport": transport, "pause_ms": pause.Milliseconds()}, msg)
					t.Errorf("%s", msg)
				}
			}
		}
		ne.Close()
	}
}
