package c17

import (
	"bytes"
	"fmt"
	"net/url"
	"os"
	"strings"
	"testing"
	"time"

	"github.com/cloudwego/hertz/pkg/protocol"
	"pgregory.net/rapid"

	"verifharness/ev"
	_ "verifharness/sconn"
)

const prop = "C17"

func TestMain(m *testing.M) {
	code := m.Run()
	ev.Flush()
	os.Exit(code)
}

var alphabet = []string{"%", "+", "&", "=", ";", "#", "?", "/", ":", "@", " ", "\x00", "a", "Z", "0", "é", "\xff", "\"", ","}

// strings of exactly n symbols over alphabet, index-addressable
func nthString(alpha []string, n int, idx int) string {
	var sb strings.Builder
	for i := 0; i < n; i++ {
		sb.WriteString(alpha[idx%len(alpha)])
		idx /= len(alpha)
	}
	return sb.String()
}

func pow(b, e int) int {
	r := 1
	for i := 0; i < e; i++ {
		r *= b
	}
	return r
}

func needsEscape(s string) bool {
	return strings.ContainsAny(s, "%+&=;#? \x00\"") || strings.ContainsAny(s, "é\xff,:/@")
}

type kv struct {
	K, V     string
	HasValue bool
}

// ---------------------------------------------------------------------------
// Args.

func argsFromList(l []kv) *protocol.Args {
	var a protocol.Args
	for _, e := range l {
		if e.HasValue {
			a.Add(e.K, e.V)
		} else {
			a.Add(e.K, "") // the public API has no key-without-'=' form
		}
	}
	return &a
}

func listOf(a *protocol.Args) []kv {
	var out []kv
	a.VisitAll(func(k, v []byte) {
		out = append(out, kv{K: string(k), V: string(v)})
	})
	return out
}

// reusedArgs is a long-lived Args object (as the query and form args of a pooled request are): before
// every use it has held other keys with non-empty values in every slot and was Reset.
var reusedArgs protocol.Args

// parseReused parses s into the recycled object and compares with what a new object gives.
func parseReused(s []byte, fresh *protocol.Args) string {
	reusedArgs.ParseBytes([]byte("p1=POISON-ONE&p2=POISON-TWO&p3=POISON-THREE&p4=POISON-FOUR&p5=POISON-FIVE&p6=POISON-SIX"))
	reusedArgs.Reset()
	reusedArgs.ParseBytes(append([]byte(nil), s...))
	g, f := listOf(&reusedArgs), listOf(fresh)
	if fmt.Sprint(g) != fmt.Sprint(f) {
		return fmt.Sprintf("query %q parses to %+v in a new Args but to %+v in a recycled one (Reset after holding other values)", s, f, g)
	}
	return ""
}

// checkArgsRoundTrip: ParseBytes(AppendBytes(list)) == list minus entries with empty key and empty value.
func checkArgsRoundTrip(l []kv) string {
	a := argsFromList(l)
	enc := append([]byte(nil), a.QueryString()...)
	var b protocol.Args
	b.ParseBytes(enc)
	if msg := parseReused(enc, &b); msg != "" {
		return msg
	}
	got := listOf(&b)
	var want []kv
	for _, e := range l {
		if e.K == "" && e.V == "" {
			continue
		}
		v := e.V
		if !e.HasValue {
			v = ""
		}
		want = append(want, kv{K: e.K, V: v})
	}
	if len(got) != len(want) {
		return fmt.Sprintf("list %+v encodes to %q which parses to %d entries %+v, want %d", l, enc, len(got), got, len(want))
	}
	for i := range want {
		if got[i].K != want[i].K || got[i].V != want[i].V {
			return fmt.Sprintf("list %+v encodes to %q; entry %d parses back as (%q,%q), want (%q,%q)", l, enc, i, got[i].K, got[i].V, want[i].K, want[i].V)
		}
	}
	enc2 := b.QueryString()
	var c protocol.Args
	c.ParseBytes(append([]byte(nil), enc2...))
	if enc3 := c.QueryString(); !bytes.Equal(enc2, enc3) {
		return fmt.Sprintf("formatting the parsed args is not a fixed point: %q -> %q -> %q", enc, enc2, enc3)
	}
	return ""
}

// checkArgsDifferential compares with net/url on strings net/url accepts.
func checkArgsDifferential(s string) (string, bool) {
	ref, err := url.ParseQuery(s)
	if err != nil {
		return "", false
	}
	var a protocol.Args
	a.ParseBytes([]byte(s))
	if msg := parseReused([]byte(s), &a); msg != "" {
		return msg, true
	}
	got := map[string][]string{}
	a.VisitAll(func(k, v []byte) {
		got[string(k)] = append(got[string(k)], string(v))
	})
	// entries with empty key and empty value are excepted by the statement
	strip := func(m map[string][]string) map[string][]string {
		out := map[string][]string{}
		for k, vs := range m {
			for _, v := range vs {
				if k == "" && v == "" {
					continue
				}
				out[k] = append(out[k], v)
			}
		}
		return out
	}
	g, r := strip(got), strip(ref)
	if len(g) != len(r) {
		return fmt.Sprintf("query %q: hertz keys %q, net/url keys %q", s, keys(g), keys(r)), true
	}
	for k, vs := range r {
		if strings.Join(g[k], "\x00") != strings.Join(vs, "\x00") || len(g[k]) != len(vs) {
			return fmt.Sprintf("query %q: key %q: hertz %q, net/url %q", s, k, g[k], vs), true
		}
	}
	return "", true
}

func keys(m map[string][]string) []string {
	var ks []string
	for k := range m {
		ks = append(ks, k)
	}
	return ks
}

func TestC17ArgsExhaustive(t *testing.T) {
	rec := ev.New("args-exhaustive")
	shard, nshards := ev.Shard()
	maxLen := 2
	var global, evals, nontriv int64
	fails := 0
	var strs []string
	for n := 0; n <= maxLen; n++ {
		for i := 0; i < pow(len(alphabet), n); i++ {
			strs = append(strs, nthString(alphabet, n, i))
		}
	}
	report := func(in interface{}, msg string) bool {
		fails++
		ev.Fail(prop, "args-exhaustive", in, msg)
		t.Errorf("%s", msg)
		return fails > 5
	}
	for _, k := range strs {
		for _, v := range strs {
			global++
			if global%int64(nshards) != int64(shard) {
				continue
			}
			for _, hv := range []bool{true, false} {
				if !hv && v != "" {
					continue
				}
				l := []kv{{k, v, hv}}
				evals++
				if needsEscape(k) || needsEscape(v) {
					nontriv++
				}
				if msg := checkArgsRoundTrip(l); msg != "" {
					if report(l, msg) {
						rec.Exact(evals, nontriv)
						return
					}
				}
				// the same pair inside a longer list
				l3 := []kv{{"x", "1", true}, {k, v, hv}, {v, k, true}}
				evals++
				if needsEscape(k) || needsEscape(v) {
					nontriv++
				}
				if msg := checkArgsRoundTrip(l3); msg != "" {
					if report(l3, msg) {
						rec.Exact(evals, nontriv)
						return
					}
				}
			}
		}
	}
	rec.Exact(evals, nontriv)
	rec.Exhaustive(fmt.Sprintf("every (key, value) pair with key and value of 0..%d symbols over %q, with and without '=', alone and inside a 3-entry list", maxLen, alphabet))
}

var queryAlphabet = []string{"%", "+", "&", "=", ";", "a", "4", "1", "%41", "%2", "%zz", " ", "é", "/", "?"}

func TestC17ArgsDifferential(t *testing.T) {
	rec := ev.New("args-vs-neturl")
	shard, nshards := ev.Shard()
	maxLen := 4
	if ev.Thorough() {
		maxLen = 5
	}
	var global, evals, nontriv, accepted int64
	fails := 0
	for n := 0; n <= maxLen; n++ {
		for i := 0; i < pow(len(queryAlphabet), n); i++ {
			global++
			if global%int64(nshards) != int64(shard) {
				continue
			}
			s := nthString(queryAlphabet, n, i)
			evals++
			msg, ok := checkArgsDifferential(s)
			if ok {
				accepted++
				if strings.ContainsAny(s, "%+&=") {
					nontriv++
				}
			}
			if msg != "" {
				fails++
				ev.Fail(prop, "args-vs-neturl", map[string]string{"query": s}, msg)
				t.Errorf("%s", msg)
				if fails > 5 {
					rec.Exact(evals, nontriv)
					return
				}
			}
			if ok && evals%9973 == 1 && rec.WantSample() {
				rec.Sample(map[string]string{"query": s})
			}
		}
	}
	rec.Exact(evals, nontriv)
	rec.Class("accepted-by-net/url", accepted)
	rec.Exhaustive(fmt.Sprintf("every query string of 0..%d symbols over %q; compared with net/url.ParseQuery on every string it accepts; non-trivial = accepted and containing one of %%+&=", maxLen, queryAlphabet))
}

func genStr(t *rapid.T, label string, maxLen int) string {
	n := rapid.IntRange(0, maxLen).Draw(t, label+"Len")
	var sb strings.Builder
	for i := 0; i < n; i++ {
		if rapid.IntRange(0, 2).Draw(t, label+"Kind") == 0 {
			sb.WriteString(rapid.SampledFrom(alphabet).Draw(t, label))
		} else {
			sb.WriteByte(byte(rapid.IntRange(0, 255).Draw(t, label+"Byte")))
		}
	}
	return sb.String()
}

func TestC17ArgsRandom(t *testing.T) {
	rec := ev.New("args-random")
	rapid.Check(t, func(t *rapid.T) {
		n := rapid.IntRange(0, 8).Draw(t, "nArgs")
		var l []kv
		nt := false
		for i := 0; i < n; i++ {
			e := kv{K: genStr(t, "key", 12), V: genStr(t, "value", 40), HasValue: rapid.IntRange(0, 4).Draw(t, "hasValue") > 0}
			if !e.HasValue {
				e.V = ""
			}
			if needsEscape(e.K) || needsEscape(e.V) {
				nt = true
			}
			l = append(l, e)
		}
		rec.Case(nt, ev.HashString(fmt.Sprintf("%q", l)), "lists")
		if msg := checkArgsRoundTrip(l); msg != "" {
			t.Fatalf("%s", msg)
		}
		// a random raw string against net/url
		var sb strings.Builder
		for i := 0; i < rapid.IntRange(0, 30).Draw(t, "rawLen"); i++ {
			sb.WriteString(rapid.SampledFrom(queryAlphabet).Draw(t, "raw"))
		}
		if msg, _ := checkArgsDifferential(sb.String()); msg != "" {
			t.Fatalf("%s", msg)
		}
		if nt && rec.WantSample() {
			rec.Sample(l)
		}
	})
}

// ---------------------------------------------------------------------------
// URI.

type uriCase struct {
	Scheme, Host, Path, RawQuery, Hash string
	Args                               []kv
}

var hosts = []string{"example.com", "example.com:8080", "127.0.0.1:80", "[::1]", "[::1]:8080", "ExAmPlE.CoM", "a-b.c", "localhost"}
var schemes = []string{"http", "https", "ftp", "custom", "HTTP", "x+y"}

func noCTL(s string) bool {
	for i := 0; i < len(s); i++ {
		if s[i] < ' ' || s[i] == 0x7f {
			return false
		}
	}
	return true
}

func checkURI(c *uriCase) string {
	var u protocol.URI
	u.SetScheme(c.Scheme)
	u.SetHost(c.Host)
	u.SetPath(c.Path)
	if c.Args != nil {
		for _, e := range c.Args {
			if e.HasValue {
				u.QueryArgs().Add(e.K, e.V)
			} else {
				u.QueryArgs().Add(e.K, "")
			}
		}
	} else {
		u.SetQueryString(c.RawQuery)
	}
	u.SetHash(c.Hash)
	full := append([]byte(nil), u.FullURI()...)
	wantPath := string(u.Path())
	wantHost := string(u.Host())
	wantScheme := strings.ToLower(c.Scheme)
	var u2 protocol.URI
	u2.Parse(nil, full)
	if got := string(u2.Scheme()); got != wantScheme {
		return fmt.Sprintf("%+v -> %q: scheme parses back as %q, want %q", *c, full, got, wantScheme)
	}
	if got := string(u2.Host()); got != wantHost {
		return fmt.Sprintf("%+v -> %q: host parses back as %q, want %q", *c, full, got, wantHost)
	}
	if got := string(u2.Path()); got != wantPath {
		return fmt.Sprintf("%+v -> %q: path parses back as %q, want %q", *c, full, got, wantPath)
	}
	if got := string(u2.Hash()); got != c.Hash {
		return fmt.Sprintf("%+v -> %q: fragment parses back as %q, want %q", *c, full, got, c.Hash)
	}
	if c.Args != nil {
		var want []kv
		for _, e := range c.Args {
			if e.K == "" && e.V == "" {
				continue
			}
			v := e.V
			if !e.HasValue {
				v = ""
			}
			want = append(want, kv{K: e.K, V: v})
		}
		got := listOf(u2.QueryArgs())
		if fmt.Sprintf("%q", got) != fmt.Sprintf("%q", want) {
			return fmt.Sprintf("%+v -> %q: query args parse back as %q, want %q", *c, full, got, want)
		}
	} else if got := string(u2.QueryString()); got != c.RawQuery {
		return fmt.Sprintf("%+v -> %q: query string parses back as %q, want %q", *c, full, got, c.RawQuery)
	}
	full2 := append([]byte(nil), u2.FullURI()...)
	var u3 protocol.URI
	u3.Parse(nil, full2)
	if full3 := u3.FullURI(); !bytes.Equal(full2, full3) {
		return fmt.Sprintf("%+v: formatting is not a fixed point: %q -> %q -> %q", *c, full, full2, full3)
	}
	// RequestURI re-parsed with the host gives the same path and query
	var u4 protocol.URI
	u4.Parse(u2.Host(), append([]byte(nil), u2.RequestURI()...))
	if string(u4.Path()) != wantPath {
		return fmt.Sprintf("%+v: RequestURI %q re-parses to path %q, want %q", *c, u2.RequestURI(), u4.Path(), wantPath)
	}
	return ""
}

func TestC17URIExhaustive(t *testing.T) {
	rec := ev.New("uri-exhaustive")
	shard, nshards := ev.Shard()
	maxLen := 3
	if ev.Thorough() {
		maxLen = 4
	}
	var global, evals, nontriv, excluded, knownD36 int64
	fails := 0
	for n := 0; n <= maxLen; n++ {
		for i := 0; i < pow(len(alphabet), n); i++ {
			global++
			if global%int64(nshards) != int64(shard) {
				continue
			}
			s := nthString(alphabet, n, i)
			// the string is used as path, then as fragment, then as raw query, then as arg key/value
			cases := []*uriCase{
				{Scheme: "http", Host: "example.com", Path: "/" + s, Args: []kv{{"k", "v", true}}, Hash: "h"},
				{Scheme: "https", Host: "[::1]:8080", Path: "/p/" + s + "/q", RawQuery: "a=1", Hash: ""},
				{Scheme: "http", Host: "example.com:8080", Path: "/p", Args: []kv{{s, s, true}, {"z", "", false}}, Hash: "frag"},
			}
			if noCTL(s) {
				cases = append(cases, &uriCase{Scheme: "http", Host: "example.com", Path: "/p", RawQuery: "a=1", Hash: s})
				if !strings.Contains(s, "#") {
					cases = append(cases, &uriCase{Scheme: "ftp", Host: "127.0.0.1:80", Path: "/p", RawQuery: s, Hash: "x"})
				} else {
					excluded++
				}
			} else {
				// URI.parse refuses any string with a control byte. A raw query string is given in its wire
				// form, where a control byte must be escaped by the caller: excluded as a precondition. A
				// fragment is in the quantifier as an arbitrary byte string: FullURI writes it verbatim and
				// Parse then refuses the whole string. Known finding D36 (recorded, not repaired): the case
				// is run, must fail the way the finding says, and is counted as excluded by it.
				excluded++
				c := &uriCase{Scheme: "http", Host: "example.com", Path: "/p", RawQuery: "a=1", Hash: s}
				if msg := checkURI(c); msg != "" {
					knownD36++
					if !ev.ReportKnown(prop, "D36") {
						fails++
						ev.Fail(prop, "uri-exhaustive", c, msg)
						t.Errorf("%s", msg)
					}
				}
			}
			for _, c := range cases {
				evals++
				if needsEscape(s) {
					nontriv++
				}
				if msg := checkURI(c); msg != "" {
					fails++
					ev.Fail(prop, "uri-exhaustive", c, msg)
					t.Errorf("%s", msg)
					if fails > 5 {
						rec.Exact(evals, nontriv)
						return
					}
				}
			}
		}
	}
	rec.Exact(evals, nontriv)
	rec.Excluded("raw-query-with-CTL-or-#-(wire-form-precondition)", excluded)
	rec.Excluded("D36-fragment-with-control-byte", knownD36)
	rec.Exhaustive(fmt.Sprintf("every string of 0..%d symbols over %q used as path segment, inner path segment, arg key+value, fragment (no CTL) and raw query (no CTL, no '#')", maxLen, alphabet))
}

func TestC17URIRandom(t *testing.T) {
	rec := ev.New("uri-random")
	rapid.Check(t, func(t *rapid.T) {
		c := &uriCase{Scheme: rapid.SampledFrom(schemes).Draw(t, "scheme"), Host: rapid.SampledFrom(hosts).Draw(t, "host")}
		c.Path = "/" + genStr(t, "path", 30)
		if rapid.Bool().Draw(t, "useArgs") {
			c.Args = []kv{}
			for i := 0; i < rapid.IntRange(0, 5).Draw(t, "nArgs"); i++ {
				e := kv{K: genStr(t, "key", 8), V: genStr(t, "value", 20), HasValue: rapid.IntRange(0, 4).Draw(t, "hasValue") > 0}
				if !e.HasValue {
					e.V = ""
				}
				c.Args = append(c.Args, e)
			}
		} else {
			q := genStr(t, "rawQuery", 30)
			q = strings.Map(func(r rune) rune {
				if r == '#' || r < ' ' || r == 0x7f {
					return 'q'
				}
				return r
			}, strings.ToValidUTF8(q, "q"))
			c.RawQuery = q
		}
		h := strings.ToValidUTF8(genStr(t, "hash", 20), "h")
		c.Hash = strings.Map(func(r rune) rune {
			if r < ' ' || r == 0x7f {
				return 'h'
			}
			return r
		}, h)
		nt := needsEscape(c.Path) || needsEscape(c.Hash) || needsEscape(c.RawQuery)
		rec.Case(nt, ev.HashString(fmt.Sprintf("%q", *c)), "uri")
		if msg := checkURI(c); msg != "" {
			t.Fatalf("%s", msg)
		}
		if nt && rec.WantSample() {
			rec.Sample(c)
		}
	})
}

// ---------------------------------------------------------------------------
// Response cookies.

type cookieCase struct {
	Key, Value, Domain, Path string
	MaxAge                   int
	Expire                   int64 // unix seconds, 0 = none
	HTTPOnly, Secure, Part   bool
	SameSite                 int
	SameSiteFirst            bool // call SetSameSite before SetSecure
}

// inD126: known finding D126. The cookie writer emits the value as it is; the parser trims outer spaces and
// strips a pair of double quotes around the value: "a " comes back as "a", "\"abc\"" as "abc". A negative
// Max-Age (SetMaxAge(-1): "expire now") is not written at all and comes back as 0.
func inD126(cc *cookieCase) bool {
	v := cc.Value
	return strings.TrimSpace(v) != v || (len(v) > 1 && v[0] == '"' && v[len(v)-1] == '"') || cc.MaxAge < 0
}

// inD93: known finding D93. Cookie.SetPath percent-decodes the path it is given and the cookie is written with
// the decoded bytes: a path whose ';' or trailing/leading space was correctly escaped ("/a%3Bb", "/my%20file%20")
// is written raw, so the ';' ends the path (what follows is read as attributes) and the space is trimmed.
func inD93(cc *cookieCase) bool {
	var c protocol.Cookie
	c.SetPath(cc.Path)
	held := string(c.Path())
	return held != cc.Path && (strings.Contains(held, ";") || strings.TrimSpace(held) != held)
}

func checkCookie(cc *cookieCase) string {
	var c protocol.Cookie
	c.SetKey(cc.Key)
	c.SetValue(cc.Value)
	if cc.MaxAge != 0 {
		c.SetMaxAge(cc.MaxAge)
	}
	if cc.Expire != 0 {
		c.SetExpire(time.Unix(cc.Expire, 0).UTC())
	}
	if cc.Domain != "" {
		c.SetDomain(cc.Domain)
	}
	if cc.Path != "" {
		c.SetPath(cc.Path)
	}
	c.SetHTTPOnly(cc.HTTPOnly)
	if cc.SameSiteFirst {
		// SetSameSite(None) switches Secure on; an application may switch it off again afterwards
		c.SetSameSite(protocol.CookieSameSite(cc.SameSite))
		c.SetSecure(cc.Secure)
	} else {
		c.SetSecure(cc.Secure)
		c.SetSameSite(protocol.CookieSameSite(cc.SameSite))
	}
	c.SetPartitioned(cc.Part)
	s := append([]byte(nil), c.Cookie()...)
	var p protocol.Cookie
	if err := p.ParseBytes(s); err != nil {
		return fmt.Sprintf("%+v -> %q: parse error %v", *cc, s, err)
	}
	if string(p.Key()) != cc.Key || string(p.Value()) != cc.Value {
		return fmt.Sprintf("%+v -> %q: key/value parse back as %q=%q", *cc, s, p.Key(), p.Value())
	}
	if string(p.Domain()) != string(c.Domain()) || string(p.Path()) != string(c.Path()) {
		return fmt.Sprintf("%+v -> %q: domain/path parse back as %q %q, want %q %q", *cc, s, p.Domain(), p.Path(), c.Domain(), c.Path())
	}
	if p.HTTPOnly() != c.HTTPOnly() || p.Secure() != c.Secure() || p.Partitioned() != c.Partitioned() || p.SameSite() != c.SameSite() {
		return fmt.Sprintf("%+v -> %q: flags parse back as httponly=%v secure=%v partitioned=%v samesite=%v, want %v %v %v %v", *cc, s, p.HTTPOnly(), p.Secure(), p.Partitioned(), p.SameSite(), c.HTTPOnly(), c.Secure(), c.Partitioned(), c.SameSite())
	}
	if cc.MaxAge != 0 {
		if p.MaxAge() != cc.MaxAge {
			return fmt.Sprintf("%+v -> %q: Max-Age parses back as %d", *cc, s, p.MaxAge())
		}
	} else if cc.Expire != 0 {
		if !p.Expire().Equal(time.Unix(cc.Expire, 0)) {
			return fmt.Sprintf("%+v -> %q: Expires parses back as %v, want %v", *cc, s, p.Expire().UTC(), time.Unix(cc.Expire, 0).UTC())
		}
	} else if !p.Expire().Equal(protocol.CookieExpireUnlimited) || p.MaxAge() != 0 {
		return fmt.Sprintf("%+v -> %q: an expiry appeared: %v / %d", *cc, s, p.Expire(), p.MaxAge())
	}
	if s2 := p.Cookie(); !bytes.Equal(s, s2) {
		return fmt.Sprintf("%+v: formatting the parsed cookie is not a fixed point: %q -> %q", *cc, s, s2)
	}
	// the same string received as a Set-Cookie header: the response header files it under its key
	var h protocol.ResponseHeader
	h.ParseSetCookie(s)
	var byKey protocol.Cookie
	byKey.SetKey(cc.Key)
	if !h.Cookie(&byKey) {
		var keys []string
		h.VisitAllCookie(func(k, _ []byte) { keys = append(keys, string(k)) })
		return fmt.Sprintf("%+v -> %q: a response header that received this Set-Cookie does not find it under its key %q (filed under %q)", *cc, s, cc.Key, keys)
	}
	if string(byKey.Value()) != cc.Value {
		return fmt.Sprintf("%+v -> %q: looked up in a response header the value is %q", *cc, s, byKey.Value())
	}
	return ""
}

// "": the nameless cookie of the SetCookie documentation ("Set-Cookie: hertz; max-age=10; ..."); when its value
// contains '=' (base64 padding, "a=b") the written form has to keep it apart from a named one ("=a=b")
var cookieKeys = []string{"", "k", "session_id", "a-b.c", "A1", "__Host-x", "!#$%&'*+-.^_`|~"}

// "a ", " a", "\"abc\"": values the setter accepts (its validity table has no complaint) whose outer space or
// quotes the parser strips: known finding D126
var cookieValues = []string{"a ", " a", "\"abc\"", "", "v", "abc123", "a=b", "x%20y", "a/b?c", "!#$&'()*+-./:<=>?@[]^_`{|}~", "1,2"}
var cookieDomains = []string{"", "example.com", ".example.com", "a.b.c"}

// "/%2541", "/a%2520b": SetPath decodes once, the cookie then holds (and writes) a literal %XX, which parsing must not decode again
var cookiePaths = []string{"", "/", "/a/b", "/a b", "/%41", "/%2541", "/a%2520b/%252e%252e"}

func TestC17CookieExhaustive(t *testing.T) {
	rec := ev.New("cookie-exhaustive")
	shard, nshards := ev.Shard()
	var global, evals, nontriv, knownD126 int64
	fails := 0
	expires := []int64{0, 1, 86400 * 365 * 30, 253402300799, 1257894000}
	for _, k := range cookieKeys {
		for _, v := range cookieValues {
			if k == "" && v == "" {
				continue
			}
			for _, d := range cookieDomains {
				for _, p := range cookiePaths {
					for flags := 0; flags < 8; flags++ {
						for ss := 0; ss <= 4; ss++ {
							for _, ma := range []int{0, 1, 3600, 2147483647, -1} {
								for _, ex := range expires {
									global++
									if global%int64(nshards) != int64(shard) {
										continue
									}
									cc := &cookieCase{Key: k, Value: v, Domain: d, Path: p, MaxAge: ma, Expire: ex, HTTPOnly: flags&1 != 0, Secure: flags&2 != 0, Part: flags&4 != 0, SameSite: ss, SameSiteFirst: global%2 == 0}
									evals++
									if flags != 0 || ss != 0 || ma != 0 || ex != 0 {
										nontriv++
									}
									if msg := checkCookie(cc); msg != "" {
										if inD126(cc) && ev.ReportKnown(prop, "D126") {
											knownD126++
											continue
										}
										fails++
										ev.Fail(prop, "cookie-exhaustive", cc, msg)
										t.Errorf("%s", msg)
										if fails > 5 {
											rec.Exact(evals, nontriv)
											return
										}
									}
									if evals%50021 == 1 && rec.WantSample() {
										rec.Sample(cc)
									}
								}
							}
						}
					}
				}
			}
		}
	}
	rec.Excluded("D126-cookie-value-with-outer-space-or-quotes-or-negative-max-age", knownD126)
	rec.Exact(evals, nontriv)
	rec.Exhaustive("keys x values x domains x paths x all 8 flag subsets {HttpOnly, Secure, Partitioned} x 5 SameSite modes x Max-Age {0,1,3600,2^31-1} x Expires {none, 1970, 1999, 9999-12-31, 2009}")
}

func TestC17CookieRandom(t *testing.T) {
	rec := ev.New("cookie-random")
	tokenChars := "abcdefghijklmnopqrstuvwxyzABCDEFGHIJKLMNOPQRSTUVWXYZ0123456789!#$%&'*+-.^_`|~"
	valueChars := "abcdefghijklmnopqrstuvwxyzABCDEFGHIJKLMNOPQRSTUVWXYZ0123456789!#$%&'()*+-./:<=>?@[]^_`{|}~"
	rapid.Check(t, func(t *rapid.T) {
		gen := func(chars string, label string, min, max int) string {
			n := rapid.IntRange(min, max).Draw(t, label+"Len")
			b := make([]byte, n)
			for i := range b {
				b[i] = chars[rapid.IntRange(0, len(chars)-1).Draw(t, label)]
			}
			return string(b)
		}
		cc := &cookieCase{Key: gen(tokenChars, "key", 1, 12), Value: gen(valueChars, "value", 0, 30)}
		if rapid.Bool().Draw(t, "domain") {
			cc.Domain = gen("abcdefghijklmnopqrstuvwxyz0123456789.-", "domain", 1, 20)
		}
		if rapid.Bool().Draw(t, "path") {
			cc.Path = "/" + gen(valueChars, "path", 0, 20)
			if rapid.IntRange(0, 5).Draw(t, "escapedSeparator") == 0 {
				// a ';' or an outer space, correctly escaped by the application (a cookie scoped to the request path)
				cc.Path += rapid.SampledFrom([]string{"%3B", "%3b%20HttpOnly", "%3B%20Domain=evil.test", "%20", "/my%20file%20"}).Draw(t, "escapedSep") + gen(valueChars, "pathTail2", 0, 3)
			}
			if rapid.IntRange(0, 3).Draw(t, "doubleEncoded") == 0 {
				cc.Path += rapid.SampledFrom([]string{"%2541", "%2520", "%252f", "%25", "%2525"}).Draw(t, "escapedPercent") + gen(valueChars, "pathTail", 0, 4)
			}
		}
		if rapid.Bool().Draw(t, "maxAge") {
			cc.MaxAge = rapid.IntRange(1, 1<<31-1).Draw(t, "maxAgeV")
		}
		if rapid.Bool().Draw(t, "expire") {
			cc.Expire = rapid.Int64Range(1, 253402300799).Draw(t, "expireV")
		}
		cc.HTTPOnly = rapid.Bool().Draw(t, "httpOnly")
		cc.Secure = rapid.Bool().Draw(t, "secure")
		cc.Part = rapid.Bool().Draw(t, "partitioned")
		cc.SameSite = rapid.IntRange(0, 4).Draw(t, "sameSite")
		cc.SameSiteFirst = rapid.Bool().Draw(t, "sameSiteFirst")
		rec.Case(cc.MaxAge != 0 || cc.Expire != 0 || cc.SameSite != 0, ev.HashString(fmt.Sprintf("%+v", *cc)), "cookie")
		msg := checkCookie(cc)
		if msg != "" && inD93(cc) && ev.ReportKnown(prop, "D93") {
			rec.Excluded("D93-cookie-path-with-an-escaped-semicolon-or-outer-space", 1)
			return
		}
		if msg != "" && inD126(cc) && ev.ReportKnown(prop, "D126") {
			rec.Excluded("D126-cookie-value-with-outer-space-or-quotes-or-negative-max-age", 1)
			return
		}
		if msg != "" {
			t.Fatalf("%s", msg)
		}
		if rec.WantSample() {
			rec.Sample(cc)
		}
	})
}

// ---------------------------------------------------------------------------
// URI setter programs: "assembled through the setters" includes assembling in several steps, reading
// in between and changing one's mind. The oracle is the URI's own view when the string is taken
// (Scheme/Host/Path/Hash getters and the argument list of QueryArgs, read from a copy so that
// looking does not change the subject), compared with what parsing the full string yields.

type uriOp struct {
	Op   string `json:"op"` // set-query-string, args-add, args-del, args-peek, set-path, set-hash, set-host, copy
	A, B string `json:",omitempty"`
}

type uriProgram struct {
	NoNorm bool    `json:"disable_path_normalizing"`
	Ops    []uriOp `json:"ops"`
}

func runURIProgram(p *uriProgram) string {
	u := &protocol.URI{}
	u.DisablePathNormalizing = p.NoNorm
	u.SetScheme("http")
	u.SetHost("example.com")
	for _, o := range p.Ops {
		switch o.Op {
		case "set-query-string":
			u.SetQueryString(o.A)
		case "args-add":
			u.QueryArgs().Add(o.A, o.B)
		case "args-del":
			u.QueryArgs().Del(o.A)
		case "args-peek":
			_ = u.QueryArgs().Peek(o.A)
		case "set-path":
			u.SetPath(o.A)
		case "set-hash":
			u.SetHash(o.A)
		case "set-host":
			u.SetHost(o.A)
		case "update":
			wantHost := strings.ToLower(string(u.Host()))
			ref := o.A
			if i := strings.Index(ref, "://"); i > 0 && !strings.ContainsAny(ref[:i], "/?#") {
				ref = ref[i+1:]
			}
			if strings.HasPrefix(ref, "//") {
				wantHost = strings.ToLower(ref[2:])
				if i := strings.IndexAny(wantHost, "/?#"); i >= 0 {
					wantHost = wantHost[:i]
				}
			}
			u.Update(o.A)
			// "//" introduces an authority only at the start of a reference or directly behind "scheme:"
			if got := string(u.Host()); got != wantHost {
				return fmt.Sprintf("Update(%q): the host is %q afterwards, want %q (full URI %q)", o.A, got, wantHost, u.FullURI())
			}
		case "copy":
			c := &protocol.URI{}
			u.CopyTo(c)
			u = c
		}
	}
	view := &protocol.URI{}
	u.CopyTo(view)
	wantArgs := listOf(view.QueryArgs())
	wantHost, wantHash := string(u.Host()), string(u.Hash())
	wantPath := string(u.Path())
	// (Update re-parses the URI, which switches the option off again: the URI's own flag says what it holds)
	noNorm := u.DisablePathNormalizing
	if noNorm {
		wantPath = string(u.PathOriginal())
		if wantPath == "" {
			wantPath = "/"
		}
	}
	wantQS := string(u.QueryString())
	full := append([]byte(nil), u.FullURI()...)
	var u2 protocol.URI
	u2.Parse(nil, full)
	// the same getter on both sides: the query string the URI reports is the one it writes
	if got := string(u2.QueryString()); got != wantQS && !strings.ContainsAny(wantQS, "#") {
		return fmt.Sprintf("%q: QueryString() of the parsed string is %q, the URI itself reported %q", full, got, wantQS)
	}
	gotPath := string(u2.Path())
	if noNorm {
		gotPath = string(u2.PathOriginal())
	}
	if got := string(u2.Host()); got != wantHost {
		return fmt.Sprintf("%q: host parses back as %q, want %q", full, got, wantHost)
	}
	if gotPath != wantPath {
		return fmt.Sprintf("%q: path parses back as %q, want %q", full, gotPath, wantPath)
	}
	if got := string(u2.Hash()); got != wantHash {
		return fmt.Sprintf("%q: fragment parses back as %q, want %q", full, got, wantHash)
	}
	var want []kv
	for _, e := range wantArgs {
		if e.K != "" || e.V != "" {
			want = append(want, kv{K: e.K, V: e.V})
		}
	}
	var got []kv
	for _, e := range listOf(u2.QueryArgs()) {
		got = append(got, kv{K: e.K, V: e.V})
	}
	if fmt.Sprintf("%q", got) != fmt.Sprintf("%q", want) {
		return fmt.Sprintf("%q: query parses back as %q, but the URI's own QueryArgs() held %q when the string was taken", full, got, want)
	}
	full2 := append([]byte(nil), u2.FullURI()...)
	var u3 protocol.URI
	u3.Parse(nil, full2)
	if full3 := u3.FullURI(); !bytes.Equal(full2, full3) {
		return fmt.Sprintf("formatting is not a fixed point: %q -> %q -> %q", full, full2, full3)
	}
	return ""
}

func TestC17URIPrograms(t *testing.T) {
	rec := ev.New("uri-programs")
	keys := []string{"a", "b", "token", "k k", "é"}
	vals := []string{"", "1", "x y", "a&b=c", "/home", "%41"}
	raws := []string{"", "a=1", "b=2&a=3", "token=secret", "a", "a=1&&b", "next=/home", "k%20k=v"}
	rapid.Check(t, func(t *rapid.T) {
		p := &uriProgram{NoNorm: rapid.IntRange(0, 3).Draw(t, "disablePathNormalizing") == 0}
		n := rapid.IntRange(1, 7).Draw(t, "nOps")
		queryOps, reads := 0, 0
		for i := 0; i < n; i++ {
			o := uriOp{Op: rapid.SampledFrom([]string{"set-query-string", "set-query-string", "args-add", "args-del", "args-peek", "set-path", "set-hash", "set-host", "copy", "update"}).Draw(t, "op")}
			switch o.Op {
			case "set-query-string":
				o.A = rapid.SampledFrom(raws).Draw(t, "raw")
				queryOps++
			case "args-add":
				o.A, o.B = rapid.SampledFrom(keys).Draw(t, "k"), rapid.SampledFrom(vals).Draw(t, "v")
				queryOps++
			case "args-del", "args-peek":
				o.A = rapid.SampledFrom(keys).Draw(t, "k")
				reads++
			case "set-path":
				if p.NoNorm {
					// with normalisation off the caller supplies the path in its wire form
					o.A = rapid.SampledFrom([]string{"", "/", "/a", "/a/b/", "/a%20b", "/a/../b", "/%41"}).Draw(t, "rawPath")
				} else {
					o.A = "/" + genStr(t, "path", 12)
				}
			case "update":
				// a URI reference as a Location header or a link carries it (Redirect and the client's redirect following go through Update)
				o.A = rapid.SampledFrom([]string{"?page=2#top", "?page=2", "#top", "b?x=1#y", "/p?x=1#y", "?#", "?a=1&b=2#", "//other.example/z?k=v#h", "c",
					"/login?next=http://a.com/home", "/x//y", "page?u=//cdn.example/z", "?u=//cdn.example/z", "#sec//2", "http://third.example/p?q=1"}).Draw(t, "reference")
				queryOps++
			case "set-hash":
				o.A = rapid.SampledFrom([]string{"", "frag", "a?b", "a#b", "é"}).Draw(t, "hash")
			case "set-host":
				o.A = rapid.SampledFrom(hosts).Draw(t, "host")
			}
			p.Ops = append(p.Ops, o)
		}
		nt := queryOps >= 2 || (queryOps >= 1 && reads >= 1) || p.NoNorm
		cls := []string{"uri-program"}
		if p.NoNorm {
			cls = append(cls, "path-normalizing-disabled")
		}
		rec.Case(nt, ev.HashString(fmt.Sprintf("%+v", *p)), cls...)
		if msg := runURIProgram(p); msg != "" {
			t.Fatalf("%s\nprogram: %+v", msg, *p)
		}
		if nt && rec.WantSample() {
			rec.Sample(p)
		}
	})
}
