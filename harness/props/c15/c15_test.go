package c15

import (
	"fmt"
	"math"
	"os"
	"reflect"
	"runtime/debug"
	"strconv"
	"strings"
	"sync"
	"sync/atomic"
	"testing"

	"github.com/cloudwego/hertz/pkg/app/server/binding"
	"github.com/cloudwego/hertz/pkg/common/test/mock"
	"github.com/cloudwego/hertz/pkg/protocol"
	"github.com/cloudwego/hertz/pkg/protocol/http1/req"
	"github.com/cloudwego/hertz/pkg/route/param"
	"pgregory.net/rapid"

	"verifharness/ev"
	_ "verifharness/sconn"
)

const prop = "C15"

func TestMain(m *testing.M) {
	code := m.Run()
	ev.Flush()
	os.Exit(code)
}

var sources = []string{"path", "form", "query", "cookie", "header", "json"}

var scalarKinds = []reflect.Kind{reflect.Bool, reflect.Int, reflect.Int8, reflect.Int16, reflect.Int32, reflect.Int64,
	reflect.Uint, reflect.Uint8, reflect.Uint16, reflect.Uint32, reflect.Uint64, reflect.Float32, reflect.Float64, reflect.String}

func kindType(k reflect.Kind) reflect.Type {
	switch k {
	case reflect.Bool:
		return reflect.TypeOf(false)
	case reflect.Int:
		return reflect.TypeOf(int(0))
	case reflect.Int8:
		return reflect.TypeOf(int8(0))
	case reflect.Int16:
		return reflect.TypeOf(int16(0))
	case reflect.Int32:
		return reflect.TypeOf(int32(0))
	case reflect.Int64:
		return reflect.TypeOf(int64(0))
	case reflect.Uint:
		return reflect.TypeOf(uint(0))
	case reflect.Uint8:
		return reflect.TypeOf(uint8(0))
	case reflect.Uint16:
		return reflect.TypeOf(uint16(0))
	case reflect.Uint32:
		return reflect.TypeOf(uint32(0))
	case reflect.Uint64:
		return reflect.TypeOf(uint64(0))
	case reflect.Float32:
		return reflect.TypeOf(float32(0))
	case reflect.Float64:
		return reflect.TypeOf(float64(0))
	}
	return reflect.TypeOf("")
}

// FieldSpec describes one generated struct field.
type FieldSpec struct {
	Name     string            `json:"name"`
	Kind     string            `json:"kind"`
	Shape    string            `json:"shape"` // "scalar", "ptr", "slice"
	Tags     map[string]string `json:"tags"`  // source -> key ("" map = untagged)
	Required string            `json:"required,omitempty"`
	Default  string            `json:"default,omitempty"`
	// Embedded: the field lives in an embedded struct without a tag of its own (a shared "paging" or "auth" struct);
	// the body decoder flattens such a struct, every source knows the field by the same key as before
	Embedded bool `json:"embedded,omitempty"`
	// UnexportedTwin: the struct also has an unexported int field whose name equals this field's json name ignoring case
	UnexportedTwin bool `json:"unexported_twin,omitempty"`
	kind           reflect.Kind
}

// ReqSpec says which sources carry a value for which field.
type ReqSpec struct {
	Body string `json:"body"` // "none", "form", "multipart", "json"
	// CT: how the media type of a json body is spelled ("" = application/json); media types are case-insensitive
	CT string `json:"content_type,omitempty"`
	// Streamed: the json body arrives chunked on a server that streams request bodies (the request carries a body stream, no length)
	Streamed bool `json:"streamed,omitempty"`
	// PreRead: something (a middleware) has called Request.Body() on the streamed request before Bind
	PreRead bool `json:"pre_read,omitempty"`
	// Recycled: the request is parsed into a Request object that carried another request (with User-Agent, Content-Type,
	// cookies, a body) and was Reset, as the server's context pool does on every connection
	Recycled bool `json:"recycled,omitempty"`
	// NoNorm: the server keeps header names as they were sent (WithDisableHeaderNamesNormalizing); the client spells
	// them exactly as the tag does (the pinned Test_BindHeaderNormalize wants tag and header to be "consistent" in
	// that mode: another spelling is not bound, by decision of the maintainers)
	NoNorm bool `json:"header_names_not_normalized,omitempty"`
	// JSONKeyCase: the body spells its keys in another case than the json names (1 upper, 2 lower, 3 first letter
	// swapped). The body decoder matches keys ignoring case when no key matches exactly (encoding/json rules, which
	// sonic follows), so the body is as present as with the exact spelling.
	JSONKeyCase int `json:"json_key_case,omitempty"`
	// NestedDecoy: beside the flattened keys ("j.f1") the body has an object under the part before the dot: 1 an
	// empty one ("j":{}), 2 one with members named like the parts behind the dot ("j":{"f1":..}). Neither is
	// the key the tag names.
	NestedDecoy int                            `json:"nested_decoy,omitempty"`
	Values      map[string]map[string][]string `json:"values"` // field -> source -> texts
}

func validText(t *rapid.T, k reflect.Kind) string {
	switch k {
	case reflect.Bool:
		return rapid.SampledFrom([]string{"true", "false", "1", "0", "T", "f", "TRUE"}).Draw(t, "boolText")
	case reflect.String:
		return rapid.SampledFrom([]string{"a", "hello", "x y", "é", "0", "true", "a=b"}).Draw(t, "strText")
	case reflect.Float32, reflect.Float64:
		return rapid.SampledFrom([]string{"0", "1.5", "-2.25", "1e3", "3", "-0.5"}).Draw(t, "floatText")
	}
	bits := map[reflect.Kind]int{reflect.Int: 64, reflect.Int8: 8, reflect.Int16: 16, reflect.Int32: 32, reflect.Int64: 64, reflect.Uint: 64, reflect.Uint8: 8, reflect.Uint16: 16, reflect.Uint32: 32, reflect.Uint64: 64}[k]
	unsigned := k >= reflect.Uint && k <= reflect.Uint64
	switch rapid.IntRange(0, 4).Draw(t, "intClass") {
	case 0:
		if unsigned {
			return strconv.FormatUint(math.MaxUint64>>(64-uint(bits)), 10)
		}
		return strconv.FormatInt(math.MaxInt64>>(64-uint(bits)), 10)
	case 1:
		if unsigned {
			return "0"
		}
		return strconv.FormatInt(math.MinInt64>>(64-uint(bits)), 10)
	}
	v := rapid.IntRange(0, 100).Draw(t, "smallInt")
	if !unsigned && rapid.Bool().Draw(t, "neg") {
		v = -v
	}
	return strconv.Itoa(v)
}

func invalidText(t *rapid.T, k reflect.Kind) string {
	switch k {
	case reflect.Bool:
		return rapid.SampledFrom([]string{"yes", "2", "tru"}).Draw(t, "badBool")
	case reflect.Float32, reflect.Float64:
		return rapid.SampledFrom([]string{"x", "1.2.3", "--1"}).Draw(t, "badFloat")
	case reflect.Int8:
		return rapid.SampledFrom([]string{"128", "-129", "a", "1.0"}).Draw(t, "badInt")
	case reflect.Uint8:
		return rapid.SampledFrom([]string{"256", "-1", "a"}).Draw(t, "badInt")
	case reflect.Int16:
		return rapid.SampledFrom([]string{"32768", "x"}).Draw(t, "badInt")
	case reflect.Uint16:
		return rapid.SampledFrom([]string{"65536", "-1"}).Draw(t, "badInt")
	case reflect.Int32:
		return rapid.SampledFrom([]string{"2147483648", "1e3"}).Draw(t, "badInt")
	case reflect.Uint32:
		return rapid.SampledFrom([]string{"4294967296", "-5"}).Draw(t, "badInt")
	case reflect.Int, reflect.Int64:
		return rapid.SampledFrom([]string{"9223372036854775808", "abc"}).Draw(t, "badInt")
	case reflect.Uint, reflect.Uint64:
		return rapid.SampledFrom([]string{"18446744073709551616", "-1"}).Draw(t, "badInt")
	}
	return ""
}

// convert applies the usual Go text rules.
func convert(k reflect.Kind, s string) (reflect.Value, error) {
	v := reflect.New(kindType(k)).Elem()
	switch k {
	case reflect.Bool:
		b, err := strconv.ParseBool(s)
		if err != nil {
			return v, err
		}
		v.SetBool(b)
	case reflect.String:
		v.SetString(s)
	case reflect.Float32, reflect.Float64:
		bits := 64
		if k == reflect.Float32 {
			bits = 32
		}
		f, err := strconv.ParseFloat(s, bits)
		if err != nil {
			return v, err
		}
		v.SetFloat(f)
	case reflect.Int, reflect.Int8, reflect.Int16, reflect.Int32, reflect.Int64:
		i, err := strconv.ParseInt(s, 10, kindType(k).Bits())
		if err != nil {
			return v, err
		}
		v.SetInt(i)
	default:
		u, err := strconv.ParseUint(s, 10, kindType(k).Bits())
		if err != nil {
			return v, err
		}
		v.SetUint(u)
	}
	return v, nil
}

type genCase struct {
	Fields []FieldSpec `json:"fields"`
	Req    ReqSpec     `json:"request"`
	typ    reflect.Type
}

var typeCounter int

func genFields(t *rapid.T) []FieldSpec {
	n := rapid.IntRange(1, 6).Draw(t, "nFields")
	var fs []FieldSpec
	uaUsed := false
	for i := 0; i < n; i++ {
		k := rapid.SampledFrom(scalarKinds).Draw(t, "kind")
		// field names differ between types at the same position, tag literals may coincide (see buildType)
		f := FieldSpec{Name: rapid.SampledFrom([]string{"F", "G", "Limit", "Offset", "Alpha"}).Draw(t, "namePrefix") + fmt.Sprint(i), Kind: k.String(), kind: k, Shape: "scalar", Tags: map[string]string{}}
		switch rapid.IntRange(0, 9).Draw(t, "shape") {
		case 0, 1:
			f.Shape = "ptr"
		case 2:
			f.Shape = "slice"
		}
		if rapid.IntRange(0, 7).Draw(t, "untagged") != 0 {
			for _, s := range sources {
				if rapid.IntRange(0, 2).Draw(t, "hasTag-"+s) == 0 {
					continue
				}
				key := fmt.Sprintf("%s_f%d", s[:1], i)
				if s == "form" {
					key = fmt.Sprintf("fo_f%d", i)
				}
				if s == "header" {
					key = fmt.Sprintf("X-H-F%d", i)
					if rapid.IntRange(0, 2).Draw(t, "headerTagLowerCase") == 0 {
						key = fmt.Sprintf("x-h-f%d", i) // header names are case-insensitive
					}
					if !uaUsed && rapid.IntRange(0, 3).Draw(t, "headerTagUserAgent") == 0 {
						key, uaUsed = "User-Agent", true // a header hertz keeps in a field of its own
					}
				}
				if s == "json" && rapid.IntRange(0, 4).Draw(t, "dottedJSONName") == 0 {
					key = fmt.Sprintf("j.f%d", i) // a flattened key name ("user.name"); the dot is part of the name
				}
				if s != "json" && rapid.IntRange(0, 9).Draw(t, "sourceSkipped") == 0 {
					key = "-" // `query:"-"`: not a source of this field (like json:"-"); a declared default stays its default
				}
				if key != "-" && s != "header" && s != "cookie" && rapid.IntRange(0, 7).Draw(t, "emptyTagName") == 0 {
					key = "" // `query:""` / `query:",required"`: the key falls back to the field name
				}
				f.Tags[s] = key
			}
			if jk := f.Tags["json"]; strings.HasPrefix(jk, "j_f") && i > 0 && rapid.IntRange(0, 5).Draw(t, "jsonNameCaseTwin") == 0 {
				// two fields whose json names differ only in case ("j_f0" and "J_F0"): the body decoder gives a key to the
				// field that spells it exactly, the other one has no value
				if pk := fs[i-1].Tags["json"]; strings.HasPrefix(pk, "j_f") {
					f.Tags["json"] = strings.ToUpper(pk)
				}
			}
			if strings.HasPrefix(f.Tags["json"], "j_f") && rapid.IntRange(0, 2).Draw(t, "unexportedTwin") == 0 {
				f.UnexportedTwin = true
			}
			if _, has := f.Tags["json"]; !has && rapid.IntRange(0, 4).Draw(t, "jsonSkipped") == 0 {
				// the field is kept out of the body; a body key with the field's Go name is a decoy. (As the only tag
				// it leaves the field without any source: it keeps its zero or default value.)
				f.Tags["json"] = "-"
			}
			if len(f.Tags) > 0 && rapid.IntRange(0, 3).Draw(t, "required") == 0 {
				var ts []string
				for _, s := range sources {
					if _, ok := keyFor(&f, s); ok {
						ts = append(ts, s)
					}
				}
				if len(ts) > 0 {
					f.Required = rapid.SampledFrom(ts).Draw(t, "requiredOn")
				}
			}
		}
		if len(f.Tags) == 0 && rapid.IntRange(0, 2).Draw(t, "onlyJSONSkipped") == 0 {
			f.Tags["json"] = "-" // no source at all: the field keeps its zero or default value, whatever the body says
		}
		if f.Shape != "slice" && rapid.IntRange(0, 3).Draw(t, "default") == 0 {
			f.Default = validText(t, k)
			if k == reflect.String {
				f.Default = "dflt"
			}
		}
		fs = append(fs, f)
	}
	twins := false
	for i := range fs {
		if strings.HasPrefix(fs[i].Tags["json"], "J_F") {
			twins = true
		}
	}
	// (json names that differ only in case are kept on one level: across an embedding the shallower field wins in
	// the body decoder, a rule of encoding/json the reference does not model)
	if !twins && rapid.IntRange(0, 3).Draw(t, "embedTrailingFields") == 0 {
		k := rapid.IntRange(1, len(fs)).Draw(t, "nEmbedded")
		for i := len(fs) - k; i < len(fs); i++ {
			fs[i].Embedded = true
		}
	}
	return fs
}

func buildType(fs []FieldSpec) reflect.Type {
	var sf, emb []reflect.StructField
	for _, f := range fs {
		ty := kindType(f.kind)
		switch f.Shape {
		case "ptr":
			ty = reflect.PtrTo(ty)
		case "slice":
			ty = reflect.SliceOf(ty)
		}
		var tag []string
		for _, s := range sources {
			if key, ok := f.Tags[s]; ok {
				v := key
				if f.Required == s {
					v += ",required"
				}
				tag = append(tag, fmt.Sprintf("%s:%q", s, v))
			}
		}
		if f.Default != "" {
			tag = append(tag, fmt.Sprintf("default:%q", f.Default))
		}
		// every generated type must be a new type identity (cold decoder cache): on even counters a
		// unique marker tag on every field does it, on odd ones a trailing marker field, so that the tag
		// literals of the real fields can coincide across fields and types (`default:"7"` twice)
		if typeCounter%2 == 0 {
			tag = append(tag, fmt.Sprintf("vmark:\"%d-%s\"", typeCounter, f.Name))
		}
		if f.Embedded {
			emb = append(emb, reflect.StructField{Name: f.Name, Type: ty, Tag: reflect.StructTag(strings.Join(tag, " "))})
			continue
		}
		sf = append(sf, reflect.StructField{Name: f.Name, Type: ty, Tag: reflect.StructTag(strings.Join(tag, " "))})
	}
	if len(emb) > 0 {
		sf = append(sf, reflect.StructField{Name: "Emb", Type: reflect.StructOf(emb), Anonymous: true})
	}
	for _, f := range fs {
		// an unexported sibling whose name equals a json name ignoring case: the body decoder cannot fill it, it claims no key
		if f.UnexportedTwin && strings.HasPrefix(f.Tags["json"], "j_f") && !f.Embedded {
			sf = append(sf, reflect.StructField{Name: "j_F" + f.Tags["json"][3:], PkgPath: "verifharness/props/c15", Type: reflect.TypeOf(0)})
		}
	}
	if typeCounter%2 == 1 {
		sf = append(sf, reflect.StructField{Name: fmt.Sprintf("Zmark%d", typeCounter), Type: reflect.TypeOf(false), Tag: `json:"-"`})
	}
	typeCounter++
	return reflect.StructOf(sf)
}

func keyFor(f *FieldSpec, src string) (string, bool) {
	if src == "json" && f.Tags["json"] == "-" {
		return "", false // `json:"-"`: the body is no source for this field
	}
	if len(f.Tags) == 0 {
		return f.Name, true // untagged: the field name, for every source
	}
	k, ok := f.Tags[src]
	if ok && k == "-" {
		return "", false // `query:"-"`: this source is skipped for the field
	}
	if ok && k == "" {
		return f.Name, true // empty tag name: the field name
	}
	return k, ok
}

func genReq(t *rapid.T, fs []FieldSpec, allowInvalid bool) (ReqSpec, bool) {
	r := ReqSpec{Body: rapid.SampledFrom([]string{"none", "form", "multipart", "json", "json", "form"}).Draw(t, "body"), Values: map[string]map[string][]string{}}
	if r.Body == "json" {
		r.CT = rapid.SampledFrom([]string{"", "", "", "Application/JSON", "application/json; charset=utf-8", "application/JSON;charset=UTF-8"}).Draw(t, "contentTypeSpelling")
		r.Streamed = rapid.IntRange(0, 3).Draw(t, "streamedBody") == 0
		if r.Streamed {
			r.PreRead = rapid.IntRange(0, 2).Draw(t, "bodyReadBeforeBind") == 0
		}
	}
	if r.Body == "form" {
		r.CT = rapid.SampledFrom([]string{"", "", "", "Application/X-WWW-Form-Urlencoded", "application/x-www-form-urlencoded; charset=UTF-8", "APPLICATION/X-WWW-FORM-URLENCODED"}).Draw(t, "contentTypeSpelling")
	}
	if r.Body == "multipart" {
		r.CT = rapid.SampledFrom([]string{"", "", "", "Multipart/Form-Data; boundary=BOUND", "multipart/form-data; Boundary=BOUND", "multipart/form-data; charset=utf-8; boundary=BOUND"}).Draw(t, "contentTypeSpelling")
	}
	caseTwins := false
	for i := range fs {
		if strings.HasPrefix(fs[i].Tags["json"], "J_F") {
			caseTwins = true
		}
	}
	odds := 3
	for i := range fs {
		if fs[i].UnexportedTwin {
			odds = 1
		}
	}
	if r.Body == "json" && !caseTwins && rapid.IntRange(0, odds).Draw(t, "jsonKeysInAnotherCase") == 0 {
		r.JSONKeyCase = rapid.IntRange(1, 3).Draw(t, "jsonKeyCase")
	}
	if r.Body == "json" {
		for i := range fs {
			if strings.HasPrefix(fs[i].Tags["json"], "j.") {
				r.NestedDecoy = rapid.IntRange(0, 2).Draw(t, "nestedDecoy")
				break
			}
		}
	}
	r.Recycled = rapid.IntRange(0, 2).Draw(t, "recycledRequest") == 0
	r.NoNorm = rapid.IntRange(0, 3).Draw(t, "headerNamesNotNormalized") == 0
	invalid := false
	for i := range fs {
		f := &fs[i]
		r.Values[f.Name] = map[string][]string{}
		for _, s := range sources {
			if _, ok := keyFor(f, s); !ok {
				continue
			}
			if (s == "form" && r.Body != "form" && r.Body != "multipart") || (s == "json" && r.Body != "json") {
				continue
			}
			if len(f.Tags) == 0 && (s == "form" || s == "query") && f.Shape != "scalar" {
				// untagged: form falls back to the query with the same key (documented); keep it out of the picture
			}
			if rapid.IntRange(0, 2).Draw(t, "present-"+s) != 0 {
				continue
			}
			nv := 1
			if f.Shape == "slice" && (s == "form" || s == "query" || s == "json") {
				nv = rapid.IntRange(1, 3).Draw(t, "nValues")
			}
			var texts []string
			for j := 0; j < nv; j++ {
				if allowInvalid && s != "json" && f.Shape != "slice" && f.kind != reflect.String && rapid.IntRange(0, 11).Draw(t, "invalid") == 0 {
					texts = append(texts, invalidText(t, f.kind))
					invalid = true
				} else if f.kind == reflect.String && f.Default == "" && (s == "form" || s == "query" || s == "json" || s == "path") && rapid.IntRange(0, map[bool]int{true: 1, false: 5}[s == "path"]).Draw(t, "emptyText") == 0 {
					texts = append(texts, "") // present with an empty value ("k=", an empty multipart part, "k":"")
				} else {
					texts = append(texts, validText(t, f.kind))
				}
			}
			r.Values[f.Name][s] = texts
		}
	}
	return r, invalid
}

// encode builds the wire request and path params.
func encode(fs []FieldSpec, r ReqSpec) ([]byte, param.Params) {
	var q, form, cookies, headers, jsonParts []string
	var params param.Params
	type mp struct{ k, v string }
	var mparts []mp
	esc := func(s string) string {
		return strings.NewReplacer("%", "%25", " ", "%20", "=", "%3D", "&", "%26", "+", "%2B", "é", "%C3%A9").Replace(s)
	}
	for i := range fs {
		f := &fs[i]
		for _, s := range sources {
			texts := r.Values[f.Name][s]
			if len(texts) == 0 {
				continue
			}
			key, _ := keyFor(f, s)
			switch s {
			case "path":
				params = append(params, param.Param{Key: key, Value: texts[0]})
			case "query":
				for _, x := range texts {
					q = append(q, key+"="+esc(x))
				}
			case "form":
				for _, x := range texts {
					form = append(form, key+"="+esc(x))
					mparts = append(mparts, mp{key, x})
				}
			case "cookie":
				cookies = append(cookies, key+"="+strings.NewReplacer(" ", "%20", "é", "e").Replace(texts[0]))
			case "header":
				headers = append(headers, key+": "+strings.ReplaceAll(texts[0], "é", "e"))
			case "json":
				switch r.JSONKeyCase {
				case 1:
					key = strings.ToUpper(key)
				case 2:
					key = strings.ToLower(key)
				case 3:
					if c := key[:1]; c == strings.ToUpper(c) {
						key = strings.ToLower(c) + key[1:]
					} else {
						key = strings.ToUpper(c) + key[1:]
					}
				}
				jv := func(x string) string {
					if f.kind == reflect.String {
						return strconv.Quote(x)
					}
					if f.kind == reflect.Bool {
						b, _ := strconv.ParseBool(x)
						return strconv.FormatBool(b)
					}
					if f.kind == reflect.Float32 || f.kind == reflect.Float64 {
						fl, _ := strconv.ParseFloat(x, 64)
						return strconv.FormatFloat(fl, 'g', -1, 64)
					}
					return x
				}
				if f.Shape == "slice" {
					var xs []string
					for _, x := range texts {
						xs = append(xs, jv(x))
					}
					jsonParts = append(jsonParts, strconv.Quote(key)+":["+strings.Join(xs, ",")+"]")
				} else {
					jsonParts = append(jsonParts, strconv.Quote(key)+":"+jv(texts[0]))
				}
			}
		}
	}
	for i := range fs {
		if f := &fs[i]; f.Tags["json"] == "-" && r.Body == "json" {
			decoy := map[reflect.Kind]string{reflect.String: `"decoy"`, reflect.Bool: "true"}[f.kind]
			if decoy == "" {
				decoy = "1"
			}
			if f.Shape == "slice" {
				decoy = "[" + decoy + "]"
			}
			jsonParts = append(jsonParts, strconv.Quote(f.Name)+":"+decoy)
		}
	}
	if r.Body == "json" && r.NestedDecoy != 0 {
		var members []string
		for i := range fs {
			if f := &fs[i]; strings.HasPrefix(f.Tags["json"], "j.") && r.NestedDecoy == 2 {
				decoy := map[reflect.Kind]string{reflect.String: `"decoy"`, reflect.Bool: "true"}[f.kind]
				if decoy == "" {
					decoy = "1"
				}
				if f.Shape == "slice" {
					decoy = "[" + decoy + "]"
				}
				members = append(members, strconv.Quote(strings.TrimPrefix(f.Tags["json"], "j."))+":"+decoy)
			}
		}
		jsonParts = append(jsonParts, `"j":{`+strings.Join(members, ",")+"}")
	}
	target := "/bind"
	if len(q) > 0 {
		target += "?" + strings.Join(q, "&")
	}
	var body, ct string
	switch r.Body {
	case "form":
		body, ct = strings.Join(form, "&"), "application/x-www-form-urlencoded"
		if r.CT != "" {
			ct = r.CT
		}
	case "json":
		body, ct = "{"+strings.Join(jsonParts, ",")+"}", "application/json"
		if r.CT != "" {
			ct = r.CT
		}
	case "multipart":
		ct = "multipart/form-data; boundary=BOUND"
		if r.CT != "" {
			ct = r.CT
		}
		for _, p := range mparts {
			body += "--BOUND\r\nContent-Disposition: form-data; name=\"" + p.k + "\"\r\n\r\n" + p.v + "\r\n"
		}
		body += "--BOUND--\r\n"
	}
	var sb strings.Builder
	method := "POST"
	fmt.Fprintf(&sb, "%s %s HTTP/1.1\r\nHost: h\r\n", method, target)
	for _, h := range headers {
		sb.WriteString(h + "\r\n")
	}
	if len(cookies) > 0 {
		sb.WriteString("Cookie: " + strings.Join(cookies, "; ") + "\r\n")
	}
	if r.Body == "json" && r.Streamed {
		fmt.Fprintf(&sb, "Content-Type: %s\r\nTransfer-Encoding: chunked\r\n\r\n%x\r\n%s\r\n0\r\n\r\n", ct, len(body), body)
	} else if r.Body != "none" {
		fmt.Fprintf(&sb, "Content-Type: %s\r\nContent-Length: %d\r\n\r\n%s", ct, len(body), body)
	} else {
		sb.WriteString("Content-Length: 0\r\n\r\n")
	}
	return []byte(sb.String()), params
}

// cookie and header texts as hertz will see them
func seenText(src, text string) string {
	switch src {
	case "cookie":
		return strings.NewReplacer(" ", "%20", "é", "e").Replace(text)
	case "header":
		return strings.ReplaceAll(text, "é", "e")
	}
	return text
}

// reference: expected struct value or "error expected".
func reference(c *genCase) (reflect.Value, bool) {
	out := reflect.New(c.typ).Elem()
	for i := range c.Fields {
		f := &c.Fields[i]
		var texts []string
		found := ""
		for _, s := range sources {
			if _, ok := keyFor(f, s); !ok {
				continue
			}
			if ts := c.Req.Values[f.Name][s]; len(ts) > 0 {
				for _, x := range ts {
					texts = append(texts, seenText(s, x))
				}
				found = s
				break
			}
		}
		fv := out.FieldByName(f.Name)
		if found == "" {
			if f.Required != "" {
				return out, true
			}
			if f.Default == "" {
				continue
			}
			texts = []string{f.Default}
		}
		switch f.Shape {
		case "slice":
			sl := reflect.MakeSlice(fv.Type(), 0, len(texts))
			for _, x := range texts {
				v, err := convert(f.kind, x)
				if err != nil {
					return out, true
				}
				sl = reflect.Append(sl, v)
			}
			fv.Set(sl)
		default:
			v, err := convert(f.kind, texts[0])
			if err != nil {
				return out, true
			}
			if f.Shape == "ptr" {
				p := reflect.New(kindType(f.kind))
				p.Elem().Set(v)
				fv.Set(p)
			} else {
				fv.Set(v)
			}
		}
	}
	return out, false
}

// what the recycled Request object carried before
const dirtyRequest = "POST /earlier?q_f0=9&F0=9 HTTP/1.1\r\nHost: earlier\r\nUser-Agent: earlier-agent\r\nCookie: c_f0=9\r\nX-H-F0: 9\r\nContent-Type: application/x-www-form-urlencoded\r\nContent-Length: 8\r\n\r\nfo_f0=77"

func bindOnce(c *genCase, wire []byte, params param.Params, validate bool) (reflect.Value, error, string) {
	var r protocol.Request
	if c.Req.Recycled {
		if err := req.Read(&r, mock.NewZeroCopyReader(dirtyRequest)); err != nil {
			return reflect.Value{}, nil, "harness: the earlier request does not parse: " + err.Error()
		}
		r.Reset()
	}
	if c.Req.NoNorm {
		r.Header.DisableNormalizing()
	}
	if c.Req.Body == "json" && c.Req.Streamed {
		zr := mock.NewZeroCopyReader(string(wire))
		if err := req.ReadHeader(&r.Header, zr); err != nil {
			return reflect.Value{}, nil, "harness: request header does not parse: " + err.Error()
		}
		if err := req.ReadBodyStream(&r, zr, 0, false, false); err != nil {
			return reflect.Value{}, nil, "harness: request body stream: " + err.Error()
		}
	} else if err := req.Read(&r, mock.NewZeroCopyReader(string(wire))); err != nil {
		return reflect.Value{}, nil, "harness: request does not parse: " + err.Error()
	}
	if c.Req.PreRead {
		r.Body()
	}
	obj := reflect.New(c.typ)
	var err error
	pan := ""
	func() {
		defer func() {
			if rec := recover(); rec != nil {
				pan = fmt.Sprintf("%v\n%s", rec, debug.Stack())
			}
		}()
		if validate {
			err = binding.DefaultBinder().BindAndValidate(&r, obj.Interface(), params)
		} else {
			err = binding.DefaultBinder().Bind(&r, obj.Interface(), params)
		}
	}()
	return obj.Elem(), err, pan
}

func render(v reflect.Value) string {
	var sb strings.Builder
	for i := 0; i < v.NumField(); i++ {
		f := v.Field(i)
		if v.Type().Field(i).Anonymous && f.Kind() == reflect.Struct {
			sb.WriteString(render(f))
			continue
		}
		if v.Type().Field(i).PkgPath != "" {
			continue // the unexported decoy
		}
		if f.Kind() == reflect.Ptr {
			if f.IsNil() {
				fmt.Fprintf(&sb, "%s=<nil> ", v.Type().Field(i).Name)
				continue
			}
			f = f.Elem()
		}
		if f.Kind() == reflect.Slice && f.Len() == 0 {
			fmt.Fprintf(&sb, "%s=[] ", v.Type().Field(i).Name)
			continue
		}
		fmt.Fprintf(&sb, "%s=%v ", v.Type().Field(i).Name, f.Interface())
	}
	return sb.String()
}

// inD175: known finding D175. A field with a declared default whose source tags are all spelled "-" and that has
// no json tag at all never gets its default (the tag loop leaves before it picks the default up; the repair
// 1ef46ae made the default overwrite values bound from the body by the field's Go name and was withdrawn).
func inD175(c *genCase) bool {
	for i := range c.Fields {
		f := &c.Fields[i]
		if f.Default == "" || len(f.Tags) == 0 {
			continue
		}
		all := true
		for s, k := range f.Tags {
			if k != "-" || s == "json" {
				all = false
			}
		}
		if all {
			return true
		}
	}
	return false
}

var knownD175 int64

// checkCase is checkCaseRaw; a failing case of the D175 shape is reported as the known finding when it is listed.
func checkCase(c *genCase) string {
	msg := checkCaseRaw(c)
	if msg != "" && inD175(c) && ev.ReportKnown(prop, "D175") {
		atomic.AddInt64(&knownD175, 1)
		return ""
	}
	return msg
}

// checkCaseRaw binds twice and compares with the reference.
func checkCaseRaw(c *genCase) string {
	wire, params := encode(c.Fields, c.Req)
	want, wantErr := reference(c)
	var first string
	for round := 0; round < 2; round++ {
		got, err, pan := bindOnce(c, wire, params, round == 1)
		if pan != "" {
			if strings.HasPrefix(pan, "harness:") {
				return pan
			}
			return "Bind panicked: " + pan
		}
		res := "error"
		if err == nil {
			res = render(got)
		}
		if round == 0 {
			first = res
		} else if res != first {
			return fmt.Sprintf("second bind of the same type and request differs from the first: %q vs %q", first, res)
		}
		if wantErr {
			if err == nil {
				return fmt.Sprintf("Bind returned no error (struct %s) although the documented rule requires one (missing required value or failed conversion)\nrequest: %q", render(got), wire)
			}
			continue
		}
		if err != nil {
			return fmt.Sprintf("Bind returned error %v, reference binds %s\nrequest: %q", err, render(want), wire)
		}
		if render(got) != render(want) {
			return fmt.Sprintf("Bind produced %s, documented priority gives %s\nrequest: %q", render(got), render(want), wire)
		}
	}
	return ""
}

func classify(c *genCase) (bool, []string) {
	cls := []string{"body-" + c.Req.Body}
	if c.Req.Recycled {
		cls = append(cls, "recycled-request")
	}
	if c.Req.PreRead {
		cls = append(cls, "body-read-before-bind")
	}
	if c.Req.NoNorm {
		cls = append(cls, "header-names-not-normalized")
	}
	if c.Req.CT != "" {
		cls = append(cls, "content-type-spelling")
	}
	if c.Req.JSONKeyCase != 0 {
		cls = append(cls, "json-keys-in-another-case")
	}
	if c.Req.NestedDecoy != 0 {
		cls = append(cls, "nested-decoy-beside-dotted-json-name")
	}
	for i := range c.Fields {
		if c.Fields[i].Embedded {
			cls = append(cls, "fields-in-an-embedded-struct")
			break
		}
	}
	for i := range c.Fields {
		if strings.HasPrefix(c.Fields[i].Tags["json"], "J_F") {
			cls = append(cls, "json-names-differing-in-case-only")
			break
		}
	}
	nt := false
	for i := range c.Fields {
		f := &c.Fields[i]
		n := 0
		for _, s := range sources {
			if len(c.Req.Values[f.Name][s]) > 0 {
				n++
			}
		}
		if n >= 2 {
			nt = true
			cls = append(cls, "priority-decision")
		}
		if n == 0 && (f.Required != "" || f.Default != "") {
			nt = true
			cls = append(cls, "required-or-default-without-value")
		}
		cls = append(cls, "shape-"+f.Shape)
		if f.Tags["json"] == "-" {
			cls = append(cls, "json-tag-skipped")
		}
		if len(f.Tags) == 0 {
			cls = append(cls, "untagged-field")
		}
	}
	seen := map[string]bool{}
	var out []string
	for _, x := range cls {
		if !seen[x] {
			seen[x] = true
			out = append(out, x)
		}
	}
	return nt, out
}

var history []*genCase

func TestC15Bind(t *testing.T) {
	rec := ev.New("bind")
	defer func() {
		rec.Excluded("D175-default-of-a-field-whose-source-tags-are-all-skipped", atomic.SwapInt64(&knownD175, 0))
	}()
	rapid.Check(t, func(t *rapid.T) {
		c := &genCase{Fields: genFields(t)}
		c.typ = buildType(c.Fields)
		nreq := rapid.IntRange(1, 4).Draw(t, "nRequests")
		for k := 0; k < nreq; k++ {
			var invalid bool
			c.Req, invalid = genReq(t, c.Fields, true)
			nt, cls := classify(c)
			if invalid {
				cls = append(cls, "invalid-text")
			}
			rec.Case(nt, ev.HashString(fmt.Sprintf("%+v", c.Fields), fmt.Sprintf("%+v", c.Req)), cls...)
			if msg := checkCase(c); msg != "" {
				t.Fatalf("%s\nfields: %+v\nrequest spec: %+v", msg, c.Fields, c.Req)
			}
			if nt && rec.WantSample() {
				rec.Sample(map[string]interface{}{"fields": c.Fields, "request": c.Req})
			}
		}
		// warm-cache history: re-bind an earlier type after other types were introduced
		if len(history) > 0 {
			old := history[rapid.IntRange(0, len(history)-1).Draw(t, "revisit")]
			if msg := checkCase(old); msg != "" {
				t.Fatalf("re-binding an earlier type after other types were bound: %s\nfields: %+v\nrequest spec: %+v", msg, old.Fields, old.Req)
			}
		}
		cc := *c
		history = append(history, &cc)
		if len(history) > 16 {
			history = history[1:]
		}
	})
}

// TestC15Concurrent binds many types concurrently (race build in the thorough tier).
func TestC15Concurrent(t *testing.T) {
	rec := ev.New("concurrent")
	defer func() {
		rec.Excluded("D175-default-of-a-field-whose-source-tags-are-all-skipped", atomic.SwapInt64(&knownD175, 0))
	}()
	rapid.Check(t, func(t *rapid.T) {
		n := rapid.IntRange(4, 12).Draw(t, "nTypes")
		var cases []*genCase
		for i := 0; i < n; i++ {
			c := &genCase{Fields: genFields(t)}
			c.typ = buildType(c.Fields)
			c.Req, _ = genReq(t, c.Fields, false)
			cases = append(cases, c)
			nt, cls := classify(c)
			rec.Case(nt, ev.HashString(fmt.Sprintf("%+v", c.Fields), fmt.Sprintf("%+v", c.Req)), cls...)
		}
		var wg sync.WaitGroup
		msgs := make([]string, 8)
		for g := 0; g < 8; g++ {
			wg.Add(1)
			go func(g int) {
				defer wg.Done()
				for k := 0; k < len(cases); k++ {
					c := cases[(k+g)%len(cases)]
					if msg := checkCase(c); msg != "" && msgs[g] == "" {
						msgs[g] = fmt.Sprintf("%s\nfields: %+v\nrequest spec: %+v", msg, c.Fields, c.Req)
					}
				}
			}(g)
		}
		wg.Wait()
		for _, m := range msgs {
			if m != "" {
				t.Fatalf("concurrent binding: %s", m)
			}
		}
	})
}

// Saved inputs.
func TestC15Regress(t *testing.T) {
	rec := ev.New("regress")
	for _, shape := range []string{"scalar", "ptr", "slice"} {
		for _, src := range []string{"path", "form", "query", "cookie", "header"} {
			f := FieldSpec{Name: "F0", Kind: "int32", kind: reflect.Int32, Shape: shape, Tags: map[string]string{src: "k_" + src, "json": "j_f0"}, Required: src}
			c := &genCase{Fields: []FieldSpec{f}}
			c.typ = buildType(c.Fields)
			for _, body := range []string{"none", "json", "form"} {
				c.Req = ReqSpec{Body: body, Values: map[string]map[string][]string{"F0": {}}}
				rec.Case(true, ev.HashString(shape, src, body), "D14")
				if msg := checkCase(c); msg != "" {
					ev.Fail(prop, "regress", map[string]interface{}{"fields": c.Fields, "request": c.Req}, msg)
					t.Errorf("%s required on %s, body %s: %s", shape, src, body, msg)
				}
			}
		}
	}
}
