package c07

import (
	"bufio"
	"bytes"
	"context"
	"fmt"
	"io"
	"net/http"
	"os"
	"path"
	"path/filepath"
	"strings"
	"testing"

	"github.com/cloudwego/hertz/pkg/app"
	"github.com/cloudwego/hertz/pkg/app/server"
	"github.com/cloudwego/hertz/pkg/common/utils"
	"github.com/cloudwego/hertz/pkg/protocol"
	"pgregory.net/rapid"

	"verifharness/ev"
	"verifharness/sconn"
)

const prop = "C07"

func TestMain(m *testing.M) {
	code := m.Run()
	ev.Flush()
	os.Exit(code)
}

// ---------------------------------------------------------------------------
// Reference: percent-decode once, then resolve segments left to right with a stack.

func isHex(c byte) bool {
	return '0' <= c && c <= '9' || 'a' <= c && c <= 'f' || 'A' <= c && c <= 'F'
}

func hexVal(c byte) byte {
	switch {
	case '0' <= c && c <= '9':
		return c - '0'
	case 'a' <= c && c <= 'f':
		return c - 'a' + 10
	}
	return c - 'A' + 10
}

func refDecodeOnce(s string) string {
	var b []byte
	for i := 0; i < len(s); i++ {
		if s[i] == '%' && i+2 < len(s) && isHex(s[i+1]) && isHex(s[i+2]) {
			b = append(b, hexVal(s[i+1])<<4|hexVal(s[i+2]))
			i += 2
			continue
		}
		b = append(b, s[i])
	}
	return string(b)
}

// refPath is the documented normalisation of a raw request path.
func refPath(raw string) string {
	d := refDecodeOnce(raw)
	if !strings.HasPrefix(raw, "/") {
		d = "/" + d
	}
	segs := strings.Split(d, "/")
	var stack []string
	for _, s := range segs[:len(segs)-1] {
		switch s {
		case "", ".":
		case "..":
			if len(stack) > 0 {
				stack = stack[:len(stack)-1]
			}
		default:
			stack = append(stack, s)
		}
	}
	last := segs[len(segs)-1]
	if last == ".." {
		if len(stack) > 0 {
			stack = stack[:len(stack)-1]
		}
		last = ""
	}
	stack = append(stack, last)
	return "/" + strings.Join(stack, "/")
}

// contained is the containment predicate of the statement.
func contained(p string) string {
	if !strings.HasPrefix(p, "/") {
		return "does not begin with '/'"
	}
	segs := strings.Split(p[1:], "/")
	for i, s := range segs {
		if s == ".." {
			return "contains a '..' segment"
		}
		if (s == "" || s == ".") && i != len(segs)-1 {
			return fmt.Sprintf("contains an empty or '.' segment before the last (segment %d)", i)
		}
	}
	return ""
}

func hasCTL(s string) bool {
	for i := 0; i < len(s); i++ {
		if s[i] < ' ' || s[i] == 0x7f {
			return true
		}
	}
	return false
}

// splitTarget mirrors RFC 3986: path is everything before the first '?' or '#'.
func rawPathOf(target string) string {
	if i := strings.IndexAny(target, "?#"); i >= 0 {
		return target[:i]
	}
	return target
}

// checkURI returns "" or a description of the violation for one raw target.
func checkURI(u *protocol.URI, target string) string {
	u.Parse([]byte("h"), []byte(target))
	got := string(u.Path())
	if msg := contained(got); msg != "" {
		return fmt.Sprintf("URI.Path()=%q %s", got, msg)
	}
	if hasCTL(target) {
		return "" // URI.parse refuses targets with CTL bytes (path "/"); containment already checked
	}
	if want := refPath(rawPathOf(target)); got != want {
		return fmt.Sprintf("URI.Path()=%q, segment-stack reference=%q", got, want)
	}
	return ""
}

// checkSetPath: the path setters (used by FileFromFS, the vhost rewriter, redirects, clients) normalise
// like the parser does: whatever is set, Path() holds no dot segment; and it agrees with parsing the
// same string as a target when that string is rooted.
func checkSetPath(u *protocol.URI, p string) string {
	for k := 0; k < 2; k++ {
		u.Reset()
		api := "SetPath"
		if k == 0 {
			u.SetPath(p)
		} else {
			api = "SetPathBytes"
			u.SetPathBytes([]byte(p))
		}
		got := string(u.Path())
		if msg := contained(got); msg != "" {
			return fmt.Sprintf("URI.%s(%q): Path()=%q %s", api, p, got, msg)
		}
		if strings.HasPrefix(p, "/") && !hasCTL(p) && !strings.ContainsAny(p, "?#") {
			if want := refPath(p); got != want {
				return fmt.Sprintf("URI.%s(%q): Path()=%q, segment-stack reference=%q", api, p, got, want)
			}
		}
	}
	return ""
}

func refClean(p string) string {
	want := path.Clean("/" + p)
	if want != "/" {
		trailing := len(p) > 1 && strings.HasSuffix(p, "/")
		if strings.HasSuffix(p, "/.") || p == "." {
			trailing = true
		}
		if trailing {
			want += "/"
		}
	}
	return want
}

func checkClean(p string) string {
	got := utils.CleanPath(p)
	if msg := contained(got); msg != "" {
		// CleanPath keeps one trailing slash; contained() allows an empty last segment
		return fmt.Sprintf("CleanPath(%q)=%q %s", p, got, msg)
	}
	if again := utils.CleanPath(got); again != got {
		return fmt.Sprintf("CleanPath not idempotent: %q -> %q -> %q", p, got, again)
	}
	if want := refClean(p); got != want {
		return fmt.Sprintf("CleanPath(%q)=%q, path.Clean-based reference=%q", p, got, want)
	}
	return ""
}

// ---------------------------------------------------------------------------
// Exhaustive enumeration over the token alphabet.

var tokens = []string{"/", ".", "a", "%2e", "%2f", "%", "\\"}

func isDotTok(t int) bool { return t == 1 || t == 3 }
func isSepTok(t int) bool { return t == 0 || t == 4 }

func maxTokens() int {
	if ev.Thorough() {
		return 10
	}
	return 8
}

func TestC07Exhaustive(t *testing.T) {
	rec := ev.New("exhaustive")
	shard, nshards := ev.Shard()
	maxLen := maxTokens()
	u := &protocol.URI{}
	var evals, nontriv int64
	fails := 0
	idx := make([]int, maxLen)
	var sb []byte
	var global int64
	for L := 0; L <= maxLen; L++ {
		for i := range idx {
			idx[i] = 0
		}
		for {
			if global%int64(nshards) == int64(shard) {
				sb = sb[:0]
				nt := false
				for i := 0; i < L; i++ {
					sb = append(sb, tokens[idx[i]]...)
					if i > 0 && (isDotTok(idx[i]) && isSepTok(idx[i-1]) || isSepTok(idx[i]) && isDotTok(idx[i-1])) {
						nt = true
					}
				}
				s := string(sb)
				evals++
				if nt {
					nontriv++
				}
				msg := checkURI(u, s)
				if msg == "" {
					msg = checkClean(s)
				}
				if msg == "" {
					msg = checkSetPath(u, s)
				}
				if msg != "" {
					fails++
					ev.Fail(prop, "exhaustive", map[string]string{"target": s}, msg)
					t.Errorf("%q: %s", s, msg)
					if fails >= 5 {
						rec.Exact(evals, nontriv)
						return
					}
				}
				if nt && evals%1000003 == 7 && rec.WantSample() {
					rec.Sample(map[string]string{"target": s, "path": string(u.Path()), "clean": utils.CleanPath(s)})
				}
			}
			global++
			// increment mixed-radix counter
			k := L - 1
			for k >= 0 {
				idx[k]++
				if idx[k] < len(tokens) {
					break
				}
				idx[k] = 0
				k--
			}
			if k < 0 {
				break
			}
		}
	}
	rec.Exact(evals, nontriv)
	rec.Exhaustive(fmt.Sprintf("all strings of 0..%d tokens over %q (shard %d/%d); non-trivial = a dot token adjacent to a separator token", maxLen, tokens, shard, nshards))
}

// ---------------------------------------------------------------------------
// Random longer targets.

var randTokens = []string{"/", ".", "..", "a", "b", "%2e", "%2E", "%2f", "%2F", "%5c", "%5C", "%", "%2", "%25", "%252e", "%252f", "%00", "\\",
	"..%2f", "%2e%2e", ".%2e", "%2e.", "//", "/./", "/../", "%c0%ae", "%zz", "+", " ", ";", "%3f", "%23", "\xff", "é"}

func genTarget(t *rapid.T) string {
	n := rapid.IntRange(0, 64).Draw(t, "ntok")
	var sb strings.Builder
	if rapid.IntRange(0, 9).Draw(t, "lead") > 0 {
		sb.WriteString("/")
	}
	for i := 0; i < n; i++ {
		sb.WriteString(rapid.SampledFrom(randTokens).Draw(t, "tok"))
	}
	switch rapid.IntRange(0, 5).Draw(t, "suffix") {
	case 0:
		sb.WriteString("?q=/../x&y=%2e%2e")
	case 1:
		sb.WriteString("#/../frag")
	case 2:
		sb.WriteString("?a=1#/..")
	}
	return sb.String()
}

func TestC07Random(t *testing.T) {
	rec := ev.New("random")
	u := &protocol.URI{}
	rapid.Check(t, func(t *rapid.T) {
		target := genTarget(t)
		nt := strings.Contains(target, ".") || strings.Contains(target, "%2")
		rec.Case(nt, ev.HashString(target), classOf(target))
		if msg := checkURI(u, target); msg != "" {
			t.Fatalf("target %q: %s", target, msg)
		}
		if msg := checkClean(rawPathOf(target)); msg != "" {
			t.Fatalf("%s", msg)
		}
		if rec.WantSample() {
			rec.Sample(map[string]string{"target": target, "path": string(u.Path())})
		}
	})
}

func classOf(s string) string {
	switch {
	case strings.Contains(s, "%25"):
		return "double-encoded"
	case strings.Contains(s, "%2E") || strings.Contains(s, "%2F"):
		return "upper-case-escape"
	case strings.Contains(s, "%2e") || strings.Contains(s, "%2f"):
		return "lower-case-escape"
	}
	return "plain"
}

// ---------------------------------------------------------------------------
// FS sandbox: the real FS handler behind the real engine.

type sandbox struct {
	base, root string
	files      map[string]string // path relative to root (with leading /) -> content
	srv        *sconn.Server
	vhost      *sconn.Server
}

const canary = "CANARY-OUTSIDE-THE-ROOT"

func newSandbox(t testing.TB) *sandbox {
	base, err := os.MkdirTemp(".", "c07fs")
	if err != nil {
		t.Fatal(err)
	}
	base, _ = filepath.Abs(base)
	sb := &sandbox{base: base, root: filepath.Join(base, "r"), files: map[string]string{}}
	must := func(err error) {
		if err != nil {
			t.Fatal(err)
		}
	}
	must(os.MkdirAll(filepath.Join(sb.root, "a", "a"), 0o755))
	must(os.MkdirAll(filepath.Join(sb.root, ".a"), 0o755))
	// canaries outside the root, reachable by one or two "..", named from the token alphabet
	for _, n := range []string{"a", "aa", ".a", "a.a", "%", "\\", "%2e", "%2f", "a."} {
		must(os.WriteFile(filepath.Join(base, n), []byte(canary+":"+n), 0o644))
	}
	for _, n := range []string{"/aa", "/a/aa", "/a/a/a", "/a/.a", "/.a/a", "/a.a", "/%", "/\\", "/a/%2e", "/a.", "/..a", "/a/..a", "/a/a.."} {
		c := "IN-ROOT:" + n
		sb.files[n] = c
		must(os.WriteFile(filepath.Join(sb.root, filepath.FromSlash(n)), []byte(c), 0o644))
	}
	// what a directory listing or an index page of the directory above the root would expose
	must(os.WriteFile(filepath.Join(base, "index.html"), []byte(canary+":index"), 0o644))
	must(os.WriteFile(filepath.Join(base, canary+"-NAME.txt"), []byte("x"), 0o644))
	// virtual hosts: what belongs to another host, or to no host at all, inside the root
	must(os.MkdirAll(filepath.Join(sb.root, "h"), 0o755))
	must(os.MkdirAll(filepath.Join(sb.root, "other"), 0o755))
	must(os.WriteFile(filepath.Join(sb.root, "h", "own.txt"), []byte("own file of host h"), 0o644))
	must(os.WriteFile(filepath.Join(sb.root, "other", "secret.txt"), []byte(vhostMark+":other"), 0o644))
	must(os.WriteFile(filepath.Join(sb.root, "toplevel.txt"), []byte(vhostMark+":top"), 0o644))
	sb.srv = sconn.NewServer(func(h *server.Hertz) {
		h.StaticFS("/", &app.FS{Root: sb.root})
	})
	// virtual hosts: the Host header (attacker controlled) becomes the first path segment
	sb.vhost = sconn.NewServer(func(h *server.Hertz) {
		h.StaticFS("/", &app.FS{Root: sb.root, PathRewrite: app.NewVHostPathRewriter(0), IndexNames: []string{"index.html"}, GenerateIndexPages: true})
	})
	return sb
}

// checkVHost: whatever Host and target say, nothing from outside the root is served.
func (sb *sandbox) checkVHost(host, target string) (status int, msg string) {
	reqBytes := []byte("GET " + target + " HTTP/1.1\r\nHost: " + host + "\r\nConnection: close\r\n\r\n")
	res := sb.vhost.Serve(sconn.New([][]byte{reqBytes}, sconn.EOF))
	if res.Panic != nil {
		return 0, fmt.Sprintf("panic: %v", res.Panic)
	}
	if bytes.Contains(res.Output, []byte(canary)) {
		return 0, fmt.Sprintf("response exposes content or names from outside the root: %.300q", res.Output)
	}
	// The target is decoded and resolved once, then prefixed with the host: for the plain host "h"
	// everything that is served lies under <root>/h/. A file of another host, or of none, can only
	// come out if the prefixed path is decoded and resolved a second time.
	if host == "h" && bytes.Contains(res.Output, []byte(vhostMark)) {
		return 0, fmt.Sprintf("Host h was served a file from outside its own directory (the rewritten path was decoded a second time): %.300q", res.Output)
	}
	resp, err := http.ReadResponse(bufio.NewReader(bytes.NewReader(res.Output)), &http.Request{Method: "GET"})
	if err != nil {
		return 0, fmt.Sprintf("unreadable response %q: %v", res.Output, err)
	}
	return resp.StatusCode, ""
}

const vhostMark = "VHOST-FOREIGN-FILE"

func TestC07VHost(t *testing.T) {
	rec := ev.New("fs-vhost")
	sb := newSandbox(t)
	defer sb.close()
	shard, nshards := ev.Shard()
	hosts := []string{"h", "a", ".a", "..", ".", "...", "%2e%2e", "..%2f..", "a/..", "..\\", "a:80", "..:80", "A", "[::1]", "..a", "a.."}
	var global, evals, nontriv int64
	statuses := map[int]int64{}
	fails := 0
	var targets []string
	for _, a := range tokens {
		targets = append(targets, "/"+a)
		for _, b := range tokens {
			targets = append(targets, "/"+a+b, "/"+a+"/"+b)
		}
	}
	targets = append(targets, "/", "/x/..", "/a/../..", "/%2e%2e", "/%2e%2e/", "/a/%2e%2e/%2e%2e/", "/own.txt")
	// doubly encoded dot segments and separators in front of files of another host / of no host
	for _, up := range []string{"%252e%252e", "%252E%252E", ".%252e", "%252e.", "%252e%252e%252f", "..%252f", "%252e%252e%255c", "a/%252e%252e/%252e%252e"} {
		for _, file := range []string{"toplevel.txt", "other/secret.txt", "other%252fsecret.txt"} {
			sep := "/"
			if strings.HasSuffix(up, "f") || strings.HasSuffix(up, "c") {
				sep = ""
			}
			targets = append(targets, "/"+up+sep+file)
		}
	}
	for _, host := range hosts {
		for _, target := range targets {
			global++
			if global%int64(nshards) != int64(shard) || !requestable(target) {
				continue
			}
			evals++
			nt := strings.Contains(host, "..") || strings.Contains(target, "..") || strings.Contains(strings.ToLower(target), "%2e")
			if nt {
				nontriv++
			}
			st, msg := sb.checkVHost(host, target)
			statuses[st]++
			if msg != "" {
				fails++
				ev.Fail(prop, "fs-vhost", map[string]string{"host": host, "target": target}, msg)
				t.Errorf("Host %q, target %q: %s", host, target, msg)
				if fails >= 5 {
					rec.Exact(evals, nontriv)
					return
				}
			}
			if nt && st == 200 && rec.WantSample() {
				rec.Sample(map[string]interface{}{"host": host, "target": target, "status": st})
			}
		}
	}
	rec.Exact(evals, nontriv)
	for st, n := range statuses {
		rec.Class(fmt.Sprintf("status-%d", st), n)
	}
	rec.Exhaustive("16 Host values (dot segments, encoded dots, ports, backslash) x all targets of one or two tokens, virtual-host path rewriter in front of the real FS handler with index pages and listings on")
}

func (sb *sandbox) close() {
	sb.srv.Close()
	if sb.vhost != nil {
		sb.vhost.Close()
	}
	os.RemoveAll(sb.base)
}

// requestable reports whether the target can be put in a request line as is.
func requestable(target string) bool {
	if target == "" {
		return false
	}
	for i := 0; i < len(target); i++ {
		if target[i] <= ' ' || target[i] == 0x7f {
			return false
		}
	}
	return true
}

func (sb *sandbox) check(target string) (status int, msg string) {
	reqBytes := []byte("GET " + target + " HTTP/1.1\r\nHost: h\r\nConnection: close\r\n\r\n")
	res := sb.srv.Serve(sconn.New([][]byte{reqBytes}, sconn.EOF))
	if res.Panic != nil {
		return 0, fmt.Sprintf("panic: %v", res.Panic)
	}
	if bytes.Contains(res.Output, []byte(canary)) {
		return 0, fmt.Sprintf("response contains a file from outside the root: %q", res.Output)
	}
	resp, err := http.ReadResponse(bufio.NewReader(bytes.NewReader(res.Output)), &http.Request{Method: "GET"})
	if err != nil {
		return 0, fmt.Sprintf("unreadable response %q: %v", res.Output, err)
	}
	body, err := io.ReadAll(resp.Body)
	if err != nil {
		return 0, fmt.Sprintf("unreadable response body: %v", err)
	}
	if resp.StatusCode == 200 {
		want, ok := sb.files[strings.TrimRight(refPath(rawPathOf(target)), "/")]
		if !ok {
			return 200, fmt.Sprintf("200 with body %q although the normalised path %q names no file under the root", body, refPath(rawPathOf(target)))
		}
		if string(body) != want {
			return 200, fmt.Sprintf("200 with body %q, file at normalised path %q has %q", body, refPath(rawPathOf(target)), want)
		}
	}
	return resp.StatusCode, ""
}

func TestC07FS(t *testing.T) {
	rec := ev.New("fs-sandbox")
	sb := newSandbox(t)
	defer sb.close()
	shard, nshards := ev.Shard()
	maxLen := 5
	if ev.Thorough() {
		maxLen = 6
	}
	idx := make([]int, maxLen)
	var global, evals, nontriv int64
	statuses := map[int]int64{}
	fails := 0
	for L := 1; L <= maxLen; L++ {
		for i := range idx {
			idx[i] = 0
		}
		for {
			if global%int64(nshards) == int64(shard) {
				var b strings.Builder
				nt := false
				for i := 0; i < L; i++ {
					b.WriteString(tokens[idx[i]])
					if i > 0 && (isDotTok(idx[i]) && isSepTok(idx[i-1]) || isSepTok(idx[i]) && isDotTok(idx[i-1])) {
						nt = true
					}
				}
				target := b.String()
				// origin-form only: the request line needs a leading '/'
				if strings.HasPrefix(target, "/") {
					evals++
					if nt {
						nontriv++
					}
					st, msg := sb.check(target)
					statuses[st]++
					if msg != "" {
						fails++
						ev.Fail(prop, "fs-sandbox", map[string]string{"target": target}, msg)
						t.Errorf("%q: %s", target, msg)
						if fails >= 5 {
							rec.Exact(evals, nontriv)
							return
						}
					}
					if st == 200 && nt && rec.WantSample() {
						rec.Sample(map[string]interface{}{"target": target, "status": st})
					}
				}
			}
			global++
			k := L - 1
			for k >= 0 {
				idx[k]++
				if idx[k] < len(tokens) {
					break
				}
				idx[k] = 0
				k--
			}
			if k < 0 {
				break
			}
		}
	}
	rec.Exact(evals, nontriv)
	for st, n := range statuses {
		rec.Class(fmt.Sprintf("status-%d", st), n)
	}
	rec.Exhaustive(fmt.Sprintf("all origin-form targets of 1..%d tokens served by the real FS handler", maxLen))
}

func TestC07FSRandom(t *testing.T) {
	rec := ev.New("fs-random")
	sb := newSandbox(t)
	defer sb.close()
	rapid.Check(t, func(t *rapid.T) {
		target := "/" + genTarget(t)
		if !requestable(target) {
			target = strings.Map(func(r rune) rune {
				if r <= ' ' || r == 0x7f {
					return 'a'
				}
				return r
			}, target)
		}
		st, msg := sb.check(target)
		rec.Case(strings.Contains(target, "."), ev.HashString(target), fmt.Sprintf("status-%d", st))
		if msg != "" {
			t.Fatalf("target %q: %s", target, msg)
		}
	})
}

// ---------------------------------------------------------------------------
// Saved inputs.

var regress = []string{
	"/../a", "/..", "/%2e%2e/a", "/a/%2e%2e/%2e%2e/a", "/%2e%2e%2fa", "/.%2e/a", "/a/..%2f..%2fa", "//..//a", "/./../a",
	"/a/./../../a", "/%2f..%2fa", "\\..\\a", "/..\\a", "/%252e%252e/a", "/a/../../..", "/.", "/./", "", "%", "/%", "/%2", "/a/.", "/a/..",
	"/a/b/../../../c/./d/..", "/..;/a", "/%2e./a", "/.../a", "a/../../a",
}

func TestC07Regress(t *testing.T) {
	rec := ev.New("regress")
	u := &protocol.URI{}
	sb := newSandbox(t)
	defer sb.close()
	for _, s := range regress {
		rec.Case(true, ev.HashString(s))
		if msg := checkURI(u, s); msg != "" {
			ev.Fail(prop, "regress", map[string]string{"target": s}, msg)
			t.Errorf("%q: %s", s, msg)
		}
		if msg := checkClean(s); msg != "" {
			ev.Fail(prop, "regress", map[string]string{"target": s}, msg)
			t.Errorf("%q: %s", s, msg)
		}
		if strings.HasPrefix(s, "/") && requestable(s) {
			if _, msg := sb.check(s); msg != "" {
				ev.Fail(prop, "regress", map[string]string{"target": s}, msg)
				t.Errorf("%q: %s", s, msg)
			}
		}
	}
}

func TestC07Replay(t *testing.T) {
	f := ev.ReplayFile()
	if f == "" {
		t.Skip("no replay file")
	}
	var in struct{ Target string }
	if err := ev.LoadReplay(f, &in); err != nil {
		t.Fatal(err)
	}
	u := &protocol.URI{}
	msg := checkURI(u, in.Target)
	if msg == "" {
		msg = checkClean(in.Target)
	}
	if msg == "" && strings.HasPrefix(in.Target, "/") && requestable(in.Target) {
		sb := newSandbox(t)
		defer sb.close()
		_, msg = sb.check(in.Target)
	}
	if msg != "" {
		ev.Fail(prop, "replay", map[string]string{"target": in.Target}, msg)
		t.Fatalf("%q: %s", in.Target, msg)
	}
}

// TestC07FileFromFS: RequestContext.FileFromFS serves a file by putting another path into the
// request's URI for the duration of the call. Afterwards the handler, and every middleware behind
// ctx.Next, must see the path the request was routed on - the target decoded once - not a second
// decoding of it.
func TestC07FileFromFS(t *testing.T) {
	rec := ev.New("file-from-fs")
	sb := newSandbox(t)
	defer sb.close()
	fs := &app.FS{Root: sb.root}
	s := sconn.NewServer(func(h *server.Hertz) {
		h.GET("/dl/*fp", func(c context.Context, ctx *app.RequestContext) {
			before := string(ctx.Path())
			ctx.FileFromFS("/h/own.txt", fs)
			ctx.Response.Header.Set("X-Path-Before", fmt.Sprintf("%x", before))
			ctx.Response.Header.Set("X-Path-After", fmt.Sprintf("%x", string(ctx.Path())))
		})
	})
	defer s.Close()
	var targets []string
	for _, a := range tokens {
		targets = append(targets, "/dl/"+a)
		for _, b := range tokens {
			targets = append(targets, "/dl/"+a+b, "/dl/"+a+"/"+b)
		}
	}
	targets = append(targets, "/dl/%252e%252e/admin", "/dl/%2561.txt", "/dl/a%2520b", "/dl/%25", "/dl/%252f")
	var evals, nontriv int64
	fails := 0
	for _, target := range targets {
		if !requestable(target) {
			continue
		}
		res := s.Serve(sconn.New([][]byte{[]byte("GET " + target + " HTTP/1.1\r\nHost: h\r\nConnection: close\r\n\r\n")}, sconn.EOF))
		evals++
		if strings.Contains(target, "%25") {
			nontriv++
		}
		msg := ""
		if res.Panic != nil {
			msg = fmt.Sprintf("panic: %v", res.Panic)
		} else if resp, err := http.ReadResponse(bufio.NewReader(bytes.NewReader(res.Output)), &http.Request{Method: "GET"}); err != nil {
			msg = fmt.Sprintf("unreadable response: %v", err)
		} else if resp.StatusCode == 200 || resp.Header.Get("X-Path-Before") != "" {
			b, a := resp.Header.Get("X-Path-Before"), resp.Header.Get("X-Path-After")
			if b != a {
				var bs, as []byte
				fmt.Sscanf(b, "%x", &bs)
				fmt.Sscanf(a, "%x", &as)
				msg = fmt.Sprintf("the request path is %q before ctx.FileFromFS and %q after it", bs, as)
			}
		}
		if msg != "" {
			fails++
			ev.Fail(prop, "file-from-fs", map[string]string{"target": target}, msg)
			t.Errorf("target %q: %s", target, msg)
			if fails >= 5 {
				break
			}
		}
	}
	rec.Exact(evals, nontriv)
	rec.Exhaustive("all targets of one or two tokens under a catch-all route whose handler calls ctx.FileFromFS, plus doubly encoded ones")
}

// TestC07FileByParam: a download handler that builds a file-system path from a route parameter and hands it to
// ctx.File / ctx.FileFromFS, after the check an application makes (no separator in the name, not "." or "..").
// The parameter is the target percent-decoded once; the file that is served is the file of exactly that name, or
// there is no such file (404). A second decoding on the way to the file system opens another file, and an escaped
// "../" leaves the directory.
func TestC07FileByParam(t *testing.T) {
	rec := ev.New("file-by-param")
	sb := newSandbox(t)
	defer sb.close()
	dir := filepath.Join(sb.root, "h")
	files := map[string]string{"a%41.txt": "LITERAL a%41.txt", "aA.txt": "DECODED aA.txt", "x y": "SPACE", "x%20y": "LITERAL x%20y", "q?r": "QUESTION", "q": "CUT AT QUESTION MARK", "s#t": "HASH", "s": "CUT AT HASH", "%2e%2e%2ftoplevel.txt": "LITERAL dots"}
	for n, c := range files {
		if err := os.WriteFile(filepath.Join(dir, n), []byte(c), 0o644); err != nil {
			t.Fatal(err)
		}
	}
	fs := &app.FS{Root: sb.root}
	ok := func(name string) bool {
		return name != "" && name != "." && name != ".." && !strings.ContainsAny(name, "/\\")
	}
	s := sconn.NewServer(func(h *server.Hertz) {
		h.GET("/file/:name", func(c context.Context, ctx *app.RequestContext) {
			name := ctx.Param("name")
			ctx.Response.Header.Set("X-Name", fmt.Sprintf("%x", name))
			if !ok(name) {
				ctx.AbortWithStatus(403)
				return
			}
			ctx.File(filepath.Join(dir, name))
		})
		h.GET("/fromfs/:name", func(c context.Context, ctx *app.RequestContext) {
			name := ctx.Param("name")
			ctx.Response.Header.Set("X-Name", fmt.Sprintf("%x", name))
			if !ok(name) {
				ctx.AbortWithStatus(403)
				return
			}
			ctx.FileFromFS("/h/"+name, fs)
		})
	})
	defer s.Close()
	names := []string{"own.txt", "a%2541.txt", "aA.txt", "a%41.txt", "x%20y", "x%2520y", "q%3Fr", "s%23t", "%252e%252e%252ftoplevel.txt", "%252e%252e%252fother%252fsecret.txt", "%252e%252e", "%2e%2e%2ftoplevel.txt", "missing", "%2525"}
	for _, a := range tokens {
		for _, b := range tokens {
			names = append(names, a+b)
		}
	}
	var evals, nontriv int64
	fails := 0
	for _, route := range []string{"/file/", "/fromfs/"} {
		for _, n := range names {
			target := route + n
			if !requestable(target) {
				continue
			}
			res := s.Serve(sconn.New([][]byte{[]byte("GET " + target + " HTTP/1.1\r\nHost: h\r\nConnection: close\r\n\r\n")}, sconn.EOF))
			evals++
			if strings.Contains(n, "%25") {
				nontriv++
			}
			msg := ""
			if res.Panic != nil {
				msg = fmt.Sprintf("panic: %v", res.Panic)
			} else if bytes.Contains(res.Output, []byte(canary)) || bytes.Contains(res.Output, []byte(vhostMark)) {
				msg = fmt.Sprintf("served a file from outside the download directory: %.200q", res.Output)
			} else if resp, err := http.ReadResponse(bufio.NewReader(bytes.NewReader(res.Output)), &http.Request{Method: "GET"}); err != nil {
				msg = fmt.Sprintf("unreadable response: %v", err)
			} else if xn := resp.Header.Get("X-Name"); xn != "" && resp.StatusCode != 403 {
				var name []byte
				fmt.Sscanf(xn, "%x", &name)
				body, _ := io.ReadAll(resp.Body)
				want, err := os.ReadFile(filepath.Join(dir, string(name)))
				st, serr := os.Stat(filepath.Join(dir, string(name)))
				switch {
				case err == nil && serr == nil && !st.IsDir():
					if resp.StatusCode != 200 || !bytes.Equal(body, want) {
						msg = fmt.Sprintf("the handler asked for the file named %q (content %q); the answer is %d %.60q", name, want, resp.StatusCode, body)
					}
				case resp.StatusCode == 200:
					msg = fmt.Sprintf("the handler asked for the file named %q, which does not exist; the answer is 200 %.60q", name, body)
				}
			}
			if msg != "" {
				fails++
				ev.Fail(prop, "file-by-param", map[string]string{"target": target}, msg)
				t.Errorf("target %q: %s", target, msg)
				if fails >= 8 {
					rec.Exact(evals, nontriv)
					return
				}
			}
		}
	}
	rec.Exact(evals, nontriv)
	rec.Exhaustive("all names of two tokens plus doubly encoded and reserved-character names, through ctx.File and ctx.FileFromFS behind a route parameter")
}
