package c02

import (
	"fmt"
	"net"
	"os"
	"sort"
	"strings"
	"testing"

	"github.com/cloudwego/hertz/pkg/protocol"
	"github.com/cloudwego/hertz/pkg/protocol/http1"
	"pgregory.net/rapid"

	"verifharness/cli"
	"verifharness/ev"
	"verifharness/gen"
	"verifharness/sconn"
	"verifharness/srv"
	"verifharness/wire"
)

const prop = "C02"

func TestMain(m *testing.M) {
	code := m.Run()
	ev.Flush()
	os.Exit(code)
}

var servers = map[bool]*srv.Echo{}

func server(stream bool) *srv.Echo {
	if s, ok := servers[stream]; ok {
		return s
	}
	s := srv.NewEcho(srv.Config{Stream: stream, MaxBody: 8 << 20})
	servers[stream] = s
	return s
}

// serverObs is the observable result of serving bytes under one segmentation.
func serverObs(e *srv.Echo, b []byte, cuts []int, end ...sconn.End) string {
	how := sconn.EOF
	if len(end) > 0 {
		how = end[0]
	}
	obs, res, _ := e.Run(sconn.Split(b, cuts), how)
	var sb strings.Builder
	for i, o := range obs {
		fmt.Fprintf(&sb, "[%d] %s %s %s hdr=%q body(%d)=%q err=%q tr=%q\n", i, o.Method, o.URI, o.Proto, o.Headers, len(o.Body), o.Body, cli.ErrClass(o.BodyErr), o.Trailers) // the error text embeds a dump of the read buffer, which legitimately depends on the segmentation: compare its class
	}
	fmt.Fprintf(&sb, "closed=%v panic=%v\noutput=%q", res.Closed, res.Panic != nil, wire.MaskDate(res.Output))
	return sb.String()
}

func diff(a, b string) string {
	i := 0
	for i < len(a) && i < len(b) && a[i] == b[i] {
		i++
	}
	s := i - 80
	if s < 0 {
		s = 0
	}
	ea, eb := i+160, i+160
	if ea > len(a) {
		ea = len(a)
	}
	if eb > len(b) {
		eb = len(b)
	}
	return fmt.Sprintf("first difference at %d:\n   whole: ...%s\n   split: ...%s", i, a[s:ea], b[s:eb])
}

// segmentations returns the deterministic part of the cut sets for a stream:
// every 2-way cut (or a boundary-biased sample for long streams) and byte-wise.
func twoWayCuts(n int, marks []int) [][]int {
	var out [][]int
	if n <= 1500 {
		for c := 1; c < n; c++ {
			out = append(out, []int{c})
		}
		return out
	}
	set := map[int]bool{}
	for _, m := range marks {
		for d := -3; d <= 3; d++ {
			if c := m + d; c >= 1 && c < n {
				set[c] = true
			}
		}
	}
	for k := 1; k*4096 < n; k++ {
		for d := -1; d <= 1; d++ {
			set[k*4096+d] = true
		}
	}
	step := n / 100
	if step < 1 {
		step = 1
	}
	for c := step; c < n; c += step {
		set[c] = true
	}
	var cs []int
	for c := range set {
		cs = append(cs, c)
	}
	sort.Ints(cs)
	if len(cs) > 260 {
		cs = cs[:260]
	}
	for _, c := range cs {
		out = append(out, []int{c})
	}
	return out
}

func bytewise(n int) []int {
	if n > 6000 {
		return nil
	}
	c := make([]int, 0, n)
	for i := 1; i < n; i++ {
		c = append(c, i)
	}
	return c
}

func trim(a []int) []int {
	if len(a) > 16 {
		return append(append([]int(nil), a[:16]...), -1)
	}
	return a
}

func TestC02Server(t *testing.T) {
	rec := ev.New("server")
	rapid.Check(t, func(t *rapid.T) {
		stream := rapid.Bool().Draw(t, "streaming")
		maxBody := 0
		if !ev.Thorough() {
			maxBody = 20000
		}
		s := gen.GenStream(t, 3, gen.ReqOpts{Fold: true, NearMiss: true, Expect: true, HTTP10: true, ChunkExt: true, MaxBody: maxBody})
		b := s.Bytes
		marks := s.AllMarks()
		var muts []string
		if rapid.IntRange(0, 2).Draw(t, "mutate") == 0 {
			b, muts = gen.Mutate(t, s.Bytes, marks)
		}
		e := server(stream)
		whole := serverObs(e, b, nil)
		segs := twoWayCuts(len(b), marks)
		if bw := bytewise(len(b)); bw != nil {
			segs = append(segs, bw)
		}
		for i := 0; i < 5; i++ {
			segs = append(segs, gen.Cuts(t, len(b), marks))
		}
		feature := false
		for i, r := range s.Reqs {
			if r.Framing == wire.FrChunked || s.Infos[i].Folded || len(r.Trailers) > 0 {
				feature = true
			}
		}
		if len(s.Reqs) > 1 {
			feature = true
		}
		ntCuts := 0
		for _, cuts := range segs {
			inside := false
			for _, c := range cuts {
				atBoundary := false
				for _, m := range s.Marks {
					if c == m.Start || c == m.End {
						atBoundary = true
					}
				}
				if !atBoundary {
					inside = true
				}
			}
			nt := inside && feature
			if nt {
				ntCuts++
			}
			cls := "wellformed"
			if muts != nil {
				cls = "mutant"
			}
			mode := "buffered"
			if stream {
				mode = "streaming"
			}
			rec.Case(nt, ev.Hash(b, []byte(fmt.Sprint(stream, cuts))), cls, mode)
			if got := serverObs(e, b, cuts); got != whole {
				t.Fatalf("server result depends on segmentation (streaming=%v, mutations=%v, cuts=%v)\n%s\nstream: %q", stream, muts, trim(cuts), diff(whole, got), short(b))
			}
			// the end of the stream noticed in the read that delivers the last bytes (TLS with the close_notify in
			// the same segment), or in the next one: the same bytes
			if got := serverObs(e, b, cuts, sconn.EOFWithLast); got != whole {
				t.Fatalf("server result depends on whether the end of the stream is reported with the last bytes or by a read of its own (streaming=%v, mutations=%v, cuts=%v)\n%s\nstream: %q", stream, muts, trim(cuts), diff(whole, got), short(b))
			}
		}
		if rec.WantSample() && ntCuts > 0 {
			rec.Sample(map[string]interface{}{"streaming": stream, "mutations": muts, "stream": string(short(b)), "segmentations_compared": len(segs)})
		}
	})
}

func short(b []byte) []byte {
	if len(b) > 1200 {
		return append(append([]byte(nil), b[:900]...), []byte(fmt.Sprintf("...(%d bytes)", len(b)))...)
	}
	return b
}

// ---------------------------------------------------------------------------
// Client direction.

type clientRig struct {
	c     *cli.Client
	frags [][]byte
	conn  *sconn.Conn
}

var rigs = map[bool]*clientRig{}

func rig(stream bool) *clientRig {
	if r, ok := rigs[stream]; ok {
		return r
	}
	r := &clientRig{}
	r.c = cli.New(http1.ClientOptions{ResponseBodyStream: stream, MaxConns: 4}, func(n int, addr string) (net.Conn, error) {
		r.conn = sconn.New(r.frags, sconn.EOF)
		return r.conn, nil
	})
	rigs[stream] = r
	return r
}

// clientObs performs one exchange against a connection that delivers b cut at cuts.
func clientObs(r *clientRig, method string, b []byte, cuts []int) string {
	r.frags = sconn.Split(b, cuts)
	r.conn = nil
	req := protocol.AcquireRequest()
	defer protocol.ReleaseRequest(req)
	req.SetRequestURI("http://example.com/x")
	req.Header.SetMethod(method)
	if method == "POST" {
		req.SetBodyString("hello")
	}
	o := r.c.Do(req)
	if o.Panic != "" {
		// a panic inside Do leaks the connection count of this HostClient: never reuse it
		for k, v := range rigs {
			if v == r {
				delete(rigs, k)
			}
		}
		return o.String()
	}
	closed := r.conn != nil && r.conn.Closed()
	pooled := r.c.HC.ConnPoolState().PoolConnNum
	r.c.HC.CloseIdleConnections()
	if !connStateObserved {
		// bytes behind a complete response (an unsolicited second message): whether the client keeps or
		// closes the connection is outside the statement (identical response object or identical error)
		// and may depend on whether those bytes had already arrived
		return o.String()
	}
	return fmt.Sprintf("%s\nconnClosedByClient=%v pooled=%d", o.String(), closed, pooled)
}

// connStateObserved: compare the keep-alive decision too (well-formed streams only).
var connStateObserved = true

func TestC02Client(t *testing.T) {
	rec := ev.New("client")
	rapid.Check(t, func(t *rapid.T) {
		stream := rapid.Bool().Draw(t, "streaming")
		method := rapid.SampledFrom([]string{"GET", "GET", "POST", "HEAD"}).Draw(t, "method")
		maxBody := !ev.Thorough()
		resp := gen.GenResp(t, 0, method, gen.RespOpts{Fold: true, UntilClose: true})
		if maxBody && resp.BodyLen > 20000 {
			resp.Body = resp.Body[:20000]
			resp.BodyLen = 20000
			for i := range resp.Lines {
				if strings.EqualFold(resp.Lines[i].K, "Content-Length") && resp.Framing == wire.FrCL {
					resp.Lines[i].V = "20000"
				}
			}
		}
		b, m := resp.Encode(nil)
		marks := append([]int{m.Start, m.HeaderEnd, m.End}, m.ChunkStarts...)
		// sometimes a pipelined second message / garbage follows (must not change the first result)
		var muts []string
		switch rapid.IntRange(0, 5).Draw(t, "variant") {
		case 0:
			b, muts = gen.Mutate(t, b, marks)
		case 1:
			if resp.Framing != wire.FrUntilClose {
				b = append(b, "HTTP/1.1 200 OK\r\nContent-Length: 2\r\n\r\nzz"...)
				muts = []string{"trailing-second-response"}
			}
		}
		connStateObserved = len(muts) == 0 // hostile streams may carry bytes behind the complete response
		defer func() { connStateObserved = true }()
		whole := clientObs(rig(stream), method, b, nil)
		segs := twoWayCuts(len(b), marks)
		if bw := bytewise(len(b)); bw != nil {
			segs = append(segs, bw)
		}
		for i := 0; i < 5; i++ {
			segs = append(segs, gen.Cuts(t, len(b), marks))
		}
		folded := false
		for _, l := range resp.Lines {
			if strings.Contains(l.V, "\r\n") {
				folded = true
			}
		}
		feature := resp.Framing == wire.FrChunked || folded || len(resp.Trailers) > 0 || resp.Interim100 > 0
		for _, cuts := range segs {
			nt := feature && len(cuts) > 0
			cls := "wellformed"
			if muts != nil {
				cls = "mutant"
			}
			mode := "buffered"
			if stream {
				mode = "streaming"
			}
			rec.Case(nt, ev.Hash(b, []byte(fmt.Sprint(stream, method, cuts))), cls, mode, "framing-"+resp.Framing.String())
			if got := clientObs(rig(stream), method, b, cuts); got != whole {
				t.Fatalf("client result depends on segmentation (streaming=%v, method=%s, mutations=%v, cuts=%v)\n%s\nresponse stream: %q", stream, method, muts, trim(cuts), diff(whole, got), short(b))
			}
		}
		if rec.WantSample() && feature {
			rec.Sample(map[string]interface{}{"streaming": stream, "method": method, "mutations": muts, "response": string(short(b)), "segmentations_compared": len(segs)})
		}
	})
}
