package c12

import (
	"context"
	"fmt"
	"os"
	"strings"
	"testing"

	"github.com/cloudwego/hertz/pkg/app"
	"github.com/cloudwego/hertz/pkg/app/server"

	"verifharness/ev"
	"verifharness/sconn"
)

// TestC12Wire: the same chains, reached the way a deployed server reaches them: a request read from
// a connection by the HTTP/1 server loop, which obtains the request context itself (from the engine's
// pool, or freshly allocated when the process runs with HERTZ_DISABLE_REQUEST_CONTEXT_POOL=true, the
// "wire-nopool" unit) instead of ut.PerformRequest. Each connection carries the chain request twice
// (first and second request of a keep-alive connection are prepared by different code) and one request
// for an unknown path, which must run the engine-level middleware before the NoRoute handler.
func TestC12Wire(t *testing.T) {
	unit := "wire"
	nopool := os.Getenv("HERTZ_DISABLE_REQUEST_CONTEXT_POOL") == "true"
	if nopool {
		unit = "wire-nopool"
	}
	rec := ev.New(unit)
	shard, nshards := ev.Shard()
	maxL := 3
	if ev.Thorough() {
		maxL = 5
	}
	s := sconn.NewServer(func(h *server.Hertz) {
		h.Use(func(c context.Context, ctx *app.RequestContext) {
			trace = append(trace, "enter E")
			ctx.Next(c)
			trace = append(trace, "exit E")
		})
		h.NoRoute(func(c context.Context, ctx *app.RequestContext) {
			trace = append(trace, "enter noroute")
			ctx.SetStatusCode(404)
			trace = append(trace, "exit noroute")
		})
		for L := 1; L <= 7; L++ {
			var hs []app.HandlerFunc
			for i := 0; i < L; i++ {
				hs = append(hs, mkHandler(i))
			}
			h.GET(fmt.Sprintf("/len%d", L), hs...)
		}
	})
	defer s.Close()
	var global, evals, nontriv int64
	fails := 0
	for L := 1; L <= maxL; L++ {
		total := 1
		for i := 0; i < L; i++ {
			total *= nBeh
		}
		for code := 0; code < total; code++ {
			global++
			if global%int64(nshards) != int64(shard) {
				continue
			}
			chain := make([]int, L)
			c := code
			for i := 0; i < L; i++ {
				chain[i] = c % nBeh
				c /= nBeh
			}
			curChain = chain
			trace = trace[:0]
			req := fmt.Sprintf("GET /len%d HTTP/1.1\r\nHost: a\r\n\r\n", L)
			stream := req + req + "GET /nope HTTP/1.1\r\nHost: a\r\nConnection: close\r\n\r\n"
			res := s.Serve(sconn.New([][]byte{[]byte(stream)}, sconn.EOF))
			got := strings.Join(trace, ";")
			inner := strings.Join(refTrace(chain), ";")
			one := "enter E;" + inner + ";exit E"
			want := one + ";" + one + ";enter E;enter noroute;exit noroute;exit E"
			evals++
			nontriv++
			msg := ""
			if res.Panic != nil {
				msg = fmt.Sprintf("the server loop panicked: %v", res.Panic)
			} else if got != want {
				msg = fmt.Sprintf("trace of two chain requests and one unknown path on one connection differs from the onion rule (context pool disabled: %v)\n got  %s\n want %s", nopool, got, want)
			}
			if msg != "" {
				fails++
				ev.Fail(prop, unit, map[string]interface{}{"chain": chain, "names": names(chain), "nopool": nopool}, msg)
				t.Errorf("chain %v: %s", names(chain), msg)
				if fails > 3 {
					rec.Exact(evals, nontriv)
					return
				}
			}
			if evals%101 == 1 && rec.WantSample() {
				rec.Sample(map[string]interface{}{"chain": names(chain), "nopool": nopool, "trace": got})
			}
		}
	}
	rec.Exact(evals, nontriv)
	rec.Exhaustive(fmt.Sprintf("every chain of length 1..%d over the 7 behaviours, behind one engine-level middleware, twice per connection plus the not-found path, through the HTTP/1 server loop", maxL))
}
