package c12

import (
	"context"
	"fmt"
	"os"
	"strings"
	"testing"

	"github.com/cloudwego/hertz/pkg/app"
	"github.com/cloudwego/hertz/pkg/app/server"
	"github.com/cloudwego/hertz/pkg/common/config"
	"github.com/cloudwego/hertz/pkg/common/ut"
	"github.com/cloudwego/hertz/pkg/route"
	"pgregory.net/rapid"

	"verifharness/ev"
	_ "verifharness/sconn" // silences hlog
)

const prop = "C12"

func TestMain(m *testing.M) {
	code := m.Run()
	ev.Flush()
	os.Exit(code)
}

// the seven behaviours of the quantifier
const (
	bReturn = iota
	bNext
	bAbort
	bNextAbort
	bAbortNext
	bNextNext
	bAbortStatus
	nBeh
)

var behNames = []string{"return", "Next", "Abort", "Next;Abort", "Abort;Next", "Next;Next", "AbortWithStatus"}

var (
	curChain []int
	trace    []string
)

func mkHandler(i int) app.HandlerFunc {
	return func(c context.Context, ctx *app.RequestContext) {
		trace = append(trace, fmt.Sprintf("enter %d", i))
		next := func() {
			ctx.Next(c)
			trace = append(trace, fmt.Sprintf("after-next %d", i))
		}
		switch curChain[i] {
		case bReturn:
		case bNext:
			next()
		case bAbort:
			ctx.Abort()
			trace = append(trace, fmt.Sprintf("abort %d", i))
		case bNextAbort:
			next()
			ctx.Abort()
			trace = append(trace, fmt.Sprintf("abort %d", i))
		case bAbortNext:
			ctx.Abort()
			trace = append(trace, fmt.Sprintf("abort %d", i))
			next()
		case bNextNext:
			next()
			next()
		case bAbortStatus:
			ctx.AbortWithStatus(418)
			trace = append(trace, fmt.Sprintf("abort %d", i))
		}
		trace = append(trace, fmt.Sprintf("exit %d", i))
	}
}

// refTrace interprets the documented rule: a cursor that Next advances through
// the remaining handlers; Abort moves it past the end.
func refTrace(chain []int) []string {
	var tr []string
	cursor := -1
	aborted := func() { cursor = 1 << 20 }
	var next func()
	run := func(i int) {
		tr = append(tr, fmt.Sprintf("enter %d", i))
		callNext := func() {
			next()
			tr = append(tr, fmt.Sprintf("after-next %d", i))
		}
		switch chain[i] {
		case bNext:
			callNext()
		case bAbort, bAbortStatus:
			aborted()
			tr = append(tr, fmt.Sprintf("abort %d", i))
		case bNextAbort:
			callNext()
			aborted()
			tr = append(tr, fmt.Sprintf("abort %d", i))
		case bAbortNext:
			aborted()
			tr = append(tr, fmt.Sprintf("abort %d", i))
			callNext()
		case bNextNext:
			callNext()
			callNext()
		}
		tr = append(tr, fmt.Sprintf("exit %d", i))
	}
	next = func() {
		cursor++
		for cursor < len(chain) {
			run(cursor)
			cursor++
		}
	}
	next()
	return tr
}

// predicates stated by the property, checked directly on the observed trace
func checkPredicates(chain []int, tr []string) string {
	entered := map[int]int{}
	exited := map[int]bool{}
	lastEntered := -1
	abortSeen := false
	for _, e := range tr {
		var kind string
		var i int
		fmt.Sscanf(e, "%s %d", &kind, &i)
		switch kind {
		case "enter":
			entered[i]++
			if entered[i] > 1 {
				return fmt.Sprintf("handler %d entered more than once", i)
			}
			if i <= lastEntered {
				return fmt.Sprintf("handler %d entered after handler %d (not in registration order)", i, lastEntered)
			}
			if abortSeen {
				return fmt.Sprintf("handler %d entered after Abort had been called", i)
			}
			lastEntered = i
		case "abort":
			abortSeen = true
		case "after-next":
			for j := range entered {
				if j > i && !exited[j] {
					return fmt.Sprintf("code after Next in handler %d ran before handler %d returned", i, j)
				}
			}
		case "exit":
			exited[i] = true
		}
	}
	if !abortSeen {
		for i := range chain {
			if entered[i] == 0 {
				// a handler is skipped only if an earlier one returned without Next: then its successors run from the engine loop
				return fmt.Sprintf("no Abort was called but handler %d never ran", i)
			}
		}
	}
	return ""
}

var chainEngine *route.Engine

func engineForChains() *route.Engine {
	if chainEngine != nil {
		return chainEngine
	}
	h := server.New()
	for L := 1; L <= 7; L++ {
		var hs []app.HandlerFunc
		for i := 0; i < L; i++ {
			hs = append(hs, mkHandler(i))
		}
		h.GET(fmt.Sprintf("/len%d", L), hs...)
	}
	chainEngine = h.Engine
	return chainEngine
}

func runChain(chain []int) []string {
	curChain = chain
	trace = trace[:0]
	ut.PerformRequest(engineForChains(), "GET", fmt.Sprintf("/len%d", len(chain)), nil)
	return append([]string(nil), trace...)
}

func checkChain(chain []int) string {
	got := runChain(chain)
	want := refTrace(chain)
	if strings.Join(got, ";") != strings.Join(want, ";") {
		return fmt.Sprintf("trace differs from the onion rule\n got  %v\n want %v", got, want)
	}
	return checkPredicates(chain, got)
}

func names(chain []int) []string {
	var s []string
	for _, b := range chain {
		s = append(s, behNames[b])
	}
	return s
}

func TestC12Chains(t *testing.T) {
	rec := ev.New("chains")
	shard, nshards := ev.Shard()
	maxL := 5
	if ev.Thorough() {
		maxL = 7
	}
	var global, evals, nontriv int64
	fails := 0
	for L := 1; L <= maxL; L++ {
		total := 1
		for i := 0; i < L; i++ {
			total *= nBeh
		}
		chain := make([]int, L)
		for code := 0; code < total; code++ {
			global++
			if global%int64(nshards) != int64(shard) {
				continue
			}
			c := code
			hasNext, hasAbort := false, false
			for i := 0; i < L; i++ {
				chain[i] = c % nBeh
				c /= nBeh
				switch chain[i] {
				case bNext, bNextNext:
					hasNext = true
				case bAbort, bAbortStatus:
					hasAbort = true
				case bNextAbort, bAbortNext:
					hasNext, hasAbort = true, true
				}
			}
			evals++
			if L >= 2 && hasNext && hasAbort {
				nontriv++
			}
			if msg := checkChain(chain); msg != "" {
				fails++
				ev.Fail(prop, "chains", map[string]interface{}{"chain": append([]int(nil), chain...), "names": names(chain)}, msg)
				t.Errorf("chain %v: %s", names(chain), msg)
				if fails > 5 {
					rec.Exact(evals, nontriv)
					return
				}
			}
			if evals%4001 == 1 && rec.WantSample() {
				rec.Sample(map[string]interface{}{"chain": names(chain), "trace": runChain(chain)})
			}
		}
	}
	rec.Exact(evals, nontriv)
	rec.Exhaustive(fmt.Sprintf("every chain of length 1..%d over the 7 behaviours %v", maxL, behNames))
}

// ---------------------------------------------------------------------------
// Assembly: group trees with Use before and after registrations.

type op struct {
	Kind  string `json:"kind"` // "use", "group", "route", "noroute", "nomethod"
	Node  int    `json:"node"`
	Name  string `json:"name,omitempty"`  // middleware / handler label
	Child int    `json:"child,omitempty"` // new node id for "group"
	Path  string `json:"path,omitempty"`
	Verb  string `json:"verb,omitempty"`
	WithMW string `json:"with_mw,omitempty"` // Group(prefix, mw)
}

type assembly struct {
	Ops        []op `json:"ops"`
	MethodNotAllowed bool `json:"handle_method_not_allowed"`
}

type nodeModel struct {
	parent   int
	prefix   string
	copied   []string // middleware copied from the ancestors when the group was created
	own      []string // this group's own middleware so far (Group(..., mw) and Use)
	maxAnc   []string // what the ancestors hold now that they did not hold at creation is looked up dynamically
	createdAt int
}

type routeModel struct {
	verb, path string
	min        []string // chain under "copied at group creation" reading
	max        []string // chain under "held at registration time" reading
}

func genAssembly(t *rapid.T) *assembly {
	a := &assembly{MethodNotAllowed: rapid.Bool().Draw(t, "methodNotAllowed")}
	nodes := 1
	depth := map[int]int{0: 0}
	n := rapid.IntRange(2, 14).Draw(t, "nOps")
	mw, rt := 0, 0
	for i := 0; i < n; i++ {
		node := rapid.IntRange(0, nodes-1).Draw(t, "node")
		switch k := rapid.IntRange(0, 9).Draw(t, "opKind"); {
		case k < 3:
			a.Ops = append(a.Ops, op{Kind: "use", Node: node, Name: fmt.Sprintf("mw%d", mw)})
			mw++
		case k < 5 && depth[node] < 3:
			o := op{Kind: "group", Node: node, Child: nodes, Path: fmt.Sprintf("/g%d", nodes)}
			if rapid.Bool().Draw(t, "groupWithMW") {
				o.WithMW = fmt.Sprintf("mw%d", mw)
				mw++
			}
			depth[nodes] = depth[node] + 1
			nodes++
			a.Ops = append(a.Ops, o)
		case k < 9:
			a.Ops = append(a.Ops, op{Kind: "route", Node: node, Path: fmt.Sprintf("/r%d", rt), Verb: rapid.SampledFrom([]string{"GET", "POST"}).Draw(t, "verb"), Name: fmt.Sprintf("h%d", rt)})
			rt++
		default:
			if rapid.Bool().Draw(t, "noRouteOrMethod") {
				a.Ops = append(a.Ops, op{Kind: "noroute", Name: fmt.Sprintf("nr%d", i)})
			} else {
				a.Ops = append(a.Ops, op{Kind: "nomethod", Name: fmt.Sprintf("nm%d", i)})
			}
		}
	}
	return a
}

var asmTrace []string

func labelled(name string, callNext bool) app.HandlerFunc {
	return func(c context.Context, ctx *app.RequestContext) {
		asmTrace = append(asmTrace, name)
		if callNext {
			ctx.Next(c)
		}
	}
}

// isSubsequence reports whether a is a subsequence of b.
func isSubsequence(a, b []string) bool {
	i := 0
	for _, x := range b {
		if i < len(a) && a[i] == x {
			i++
		}
	}
	return i == len(a)
}

func checkAssembly(a *assembly) (string, bool) {
	h := server.New(config.Option{F: func(o *config.Options) { o.HandleMethodNotAllowed = a.MethodNotAllowed }})
	groups := map[int]*route.RouterGroup{}
	models := map[int]*nodeModel{0: {parent: -1}}
	var engineMW []string
	var noRoute, noMethod []string
	var routes []routeModel
	lateUse := false

	// current middleware list of a node under the "held now" reading
	var heldNow func(n int) []string
	heldNow = func(n int) []string {
		m := models[n]
		var out []string
		if m.parent >= 0 {
			out = append(out, heldNow(m.parent)...)
		}
		return append(out, m.own...)
	}
	for _, o := range a.Ops {
		switch o.Kind {
		case "use":
			if o.Node == 0 {
				h.Use(labelled(o.Name, true))
				engineMW = append(engineMW, o.Name)
			} else {
				groups[o.Node].Use(labelled(o.Name, true))
			}
			models[o.Node].own = append(models[o.Node].own, o.Name)
		case "group":
			var g *route.RouterGroup
			var mws []app.HandlerFunc
			var own []string
			if o.WithMW != "" {
				mws = append(mws, labelled(o.WithMW, true))
				own = append(own, o.WithMW)
			}
			if o.Node == 0 {
				g = h.Group(o.Path, mws...)
			} else {
				g = groups[o.Node].Group(o.Path, mws...)
			}
			groups[o.Child] = g
			pm := models[o.Node]
			copied := append(append([]string(nil), pm.copied...), pm.own...)
			models[o.Child] = &nodeModel{parent: o.Node, prefix: pm.prefix + o.Path, copied: copied, own: own}
		case "route":
			m := models[o.Node]
			full := m.prefix + o.Path
			if o.Node == 0 {
				h.Handle(o.Verb, o.Path, labelled(o.Name, false))
			} else {
				groups[o.Node].Handle(o.Verb, o.Path, labelled(o.Name, false))
			}
			min := append(append(append([]string(nil), m.copied...), m.own...), o.Name)
			max := append(heldNow(o.Node), o.Name)
			if len(max) != len(min) {
				lateUse = true
			}
			routes = append(routes, routeModel{o.Verb, full, min, max})
		case "noroute":
			h.NoRoute(labelled(o.Name, false))
			noRoute = []string{o.Name}
		case "nomethod":
			h.NoMethod(labelled(o.Name, false))
			noMethod = []string{o.Name}
		}
	}
	run := func(verb, path string) []string {
		asmTrace = nil
		ut.PerformRequest(h.Engine, verb, path, nil)
		return append([]string(nil), asmTrace...)
	}
	for _, r := range routes {
		got := run(r.verb, r.path)
		// the property pins down middleware attached before the route AND (unambiguously) before the
		// group existed; middleware an ancestor received after a descendant group was created is accepted either way
		if !isSubsequence(r.min, got) || !isSubsequence(got, r.max) {
			return fmt.Sprintf("route %s %s ran chain %v; middleware attached before the route was registered gives %v (with late ancestor middleware: %v)", r.verb, r.path, got, r.min, r.max), lateUse
		}
		if len(got) == 0 || got[len(got)-1] != r.min[len(r.min)-1] {
			return fmt.Sprintf("route %s %s: handler did not run last: %v", r.verb, r.path, got), lateUse
		}
		// wrong method
		other := "POST"
		if r.verb == "POST" {
			other = "GET"
		}
		dup := false
		for _, r2 := range routes {
			if r2.path == r.path && r2.verb == other {
				dup = true
			}
		}
		if !dup {
			got := run(other, r.path)
			want := append(append([]string(nil), engineMW...), noRoute...)
			if a.MethodNotAllowed {
				want = append(append([]string(nil), engineMW...), noMethod...)
			}
			if strings.Join(got, ",") != strings.Join(want, ",") {
				return fmt.Sprintf("wrong-method request %s %s ran %v, want engine middleware + handler: %v", other, r.path, got, want), lateUse
			}
		}
	}
	got := run("GET", "/definitely/not/registered")
	want := append(append([]string(nil), engineMW...), noRoute...)
	if strings.Join(got, ",") != strings.Join(want, ",") {
		return fmt.Sprintf("unmatched path ran %v, want engine-level middleware then NoRoute handlers: %v", got, want), lateUse
	}
	return "", lateUse
}

func TestC12Assembly(t *testing.T) {
	rec := ev.New("assembly")
	rapid.Check(t, func(t *rapid.T) {
		a := genAssembly(t)
		msg, late := checkAssembly(a)
		useAfterRoute := false
		seenRoute := false
		for _, o := range a.Ops {
			if o.Kind == "route" {
				seenRoute = true
			}
			if o.Kind == "use" && seenRoute {
				useAfterRoute = true
			}
		}
		cls := []string{}
		if late {
			cls = append(cls, "late-ancestor-middleware")
		}
		if useAfterRoute {
			cls = append(cls, "use-after-registration")
		}
		rec.Case(useAfterRoute, ev.HashString(fmt.Sprintf("%+v", *a)), cls...)
		if msg != "" {
			t.Fatalf("%s\nassembly: %+v", msg, *a)
		}
		if useAfterRoute && rec.WantSample() {
			rec.Sample(a)
		}
	})
}

func TestC12Replay(t *testing.T) {
	f := ev.ReplayFile()
	if f == "" {
		t.Skip("no replay file")
	}
	var in struct{ Chain []int }
	if err := ev.LoadReplay(f, &in); err != nil {
		t.Fatal(err)
	}
	if msg := checkChain(in.Chain); msg != "" {
		ev.Fail(prop, "replay", in, msg)
		t.Fatal(msg)
	}
}
