package c08

import (
	"bytes"
	"compress/gzip"
	"context"
	"fmt"
	"io"
	"math/big"
	"os"
	"path/filepath"
	"regexp"
	"strings"
	"testing"
	"time"

	"github.com/cloudwego/hertz/pkg/app"
	"github.com/cloudwego/hertz/pkg/app/server"
	"pgregory.net/rapid"

	"verifharness/ev"
	"verifharness/sconn"
	"verifharness/wire"
)

const prop = "C08"

func TestMain(m *testing.M) {
	code := m.Run()
	if world != nil {
		world.srv.Close()
		os.RemoveAll(world.base)
	}
	ev.Flush()
	os.Exit(code)
}

const canary = "CANARY-FILE-OUTSIDE-THE-ROOT"

type sandbox struct {
	base, root string
	files      map[string][]byte // path under root ("/f3") -> content
	dirs       map[string]bool
	srv        *sconn.Server
	mtime      time.Time
}

var world *sandbox

func fileContent(name string, n int) []byte {
	b := make([]byte, n)
	for i := range b {
		b[i] = "0123456789abcdefghijklmnopqrstuvwxyzABCDEFGHIJKLMNOPQRSTUVWXYZ"[(i*7+len(name)*13+i/61)%62]
	}
	return b
}

func longName(n int) string { return "long-" + strings.Repeat("n", n-9) + ".txt" }

func smallN() int {
	if ev.Thorough() {
		return 12
	}
	return 6
}

func getWorld(t testing.TB) *sandbox {
	if world != nil {
		return world
	}
	base, err := os.MkdirTemp(".", "c08")
	if err != nil {
		t.Fatal(err)
	}
	base, _ = filepath.Abs(base)
	w := &sandbox{base: base, root: filepath.Join(base, "root"), files: map[string][]byte{}, dirs: map[string]bool{"/": true}, mtime: time.Date(2020, 1, 2, 3, 4, 5, 0, time.UTC)}
	must := func(err error) {
		if err != nil {
			t.Fatal(err)
		}
	}
	must(os.MkdirAll(filepath.Join(w.root, "d"), 0o755))
	must(os.MkdirAll(filepath.Join(w.root, "e"), 0o755))
	must(os.MkdirAll(filepath.Join(w.root, "static"), 0o755))
	w.dirs["/d"], w.dirs["/e"], w.dirs["/static"] = true, true, true
	must(os.WriteFile(filepath.Join(base, "secret.txt"), []byte(canary), 0o644))
	must(os.WriteFile(filepath.Join(base, "index.html"), []byte(canary+":index"), 0o644))
	must(os.WriteFile(filepath.Join(base, canary+"-NAME.txt"), []byte("x"), 0o644))
	must(os.MkdirAll(filepath.Join(w.root, "vhost.example"), 0o755))
	must(os.WriteFile(filepath.Join(w.root, "vhost.example", "page.txt"), []byte("VHOST-PAGE"), 0o644))
	add := func(p string, n int) {
		c := fileContent(p, n)
		w.files[p] = c
		fp := filepath.Join(w.root, filepath.FromSlash(p))
		must(os.WriteFile(fp, c, 0o644))
		must(os.Chtimes(fp, w.mtime, w.mtime))
	}
	for n := 0; n <= 12; n++ {
		add(fmt.Sprintf("/f%d", n), n)
	}
	add("/small-1", 2*4096-1)
	add("/small", 2*4096)
	add("/small+1", 2*4096+1)
	add("/big", 70000)
	add("/d/index.html", 25)
	add("/d/other.txt", 9)
	add("/e/x.txt", 4)
	add("/static/s5", 5)
	add("/static/s0", 0)
	// a directory whose index file exists but whose compressed copy cannot be created (a directory sits on its name;
	// stands in for a read-only file system / a directory the server may not write to)
	must(os.MkdirAll(filepath.Join(w.root, "g", "index.html.hertz.gz"), 0o755))
	w.dirs["/g"], w.dirs["/g/index.html.hertz.gz"] = true, true
	add("/g/index.html", 30)
	// names close to NAME_MAX: with the ".hertz.gz" suffix of the compressed copy they exceed it
	add("/"+longName(250), 300)
	add("/"+longName(246), 5000)
	add("/d/"+longName(255), 40)
	w.srv = sconn.NewServer(func(h *server.Hertz) {
		strip := app.NewPathSlashesStripper(1)
		h.StaticFS("/fs", &app.FS{Root: w.root, AcceptByteRange: true, PathRewrite: strip, IndexNames: []string{"index.html"}})
		h.StaticFS("/norange", &app.FS{Root: w.root, AcceptByteRange: false, PathRewrite: strip})
		h.StaticFS("/gz", &app.FS{Root: w.root, AcceptByteRange: true, Compress: true, PathRewrite: strip})
		h.StaticFS("/gzi", &app.FS{Root: w.root, AcceptByteRange: true, Compress: true, PathRewrite: strip, IndexNames: []string{"index.html"}})
		h.StaticFS("/list", &app.FS{Root: w.root, AcceptByteRange: true, GenerateIndexPages: true, PathRewrite: strip})
		// a short-lived file cache behind a middleware that can hold the response back after the file
		// handler has returned (slow post-processing / slow client): the cache entry expires and the
		// cache cleaner runs while the response still has an open reader on the file
		slow := func(c context.Context, ctx *app.RequestContext) {
			ctx.Next(c)
			if len(ctx.Request.Header.Peek("X-Slow")) > 0 {
				time.Sleep(slowHold)
			}
		}
		h.Group("/slowfs", slow).StaticFS("/", &app.FS{Root: w.root, AcceptByteRange: true, PathRewrite: strip, CacheDuration: shortCache})
		h.Group("/slowgz", slow).StaticFS("/", &app.FS{Root: w.root, AcceptByteRange: true, Compress: true, PathRewrite: strip, CacheDuration: shortCache})
		// virtual hosts: files of host H live under root/H; the first path segment is the mount point
		h.StaticFS("/vh", &app.FS{Root: w.root, PathRewrite: app.NewVHostPathRewriter(1), IndexNames: []string{"index.html"}, GenerateIndexPages: true, AcceptByteRange: true})
		h.Static("/static", w.root)
		h.StaticFile("/one", filepath.Join(w.root, "f5"))
		h.StaticFile("/empty", filepath.Join(w.root, "f0"))
		filer := func(c context.Context, ctx *app.RequestContext) {
			ctx.File(filepath.Join(w.root, filepath.FromSlash(ctx.Param("name"))))
		}
		h.GET("/file/:name", filer)
		h.HEAD("/file/:name", filer)
		ffs := &app.FS{Root: w.root, AcceptByteRange: true}
		fromfs := func(c context.Context, ctx *app.RequestContext) {
			ctx.FileFromFS("/"+ctx.Param("name"), ffs)
		}
		h.GET("/fromfs/:name", fromfs)
		h.HEAD("/fromfs/:name", fromfs)
	})
	world = w
	return w
}

// Request is one generated request.
type Request struct {
	Method string `json:"method"`
	Route  string `json:"route"` // "/fs", "/norange", "/gz", "/gzi", "/list", "/static", "/one", "/empty", "/file", "/fromfs"
	Path   string `json:"path"`  // path under the root, e.g. "/f3"
	Range  string `json:"range,omitempty"`
	IMS    string `json:"if_modified_since,omitempty"` // "", "older", "equal", "newer", "garbage"
	Gzip   bool   `json:"accept_gzip,omitempty"`
}

func (r *Request) target() string {
	switch r.Route {
	case "/one", "/empty":
		return r.Route
	case "/static":
		return "/static" + r.Path
	case "/file", "/fromfs":
		return r.Route + r.Path
	}
	return r.Route + r.Path
}

func (r *Request) encode(w *sandbox) []byte {
	var sb strings.Builder
	fmt.Fprintf(&sb, "%s %s HTTP/1.1\r\nHost: example.com\r\n", r.Method, r.target())
	if r.Range != "" {
		fmt.Fprintf(&sb, "Range: %s\r\n", r.Range)
	}
	switch r.IMS {
	case "older":
		fmt.Fprintf(&sb, "If-Modified-Since: %s\r\n", w.mtime.Add(-time.Hour).Format(time.RFC1123))
	case "equal":
		fmt.Fprintf(&sb, "If-Modified-Since: %s\r\n", strings.Replace(w.mtime.Format(time.RFC1123), "UTC", "GMT", 1))
	case "newer":
		fmt.Fprintf(&sb, "If-Modified-Since: %s\r\n", strings.Replace(w.mtime.Add(time.Hour).Format(time.RFC1123), "UTC", "GMT", 1))
	case "garbage":
		sb.WriteString("If-Modified-Since: yesterday\r\n")
	}
	if r.Gzip {
		sb.WriteString("Accept-Encoding: gzip\r\n")
	}
	sb.WriteString("\r\n")
	return []byte(sb.String())
}

// resolve says which file (content) or directory the request addresses; ok=false => not found.
// The whole target is normalised first (that is what the router matches on).
func (r *Request) resolve(w *sandbox) (content []byte, isDir bool, ok bool) {
	var p string
	switch r.Route {
	case "/one":
		p = "/f5"
	case "/empty":
		p = "/f0"
	case "/file", "/fromfs":
		full := normalize(r.target())
		if !strings.HasPrefix(full, r.Route+"/") || strings.Contains(full[len(r.Route)+1:], "/") {
			return nil, false, false
		}
		p = full[len(r.Route):]
	default:
		full := normalize(r.target())
		if full != r.Route && !strings.HasPrefix(full, r.Route+"/") {
			return nil, false, false // the router has no such route
		}
		if r.Route == "/static" {
			p = full
		} else {
			p = full[len(r.Route):]
		}
	}
	if strings.IndexByte(p, 0) >= 0 {
		return nil, false, false
	}
	p = strings.TrimRight(p, "/")
	if strings.HasSuffix(p, "/.") {
		p = strings.TrimSuffix(p, "/.")
	}
	if p == "" {
		p = "/"
	}
	if c, found := w.files[p]; found {
		return c, false, true
	}
	if w.dirs[p] {
		return nil, true, true
	}
	return nil, false, false
}

var reFirst = regexp.MustCompile(`^bytes=(\d+)-(\d*)$`)
var reSuffix = regexp.MustCompile(`^bytes=-(\d+)$`)

// rangeRef classifies a Range value for a file of length L (RFC 7233 §2.1, single range).
// kind: "none", "satisfiable", "unsatisfiable", "invalid".
func rangeRef(v string, L int) (kind string, s, e int) {
	v = strings.Trim(v, " \t") // OWS around a field value is not part of it
	if v == "" {
		return "none", 0, 0
	}
	// (a position beyond int64 is a position beyond the end of the file: RFC 7233 clamps a last-byte-pos and a
	// suffix-length, a first-byte-pos there is unsatisfiable)
	return rangeRef0(v, L)
}

func rangeRef0(v string, L int) (kind string, s, e int) {
	big1 := func(x string) (int, bool) {
		n, ok := new(big.Int).SetString(x, 10)
		if !ok || !n.IsInt64() || n.Int64() > 1<<50 {
			return 0, false
		}
		return int(n.Int64()), true
	}
	if m := reFirst.FindStringSubmatch(v); m != nil {
		first, ok := big1(m[1])
		if !ok {
			return "unsatisfiable", 0, 0 // beyond any file
		}
		if m[2] != "" {
			last, ok := big1(m[2])
			if ok && last < first {
				return "invalid", 0, 0
			}
			if first >= L {
				return "unsatisfiable", 0, 0
			}
			if !ok || last > L-1 {
				last = L - 1
			}
			return "satisfiable", first, last
		}
		if first >= L {
			return "unsatisfiable", 0, 0
		}
		return "satisfiable", first, L - 1
	}
	if m := reSuffix.FindStringSubmatch(v); m != nil {
		n, ok := big1(m[1])
		if ok && n == 0 {
			return "unsatisfiable", 0, 0
		}
		if L == 0 {
			return "unsatisfiable", 0, 0
		}
		if !ok || n > L {
			n = L
		}
		return "satisfiable", L - n, L - 1
	}
	return "invalid", 0, 0
}

// judge checks one decoded response against the reference.
func judge(w *sandbox, r *Request, pr *wire.ParsedResp) (string, string) {
	id := fmt.Sprintf("%s %s (Range %q, IMS %q, gzip %v)", r.Method, r.target(), r.Range, r.IMS, r.Gzip)
	if bytes.Contains(pr.Body, []byte(canary)) {
		return "escape", id + ": served the canary file from outside the root"
	}
	if ce := wire.Get(pr.Headers, "Content-Encoding"); len(ce) == 1 && ce[0] == "gzip" && r.Gzip && r.Method != "HEAD" && len(pr.Body) > 0 {
		if zr, err := gzip.NewReader(bytes.NewReader(pr.Body)); err == nil {
			if plain, err := io.ReadAll(zr); err == nil {
				cp := *pr
				cp.Body = plain
				cp.Headers = nil
				for _, h := range pr.Headers {
					if !strings.EqualFold(h.K, "Content-Encoding") {
						cp.Headers = append(cp.Headers, h)
					}
				}
				cp.Headers = append(cp.Headers, wire.KV{K: "X-Was-Gzip", V: "1"})
				pr = &cp
				if bytes.Contains(plain, []byte(canary)) {
					return "escape", id + ": served (compressed) the canary file from outside the root"
				}
			} else {
				return "bad", fmt.Sprintf("%s: gzip body corrupt: %v", id, err)
			}
		} else {
			return "bad", fmt.Sprintf("%s: Content-Encoding gzip but the body is not gzip: %v", id, err)
		}
	}
	content, isDir, ok := r.resolve(w)
	if !ok {
		if pr.Status == 400 && strings.Contains(r.Path, "%00") {
			return "400-nul", ""
		}
		if pr.Status != 404 {
			return "bad", fmt.Sprintf("%s: no such file under the root, want 404, got %d with body %q", id, pr.Status, short(pr.Body))
		}
		return "404", ""
	}
	if isDir {
		dirPath := strings.TrimSuffix(strings.TrimRight(normalize(r.target())[len(r.Route):], "/"), "/.")
		idx, hasIdx := w.files[dirPath+"/index.html"]
		indexRoute := r.Route == "/fs" || r.Route == "/gzi"
		switch {
		case (pr.Status == 403 || pr.Status == 404) && indexRoute && hasIdx:
			return "bad", fmt.Sprintf("%s: the directory has the index file index.html (IndexNames) but is answered %d %q", id, pr.Status, short(pr.Body))
		case pr.Status == 403 || pr.Status == 404:
			return "dir-refused", ""
		case pr.Status == 301 || pr.Status == 302 || pr.Status == 307 || pr.Status == 308:
			return "dir-redirect", "" // trailing-slash redirect of the router
		case pr.Status == 200 || pr.Status == 206 || pr.Status == 304 || pr.Status == 416:
			if indexRoute && hasIdx {
				content = idx // index file
				break
			}
			if r.Route == "/list" || r.Route == "/file" {
				if r.Method != "HEAD" && pr.Status == 200 && !bytes.Contains(pr.Body, []byte("<html>")) {
					return "bad", fmt.Sprintf("%s: directory answered 200 with a body that is neither an index file nor a generated listing: %q", id, short(pr.Body))
				}
				return "dir-listing", ""
			}
			return "bad", fmt.Sprintf("%s: directory without index answered %d", id, pr.Status)
		default:
			return "bad", fmt.Sprintf("%s: directory answered %d", id, pr.Status)
		}
	}
	L := len(content)
	// conditional request
	if pr.Status == 304 {
		if r.IMS != "equal" && r.IMS != "newer" {
			return "bad", fmt.Sprintf("%s: 304 Not Modified although If-Modified-Since is %q (file mtime %v)", id, r.IMS, w.mtime)
		}
		if len(pr.Body) != 0 {
			return "bad", id + ": 304 with a body"
		}
		return "304", ""
	}
	rangesOn := r.Route != "/norange"
	kind, s, e := rangeRef(r.Range, L)
	body := pr.Body
	identity := len(wire.Get(pr.Headers, "X-Was-Gzip")) == 0
	if ce := wire.Get(pr.Headers, "Content-Encoding"); len(ce) > 0 {
		if len(ce) != 1 || ce[0] != "gzip" || !r.Gzip {
			return "bad", fmt.Sprintf("%s: unexpected Content-Encoding %q", id, ce)
		}
		identity = false
		// HEAD of a compressed representation: nothing to decode
	}
	clv := wire.Get(pr.Headers, "Content-Length")
	switch pr.Status {
	case 200:
		if r.Method != "HEAD" {
			if !bytes.Equal(body, content) {
				return "bad", fmt.Sprintf("%s: 200 body (%d bytes) is not the file (%d bytes): %q", id, len(body), L, short(body))
			}
		} else if identity && (len(clv) != 1 || clv[0] != fmt.Sprint(L)) {
			return "bad", fmt.Sprintf("%s: HEAD 200 Content-Length %q, file has %d bytes", id, clv, L)
		}
		if len(wire.Get(pr.Headers, "Content-Range")) != 0 {
			return "bad", id + ": 200 response carries Content-Range"
		}
		return "200", ""
	case 206:
		if !rangesOn {
			return "bad", id + ": 206 although byte ranges are disabled for this handler"
		}
		if kind != "satisfiable" {
			return "bad", fmt.Sprintf("%s: 206 for a range that is %s on a %d-byte file (Content-Range %q, body %q)", id, kind, L, wire.Get(pr.Headers, "Content-Range"), short(pr.Body))
		}
		if !identity {
			return "bad", id + ": 206 with Content-Encoding gzip"
		}
		wantCR := fmt.Sprintf("bytes %d-%d/%d", s, e, L)
		if cr := wire.Get(pr.Headers, "Content-Range"); len(cr) != 1 || cr[0] != wantCR {
			return "bad", fmt.Sprintf("%s: Content-Range %q, want %q", id, cr, wantCR)
		}
		if len(clv) != 1 || clv[0] != fmt.Sprint(e-s+1) {
			return "bad", fmt.Sprintf("%s: 206 Content-Length %q, want %d", id, clv, e-s+1)
		}
		if r.Method != "HEAD" && !bytes.Equal(pr.Body, content[s:e+1]) {
			return "bad", fmt.Sprintf("%s: 206 body %q is not bytes %d-%d of the file (%q)", id, short(pr.Body), s, e, short(content[s:e+1]))
		}
		return "206", ""
	case 416:
		if kind == "none" || !rangesOn {
			return "bad", fmt.Sprintf("%s: 416 without an applicable Range header", id)
		}
		if kind == "satisfiable" {
			return "bad", fmt.Sprintf("%s: 416 for the satisfiable range %d-%d of a %d-byte file", id, s, e, L)
		}
		return "416", ""
	}
	return "bad", fmt.Sprintf("%s: unexpected status %d for an existing file (body %q)", id, pr.Status, short(pr.Body))
}

func short(b []byte) []byte {
	if len(b) > 80 {
		return append(append([]byte(nil), b[:80]...), "..."...)
	}
	return b
}

// runConn sends the requests on one keep-alive connection and judges every response.
var besideN int

func runConn(w *sandbox, reqs []*Request) (string, []string) {
	var stream []byte
	var methods []string
	for _, r := range reqs {
		stream = append(stream, r.encode(w)...)
		methods = append(methods, r.Method)
	}
	// A file next to the root that is named like the compressed copy of the root directory itself
	// ("<root>.hertz.gz"): alternately as old as the directory (a copy the handler would take for current)
	// and of another age (one it would take for stale). It lies outside the root: never served, never removed.
	beside := w.root + ".hertz.gz"
	besideN++
	{
		var zb bytes.Buffer
		zw := gzip.NewWriter(&zb)
		zw.Write([]byte(canary + ":compressed-copy-of-the-root")) //nolint:errcheck
		zw.Close()
		os.WriteFile(beside, zb.Bytes(), 0o644) //nolint:errcheck
		age := w.mtime.Add(time.Duration(besideN%2) * time.Hour)
		os.Chtimes(beside, age, age)         //nolint:errcheck
		os.Chtimes(w.root, w.mtime, w.mtime) //nolint:errcheck
	}
	res := w.srv.Serve(sconn.New([][]byte{stream}, sconn.EOF))
	if res.Panic != nil {
		return fmt.Sprintf("panic while serving %v: %v\n%s", describe(reqs), res.Panic, res.Stack), nil
	}
	if _, err := os.Stat(beside); err != nil {
		return fmt.Sprintf("serving %v removed %s, a file outside the root: %v", describe(reqs), filepath.Base(beside), err), nil
	}
	pos := 0
	var classes []string
	var prs []*wire.ParsedResp
	for i, r := range reqs {
		pr, err := wire.ReadResponse(res.Output, pos, r.Method)
		if err != nil {
			return fmt.Sprintf("response #%d (%s %s Range %q) is not a well-formed message / the keep-alive stream lost sync: %v\nbytes: %q", i, r.Method, r.target(), r.Range, err, short(res.Output[pos:])), nil
		}
		if pr.Framing == wire.FrUntilClose && i != len(reqs)-1 {
			return fmt.Sprintf("response #%d delimited by close in the middle of a keep-alive connection", i), nil
		}
		pos = pr.End
		prs = append(prs, pr)
		cls, msg := judge(w, r, pr)
		if msg != "" {
			return msg, nil
		}
		classes = append(classes, "outcome-"+cls)
	}
	if pos != len(res.Output) {
		return fmt.Sprintf("%d stray bytes after the last response", len(res.Output)-pos), nil
	}
	// HEAD must mirror the preceding GET of the same resource
	for i := 1; i < len(reqs); i++ {
		a, b := reqs[i-1], reqs[i]
		if a.Method == "GET" && b.Method == "HEAD" && a.target() == b.target() && a.Range == b.Range && a.IMS == b.IMS && a.Gzip == b.Gzip {
			ga, gb := prs[i-1], prs[i]
			if ga.Status != gb.Status {
				return fmt.Sprintf("HEAD %s (Range %q) answered %d, the same GET answered %d", b.target(), b.Range, gb.Status, ga.Status), nil
			}
			if ga.Status == 200 || ga.Status == 206 {
				for _, h := range []string{"Content-Length", "Content-Range"} {
					if fmt.Sprint(wire.Get(ga.Headers, h)) != fmt.Sprint(wire.Get(gb.Headers, h)) {
						return fmt.Sprintf("HEAD %s (Range %q): %s %q differs from GET's %q", b.target(), b.Range, h, wire.Get(gb.Headers, h), wire.Get(ga.Headers, h)), nil
					}
				}
			}
		}
	}
	return "", classes
}

func describe(reqs []*Request) string {
	var s []string
	for _, r := range reqs {
		s = append(s, fmt.Sprintf("%s %s Range=%q", r.Method, r.target(), r.Range))
	}
	return strings.Join(s, "; ")
}

// ---------------------------------------------------------------------------

func rangeForms(N int) []string {
	out := []string{"bytes=", "bytes=-", "bytes", "bytes=a-b", "bytes=1-x", "bytes=x-1", "items=0-1", "bytes 0-1", "bytes= 0-1", "bytes=0 - 1", "bytes=0-1 ", "Bytes=0-1",
		"bytes=99999999999999999999-", "bytes=0-99999999999999999999", "bytes=-99999999999999999999", "bytes=18446744073709551615-18446744073709551616", "bytes=2-9223372036854775808", "bytes=0-82000000000000000000", "bytes=0-81000000000000000000", "bytes=-9223372036854775808", "bytes=0-100000000000000000000000000000", "bytes=82000000000000000000-", "bytes=--1", "bytes=1--1", "bytes=-1-", "bytes=+1-2"}
	for a := 0; a <= N+1; a++ {
		out = append(out, fmt.Sprintf("bytes=%d-", a), fmt.Sprintf("bytes=-%d", a))
		for b := 0; b <= N+1; b++ {
			out = append(out, fmt.Sprintf("bytes=%d-%d", a, b))
		}
	}
	return out
}

func TestC08RangeGrid(t *testing.T) {
	rec := ev.New("range-grid")
	w := getWorld(t)
	shard, nshards := ev.Shard()
	N := smallN()
	forms := rangeForms(N)
	var global, evals int64
	classes := map[string]int64{}
	fails := 0
	for n := 0; n <= N; n++ {
		for _, route := range []string{"/fs", "/norange", "/fromfs", "/file", "/gz"} {
			for _, v := range forms {
				global++
				if global%int64(nshards) != int64(shard) {
					continue
				}
				p := fmt.Sprintf("/f%d", n)
				// GET, HEAD, then the same GET again (file cache hit)
				reqs := []*Request{{Method: "GET", Route: route, Path: p, Range: v}, {Method: "HEAD", Route: route, Path: p, Range: v}, {Method: "GET", Route: route, Path: p, Range: v}}
				evals += 3
				msg, cls := runConn(w, reqs)
				for _, c := range cls {
					classes[c]++
				}
				if msg != "" {
					fails++
					ev.Fail(prop, "range-grid", reqs, msg)
					t.Errorf("%s", msg)
					if fails > 6 {
						rec.Exact(evals, evals)
						return
					}
				}
			}
		}
	}
	rec.Exact(evals, evals)
	for k, v := range classes {
		rec.Class(k, v)
	}
	rec.Sample(map[string]interface{}{"requests": []*Request{{Method: "GET", Route: "/fs", Path: "/f3", Range: "bytes=1-2"}, {Method: "HEAD", Route: "/fs", Path: "/f3", Range: "bytes=1-2"}}})
	rec.Exhaustive(fmt.Sprintf("files of every length 0..%d x routes {StaticFS+ranges, StaticFS without ranges, FileFromFS, ctx.File, StaticFS+compress} x every Range form (a-b, a-, -n for a,b,n in 0..%d, and 20 malformed/overflowing forms) x {GET, HEAD, GET again (cache)}", N, N+1))
}

func TestC08Random(t *testing.T) {
	rec := ev.New("random")
	w := getWorld(t)
	paths := []string{"/f0", "/f1", "/f2", "/f5", "/f12", "/small-1", "/small", "/small+1", "/big", "/d", "/d/", "/d/index.html", "/d/other.txt", "/g", "/g/", "/g/index.html", "/e", "/e/", "/e/x.txt", "/missing", "/f1/", "/f1/x", "/", "",
		"/../secret.txt", "/%2e%2e/secret.txt", "/d/../../secret.txt", "/..%2fsecret.txt", "/d/%2e%2e/%2e%2e/secret.txt", "/.", "/./f1", "//f1", "/d//other.txt", "/f1%00", "/static/s5", "/static/s0",
		"/" + longName(250), "/" + longName(246), "/d/" + longName(255), "/" + longName(251)}
	rapid.Check(t, func(t *rapid.T) {
		k := rapid.IntRange(1, 5).Draw(t, "nReqs")
		var reqs []*Request
		nt := false
		for i := 0; i < k; i++ {
			r := &Request{Method: rapid.SampledFrom([]string{"GET", "GET", "HEAD"}).Draw(t, "method"),
				Route: rapid.SampledFrom([]string{"/fs", "/fs", "/norange", "/gz", "/gzi", "/list", "/static", "/one", "/empty", "/file", "/fromfs"}).Draw(t, "route")}
			r.Path = rapid.SampledFrom(paths).Draw(t, "path")
			if r.Route == "/file" || r.Route == "/fromfs" {
				r.Path = rapid.SampledFrom([]string{"/f0", "/f3", "/f12", "/small", "/small+1", "/big", "/missing", "/d", "/e"}).Draw(t, "name")
			}
			if r.Route == "/static" {
				r.Path = rapid.SampledFrom([]string{"/s5", "/s0", "/missing", "/", "/../f1", "/%2e%2e/f1"}).Draw(t, "staticPath")
			}
			if rapid.IntRange(0, 2).Draw(t, "range") > 0 {
				L := 0
				if c, _, ok := r.resolve(w); ok {
					L = len(c)
				}
				switch rapid.IntRange(0, 5).Draw(t, "rangeForm") {
				case 0:
					r.Range = fmt.Sprintf("bytes=%d-%d", rapid.IntRange(0, L+2).Draw(t, "a"), rapid.IntRange(0, L+2).Draw(t, "b"))
				case 1:
					r.Range = fmt.Sprintf("bytes=%d-", rapid.IntRange(0, L+2).Draw(t, "a"))
				case 2:
					r.Range = fmt.Sprintf("bytes=-%d", rapid.IntRange(0, L+2).Draw(t, "n"))
				case 3:
					r.Range = fmt.Sprintf("bytes=%d-%d", L-1, L-1)
				case 4:
					r.Range = rapid.SampledFrom(rangeForms(2)).Draw(t, "oddRange")
				default:
					r.Range = fmt.Sprintf("bytes=%d-%d", rapid.IntRange(0, 9000).Draw(t, "a"), rapid.IntRange(0, 80000).Draw(t, "b"))
				}
				nt = true
			}
			if rapid.IntRange(0, 4).Draw(t, "ims") == 0 {
				r.IMS = rapid.SampledFrom([]string{"older", "equal", "newer", "garbage"}).Draw(t, "imsKind")
			}
			if (r.Route == "/gz" || r.Route == "/gzi" || r.Route == "/file") && rapid.Bool().Draw(t, "gzip") {
				r.Gzip = true
			}
			reqs = append(reqs, r)
			if rapid.IntRange(0, 2).Draw(t, "repeat") == 0 {
				cp := *r
				reqs = append(reqs, &cp) // second hit goes through the file cache
				nt = true
			}
		}
		msg, cls := runConn(w, reqs)
		rec.Case(nt, ev.HashString(fmt.Sprintf("%+v", describe(reqs))), cls...)
		if msg != "" {
			t.Fatalf("%s\nconnection: %s", msg, describe(reqs))
		}
		if nt && rec.WantSample() {
			rec.Sample(reqs)
		}
	})
}

const (
	shortCache = 40 * time.Millisecond
	slowHold   = 170 * time.Millisecond
)

// TestC08CacheExpiry: the response is still holding its reader when the file's cache entry expires
// and the cleaner runs (several times): the announced bytes must still be delivered, and the next
// request for the same file (served from a new cache entry) too. Nothing here is a timing verdict:
// if the cleaner does not get to run, the case simply passes.
func TestC08CacheExpiry(t *testing.T) {
	rec := ev.New("cache-expiry")
	w := getWorld(t)
	type cse struct {
		Route, Path, Range string
		Gzip               bool
	}
	var cases []cse
	for _, p := range []string{"/f5", "/small-1", "/small", "/small+1", "/big"} {
		for _, rg := range []string{"", "bytes=1-3", "bytes=-2"} {
			cases = append(cases, cse{"/slowfs", p, rg, false})
		}
		cases = append(cases, cse{"/slowgz", p, "", true}, cse{"/slowgz", p, "", false})
	}
	shard, nshards := ev.Shard()
	for ci, c := range cases {
		if ci%nshards != shard {
			continue
		}
		content := w.files[c.Path]
		want, status := content, 200
		if c.Range != "" {
			kind, a, b := rangeRef(c.Range, len(content))
			if kind != "satisfiable" {
				continue
			}
			want, status = content[a:b+1], 206
		}
		req := func(slow bool) string {
			var sb strings.Builder
			fmt.Fprintf(&sb, "GET %s%s HTTP/1.1\r\nHost: example.com\r\n", c.Route, c.Path)
			if c.Range != "" {
				fmt.Fprintf(&sb, "Range: %s\r\n", c.Range)
			}
			if c.Gzip {
				sb.WriteString("Accept-Encoding: gzip\r\n")
			}
			if slow {
				sb.WriteString("X-Slow: 1\r\n")
			}
			sb.WriteString("\r\n")
			return sb.String()
		}
		rec.Case(true, ev.HashString(fmt.Sprintf("%+v", c)), "route-"+c.Route, map[bool]string{true: "range", false: "whole"}[c.Range != ""])
		res := w.srv.Serve(sconn.New([][]byte{[]byte(req(false) + req(true) + req(true) + req(false))}, sconn.EOF))
		fail := func(f string, a ...interface{}) {
			msg := fmt.Sprintf("%+v: ", c) + fmt.Sprintf(f, a...)
			ev.Fail(prop, "cache-expiry", c, msg)
			t.Errorf("%s", msg)
		}
		if res.Panic != nil {
			fail("panic: %v\n%s", res.Panic, res.Stack)
			continue
		}
		pos := 0
		for k := 0; k < 4; k++ {
			pr, err := wire.ReadResponse(res.Output, pos, "GET")
			if err != nil {
				fail("response #%d (held back %v after the handler while the %v cache entry expires) is not a complete well-formed message: %v; %d bytes left: %q", k, k == 1 || k == 2, shortCache, err, len(res.Output)-pos, short(res.Output[pos:]))
				break
			}
			pos = pr.End
			body := pr.Body
			if wire.HasToken(pr.Headers, "Content-Encoding", "gzip") {
				zr, err := gzip.NewReader(bytes.NewReader(body))
				if err == nil {
					body, err = io.ReadAll(zr)
				}
				if err != nil {
					fail("response #%d: gzip body does not decode: %v", k, err)
					break
				}
			}
			if pr.Status != status || !bytes.Equal(body, want) {
				fail("response #%d: status %d with %d body bytes, want %d with %d bytes (file %s, range %q)", k, pr.Status, len(body), status, len(want), c.Path, c.Range)
				break
			}
		}
	}
}

// TestC08Replaced: a file is replaced (same name, new content, modification time later by less
// than a second, as a deploy script does) after a compressed variant of it was built and cached; once
// the cache entry has expired every request, also one that accepts gzip, gets the new content.
func TestC08Replaced(t *testing.T) {
	rec := ev.New("replaced-file")
	w := getWorld(t)
	for ci, size := range []int{100, 3000, 20000} {
		for _, sameLen := range []bool{true, false} {
			name := fmt.Sprintf("/mut%d%v", size, sameLen)
			fp := filepath.Join(w.root, name[1:])
			v1 := fileContent(name+"v1", size)
			n2 := size
			if !sameLen {
				n2 = size + 7
			}
			v2 := fileContent(name+"-v2", n2)
			base := time.Date(2021, 3, 4, 5, 6, 7, 100e6, time.UTC)
			write := func(c []byte, mt time.Time) {
				if err := os.WriteFile(fp, c, 0o644); err != nil {
					t.Fatal(err)
				}
				if err := os.Chtimes(fp, mt, mt); err != nil {
					t.Fatal(err)
				}
			}
			get := func(gz bool) ([]byte, string) {
				req := "GET /slowgz" + name + " HTTP/1.1\r\nHost: example.com\r\n"
				if gz {
					req += "Accept-Encoding: gzip\r\n"
				}
				res := w.srv.Serve(sconn.New([][]byte{[]byte(req + "\r\n")}, sconn.EOF))
				if res.Panic != nil {
					return nil, fmt.Sprintf("panic: %v", res.Panic)
				}
				pr, err := wire.ReadResponse(res.Output, 0, "GET")
				if err != nil || pr.Status != 200 {
					return nil, fmt.Sprintf("no 200 response: %v %q", err, short(res.Output))
				}
				body := pr.Body
				if wire.HasToken(pr.Headers, "Content-Encoding", "gzip") {
					zr, err := gzip.NewReader(bytes.NewReader(body))
					if err == nil {
						body, err = io.ReadAll(zr)
					}
					if err != nil {
						return nil, fmt.Sprintf("gzip body does not decode: %v", err)
					}
				}
				return body, ""
			}
			fail := func(f string, a ...interface{}) {
				msg := fmt.Sprintf("file of %d bytes, replacement same length=%v: ", size, sameLen) + fmt.Sprintf(f, a...)
				ev.Fail(prop, "replaced-file", map[string]interface{}{"size": size, "same_length": sameLen}, msg)
				t.Errorf("%s", msg)
			}
			rec.Case(true, ev.HashString(name), fmt.Sprintf("size-%d", size))
			_ = ci
			write(v1, base)
			for _, gz := range []bool{true, false, true} {
				if b, msg := get(gz); msg != "" {
					fail("first version, gzip=%v: %s", gz, msg)
				} else if !bytes.Equal(b, v1) {
					fail("first version, gzip=%v: got %d bytes that are not the file", gz, len(b))
				}
			}
			if ci%2 == 0 {
				write(v2, base.Add(500*time.Millisecond)) // same second, later
			} else {
				write(v2, base.Add(-36*time.Hour)) // an older version restored with its old modification time
			}
			time.Sleep(4 * shortCache) // let the cache entries expire
			for _, gz := range []bool{true, false, true} {
				b, msg := get(gz)
				// the old cache entry lives until the cleaner has run: poll (no timing verdict), a stale
				// answer only counts when it persists for 4 s
				for k := 0; k < 40 && msg == "" && !bytes.Equal(b, v2); k++ {
					time.Sleep(100 * time.Millisecond)
					b, msg = get(gz)
				}
				if msg != "" {
					fail("after the replacement, gzip=%v: %s", gz, msg)
				} else if !bytes.Equal(b, v2) {
					what := "neither version"
					if bytes.Equal(b, v1) {
						what = "the previous content"
					}
					fail("after the file was replaced (mtime +500 ms or -36 h) and the %v cache had expired, a request with gzip=%v still got %s (%d bytes) 4 s later", shortCache, gz, what, len(b))
				}
			}
			os.Remove(fp)
			os.Remove(fp + ".hertz.gz")
		}
	}
}

// TestC08VHost: with the virtual-host rewriter the Host header is part of the file path. Whatever
// Host and target a client sends, the response carries nothing from outside the root (content of the
// canary files, the index page or the listing of the directory above), and the page of a real
// virtual host is served.
func TestC08VHost(t *testing.T) {
	rec := ev.New("vhost")
	w := getWorld(t)
	hosts := []string{"vhost.example", "..", ".", "...", "%2e%2e", "..%2f..", "a/..", "..\\", "..:80", "vhost.example:8080", "VHOST.example", "../vhost.example", "vhost.example/.."}
	targets := []string{"/vh", "/vh/", "/vh/page.txt", "/vh/..", "/vh/../", "/vh/./", "/vh//", "/vh/%2e%2e", "/vh/%2e%2e/", "/vh/x/..", "/vh/secret.txt", "/vh/../secret.txt", "/vh/index.html", "/vh/d/../..", "/vh?x=1"}
	statuses := map[int]int64{}
	for _, host := range hosts {
		for _, target := range targets {
			nt := strings.Contains(host, "..") || strings.Contains(target, "..") || strings.Contains(target, "%2e")
			rec.Case(nt, ev.HashString(host, target), "host-"+map[bool]string{true: "hostile", false: "plain"}[strings.Contains(host, "..") || strings.Contains(host, "%")])
			req := "GET " + target + " HTTP/1.1\r\nHost: " + host + "\r\nConnection: close\r\n\r\n"
			res := w.srv.Serve(sconn.New([][]byte{[]byte(req)}, sconn.EOF))
			fail := func(f string, a ...interface{}) {
				msg := fmt.Sprintf("Host %q, target %q: ", host, target) + fmt.Sprintf(f, a...)
				ev.Fail(prop, "vhost", map[string]string{"host": host, "target": target}, msg)
				t.Errorf("%s", msg)
			}
			if res.Panic != nil {
				fail("panic: %v", res.Panic)
				continue
			}
			if bytes.Contains(res.Output, []byte(canary)) {
				fail("the response exposes content or names from outside the root: %.300q", res.Output)
				continue
			}
			pr, err := wire.ReadResponse(res.Output, 0, "GET")
			if err != nil {
				fail("response is not well-formed: %v: %q", err, short(res.Output))
				continue
			}
			statuses[pr.Status]++
			if host == "vhost.example" && target == "/vh/page.txt" && (pr.Status != 200 || string(pr.Body) != "VHOST-PAGE") {
				fail("the page of the virtual host is not served: status %d body %q", pr.Status, pr.Body)
			}
		}
	}
	for st, n := range statuses {
		rec.Class(fmt.Sprintf("status-%d", st), n)
	}
}

// TestC08RawParam: a file handler behind a route parameter on a server that routes on the raw path
// (WithUseRawPath, parameter values unescaped): the prefix-stripping rewriter "/" + Param("filepath")
// honours the documented contract of PathRewriteFunc (no "/../" inside) and still can hand the handler a
// path that is or ends in "/..". Whatever the target, nothing from outside the root may be served: no
// canary content, no canary names in a generated listing.
func TestC08RawParam(t *testing.T) {
	rec := ev.New("raw-param")
	w := getWorld(t)
	rewrite := func(ctx *app.RequestContext) []byte { return []byte("/" + ctx.Param("filepath")) }
	s := sconn.NewServer(func(h *server.Hertz) {
		h.StaticFS("/idx", &app.FS{Root: w.root, PathRewrite: rewrite, IndexNames: []string{"index.html"}})
		h.StaticFS("/ls", &app.FS{Root: w.root, PathRewrite: rewrite, GenerateIndexPages: true})
	}, server.WithUseRawPath(true))
	defer s.Close()
	dots := []string{"..", "%2e%2e", "%2E%2E", ".%2e", "%2e."}
	var targets []string
	for _, mount := range []string{"/idx", "/ls"} {
		targets = append(targets, mount+"/f5", mount+"/d/", mount+"/")
		for _, d := range dots {
			targets = append(targets, mount+"/"+d, mount+"/"+d+"/", mount+"/d/"+d+"/"+d, mount+"/d/"+d+"/"+d+"/", mount+"/"+d+"/secret.txt", mount+"/"+d+"%2fsecret.txt", mount+"/d%2f"+d+"%2f"+d, mount+"/"+d+"/"+d)
		}
	}
	statuses := map[int]int64{}
	for _, method := range []string{"GET", "HEAD"} {
		for _, target := range targets {
			rec.Case(strings.Contains(target, "2e") || strings.Contains(target, "2E") || strings.Contains(target, ".."), ev.HashString(method, target), "raw-param-target")
			res := s.Serve(sconn.New([][]byte{[]byte(method + " " + target + " HTTP/1.1\r\nHost: example.com\r\nConnection: close\r\n\r\n")}, sconn.EOF))
			fail := func(f string, a ...interface{}) {
				msg := fmt.Sprintf("%s %q: ", method, target) + fmt.Sprintf(f, a...)
				ev.Fail(prop, "raw-param", map[string]string{"method": method, "target": target}, msg)
				t.Errorf("%s", msg)
			}
			if res.Panic != nil {
				fail("panic: %v", res.Panic)
				continue
			}
			if bytes.Contains(res.Output, []byte(canary)) {
				fail("the response exposes content or names from outside the root: %.300q", res.Output)
				continue
			}
			pr, err := wire.ReadResponse(res.Output, 0, method)
			if err != nil {
				fail("response is not well-formed: %v: %q", err, short(res.Output))
				continue
			}
			statuses[pr.Status]++
			// HEAD shows no body: the headers of an answer taken from outside the root still give it away
			if method == "HEAD" && pr.Status == 200 && climbsOut(target[strings.Index(target[1:], "/")+1:]) {
				fail("HEAD on a target that climbs out of the root answered 200")
			}
			if strings.HasSuffix(target, "/f5") && (pr.Status != 200 || (method == "GET" && !bytes.Equal(pr.Body, w.files["/f5"]))) {
				fail("the file f5 under the root is not served: status %d body %q", pr.Status, short(pr.Body))
			}
		}
	}
	for st, n := range statuses {
		rec.Class(fmt.Sprintf("status-%d", st), n)
	}
}

// climbsOut: the path (percent-decoded once) leaves the directory it starts in
func climbsOut(p string) bool {
	d := strings.NewReplacer("%2e", ".", "%2E", ".", "%2f", "/", "%2F", "/").Replace(p)
	depth := 0
	for _, seg := range strings.Split(d, "/") {
		switch seg {
		case "", ".":
		case "..":
			depth--
			if depth < 0 {
				return true
			}
		default:
			depth++
		}
	}
	return false
}

func TestC08Replay(t *testing.T) {
	f := ev.ReplayFile()
	if f == "" {
		t.Skip("no replay file")
	}
	var reqs []*Request
	if err := ev.LoadReplay(f, &reqs); err != nil {
		t.Fatal(err)
	}
	if msg, _ := runConn(getWorld(t), reqs); msg != "" {
		ev.Fail(prop, "replay", reqs, msg)
		t.Fatal(msg)
	}
}

// normalize: percent-decode once, resolve segments with a stack (the C07 reference).
func normalize(raw string) string {
	var b []byte
	isHex := func(c byte) bool { return '0' <= c && c <= '9' || 'a' <= c && c <= 'f' || 'A' <= c && c <= 'F' }
	hv := func(c byte) byte {
		switch {
		case c <= '9':
			return c - '0'
		case c >= 'a':
			return c - 'a' + 10
		}
		return c - 'A' + 10
	}
	for i := 0; i < len(raw); i++ {
		if raw[i] == '%' && i+2 < len(raw) && isHex(raw[i+1]) && isHex(raw[i+2]) {
			b = append(b, hv(raw[i+1])<<4|hv(raw[i+2]))
			i += 2
			continue
		}
		b = append(b, raw[i])
	}
	d := string(b)
	if !strings.HasPrefix(raw, "/") {
		d = "/" + d
	}
	segs := strings.Split(d, "/")
	var stack []string
	for _, s := range segs[:len(segs)-1] {
		switch s {
		case "", ".":
		case "..":
			if len(stack) > 0 {
				stack = stack[:len(stack)-1]
			}
		default:
			stack = append(stack, s)
		}
	}
	last := segs[len(segs)-1]
	if last == ".." {
		if len(stack) > 0 {
			stack = stack[:len(stack)-1]
		}
		last = ""
	}
	stack = append(stack, last)
	return "/" + strings.Join(stack, "/")
}
