package c05

import (
	"context"
	"fmt"
	"io"
	"strings"
	"testing"

	"github.com/cloudwego/hertz/pkg/app"
	hserver "github.com/cloudwego/hertz/pkg/app/server"
	"github.com/cloudwego/hertz/pkg/protocol/http1/resp"
	"pgregory.net/rapid"

	"verifharness/ev"
	"verifharness/sconn"
	"verifharness/srv"
)

// TestC05Streamed: a handler that streams its response with the chunked body writer. The header block
// goes to the connection's write buffer with the first Write and reaches the wire at the next Flush;
// in between the handler (or a middleware after Next) keeps calling header setters, with hostile
// bytes. What reaches the wire must still be one start line and clean header lines for the fields
// that had been set when the first Write was made, whatever is passed to the setters afterwards.
type streamedProg struct {
	Pad       int      `json:"header_padding_bytes"` // size of an X-Pad field: the block is below or above the 4 KiB zero-copy threshold
	Early     []string `json:"early_values"`         // X-E<i> fields set before the first write
	Late      []string `json:"late_values"`          // values passed to Header.Set("X-Late<i>", v) after the first write, before any flush
	LateName  string   `json:"late_name"`
	FlushThen bool     `json:"flush_before_late_set"`
	// ViaBodyStream: no chunked writer; the handler sets a body stream, and the late setter calls are
	// made by that stream's Read, which the server calls after it has written the header block
	ViaBodyStream bool `json:"late_set_inside_body_stream_read"`
}

type lateReader struct {
	ctx  *app.RequestContext
	p    *streamedProg
	done bool
	data []byte
}

func (r *lateReader) Read(b []byte) (int, error) {
	if !r.done {
		r.done = true
		for i, v := range r.p.Late {
			name := r.p.LateName
			if name == "" {
				name = fmt.Sprintf("X-Late%d", i)
			}
			r.ctx.Response.Header.Set(name, v)
		}
	}
	if len(r.data) == 0 {
		return 0, io.EOF
	}
	n := copy(b, r.data)
	r.data = r.data[n:]
	return n, nil
}

var curStreamed *streamedProg

func streamedHandler(c context.Context, ctx *app.RequestContext) {
	p := curStreamed
	ctx.Response.Header.Set("X-Pad", strings.Repeat("p", p.Pad))
	for i, v := range p.Early {
		ctx.Response.Header.Set(fmt.Sprintf("X-E%d", i), v)
	}
	if p.ViaBodyStream {
		// length known or not: the two ways the server frames a streamed body
		n := 11
		if p.Pad%2 == 0 {
			n = -1
		}
		ctx.SetBodyStream(&lateReader{ctx: ctx, p: p, data: []byte("firstsecond")}, n)
		return
	}
	ctx.Response.HijackWriter(resp.NewChunkedBodyWriter(&ctx.Response, ctx.GetWriter()))
	ctx.Write([]byte("first")) //nolint:errcheck
	if p.FlushThen {
		ctx.Flush() //nolint:errcheck
	}
	for i, v := range p.Late {
		name := p.LateName
		if name == "" {
			name = fmt.Sprintf("X-Late%d", i)
		}
		ctx.Response.Header.Set(name, v)
	}
	ctx.Write([]byte("second")) //nolint:errcheck
}

var streamedServer *srv.Echo

func TestC05Streamed(t *testing.T) {
	rec := ev.New("streamed-late-set")
	if streamedServer == nil {
		streamedServer = srv.NewEcho(srv.Config{Setup: func(h *hserver.Hertz, echo app.HandlerFunc) { h.GET("/s", streamedHandler) }})
	}
	rapid.Check(t, func(t *rapid.T) {
		p := &streamedProg{Pad: rapid.SampledFrom([]int{0, 100, 3000, 3901, 4096, 4097, 5000, 5001, 9000}).Draw(t, "pad"), FlushThen: rapid.IntRange(0, 3).Draw(t, "flushFirst") == 0}
		for i := rapid.IntRange(0, 3).Draw(t, "nEarly"); i > 0; i-- {
			p.Early = append(p.Early, genHostile(t, "early"))
		}
		for i := rapid.IntRange(1, 3).Draw(t, "nLate"); i > 0; i-- {
			v := genHostile(t, "late")
			if rapid.Bool().Draw(t, "injection") {
				v = "v\r\nSet-Cookie: session=attacker\r\nX-Tail: " + v
			}
			p.Late = append(p.Late, v)
		}
		p.LateName = rapid.SampledFrom([]string{"", "", "X-Pad", "X-E0", "Content-Type"}).Draw(t, "lateName")
		p.ViaBodyStream = rapid.IntRange(0, 2).Draw(t, "viaBodyStream") == 0
		curStreamed = p
		_, res, _ := streamedServer.Run([][]byte{[]byte("GET /s HTTP/1.1\r\nHost: a\r\nConnection: close\r\n\r\n")}, sconn.EOF)
		big := p.Pad >= 3901
		rec.Case(big && !p.FlushThen, ev.HashString(fmt.Sprintf("%+v", *p)), fmt.Sprintf("header-block-over-4k-%v", big), fmt.Sprintf("flushed-before-late-set-%v", p.FlushThen))
		if res.Panic != nil {
			t.Fatalf("panic: %v", res.Panic)
		}
		h := strictLines(res.Output)
		if h.err != "" {
			t.Fatalf("the streamed response is not a clean header block: %s\nprogram: %+v\noutput: %q", h.err, *p, res.Output)
		}
		if !strings.HasPrefix(h.start, "HTTP/1.1 200") {
			t.Fatalf("start line %q\nprogram: %+v", h.start, *p)
		}
		// fields the application had set when the block was written, plus what the server adds itself
		allowed := map[string]bool{"x-pad": true, "server": true, "date": true, "content-type": true, "transfer-encoding": true, "connection": true, "content-length": true}
		for i := range p.Early {
			allowed[fmt.Sprintf("x-e%d", i)] = true
		}
		seen := map[string]int{}
		for _, l := range h.lines {
			name := strings.ToLower(l[:strings.IndexByte(l, ':')])
			seen[name]++
			if !allowed[name] {
				t.Fatalf("the header block on the wire has the line %q: not a field that was set before the block was written\nprogram: %+v\noutput: %q", l, *p, res.Output)
			}
			if seen[name] > 1 {
				t.Fatalf("field %q appears %d times\nprogram: %+v\noutput: %q", name, seen[name], *p, res.Output)
			}
		}
		musts := []string{"x-pad", "date", "transfer-encoding"}
		if p.ViaBodyStream && p.Pad%2 != 0 {
			musts = []string{"x-pad", "date", "content-length"}
		}
		for _, must := range musts {
			if seen[must] != 1 {
				t.Fatalf("field %q is missing from the header block (a later setter call overwrote the block before it was flushed?)\nprogram: %+v\noutput: %q", must, *p, res.Output)
			}
		}
		want := "5\r\nfirst\r\n6\r\nsecond\r\n0\r\n\r\n"
		if p.ViaBodyStream && p.Pad%2 != 0 {
			want = "firstsecond"
		} else if p.ViaBodyStream {
			want = "b\r\nfirstsecond\r\n0\r\n\r\n"
		}
		if h.body != want {
			t.Fatalf("body after the header block is %q, want %q\nprogram: %+v", h.body, want, *p)
		}
		if rec.WantSample() && big {
			rec.Sample(p)
		}
	})
}

// TestC05TrailerLate: the trailer section of a chunked response is written after the last chunk and
// flushed later; in between the server closes the body stream, which is application code. A trailer set
// from there (with hostile bytes) must not rewrite the section that is already queued: what follows the
// last chunk is clean field lines for declared trailers and the empty line, nothing else.
type trailerCloser struct {
	lateReader
	late string
}

func (r *trailerCloser) Close() error {
	r.ctx.Response.Header.Trailer().Set("X-Late", r.late) //nolint:errcheck
	return nil
}

var curTrailer struct {
	size int
	late string
}

func TestC05TrailerLate(t *testing.T) {
	rec := ev.New("trailer-late-set")
	s := srv.NewEcho(srv.Config{Setup: func(h *hserver.Hertz, echo app.HandlerFunc) {
		h.GET("/t", func(c context.Context, ctx *app.RequestContext) {
			ctx.Response.Header.Trailer().Set("X-Sig", strings.Repeat("s", curTrailer.size)) //nolint:errcheck
			ctx.SetBodyStream(&trailerCloser{lateReader: lateReader{ctx: ctx, p: &streamedProg{}, data: []byte("firstsecond")}, late: curTrailer.late}, -1)
		})
	}})
	defer s.Close()
	rapid.Check(t, func(t *rapid.T) {
		curTrailer.size = rapid.SampledFrom([]int{10, 3000, 4000, 4096, 4097, 5000, 9000, 20000}).Draw(t, "trailerSize")
		curTrailer.late = genHostile(t, "late")
		if rapid.Bool().Draw(t, "injection") {
			curTrailer.late = "v\r\nX-Injected: 1\r\n\r\nHTTP/1.1 200 OK\r\nContent-Length: 3\r\n\r\nabc" + curTrailer.late
		}
		_, res, _ := s.Run([][]byte{[]byte("GET /t HTTP/1.1\r\nHost: a\r\nConnection: close\r\n\r\n")}, sconn.EOF)
		big := curTrailer.size >= 4000
		rec.Case(big, ev.HashString(fmt.Sprint(curTrailer.size), curTrailer.late), fmt.Sprintf("trailer-section-over-4k-%v", big))
		if res.Panic != nil {
			t.Fatalf("panic: %v", res.Panic)
		}
		h := strictLines(res.Output)
		if h.err != "" {
			t.Fatalf("the response is not a clean header block: %s\noutput: %.300q", h.err, res.Output)
		}
		const chunks = "b\r\nfirstsecond\r\n0\r\n"
		if !strings.HasPrefix(h.body, chunks) {
			t.Fatalf("body after the header block starts %.60q, want %q", h.body, chunks)
		}
		rest := h.body[len(chunks):]
		end := strings.Index(rest, "\r\n\r\n")
		if end < 0 && rest != "\r\n" {
			t.Fatalf("the trailer section is not terminated: %.200q", rest)
		}
		section, after := "", ""
		if rest != "\r\n" {
			section, after = rest[:end], rest[end+4:]
		}
		if after != "" {
			t.Fatalf("%d bytes follow the end of the message (trailer of %d bytes, late value %.40q): %.200q", len(after), curTrailer.size, curTrailer.late, after)
		}
		for _, l := range strings.Split(section, "\r\n") {
			if l == "" {
				continue
			}
			c := strings.IndexByte(l, ':')
			name := ""
			if c > 0 {
				name = strings.ToLower(l[:c])
			}
			if name != "x-sig" && name != "x-late" || strings.ContainsAny(l, "\r\n") {
				t.Fatalf("the trailer section has the line %.80q: not a field line of a trailer the application set (trailer of %d bytes, late value %.40q)", l, curTrailer.size, curTrailer.late)
			}
			if name == "x-sig" && l != "X-Sig: "+strings.Repeat("s", curTrailer.size) {
				t.Fatalf("the X-Sig trailer arrived altered: %.80q...", l)
			}
		}
	})
}
