package c05

import (
	"context"
	"fmt"
	"io"
	"strings"
	"testing"

	"github.com/cloudwego/hertz/pkg/app"
	hserver "github.com/cloudwego/hertz/pkg/app/server"
	"github.com/cloudwego/hertz/pkg/protocol/http1/resp"
	"pgregory.net/rapid"

	"verifharness/ev"
	"verifharness/sconn"
	"verifharness/srv"
)

// TestC05Streamed: a handler that streams its response with the chunked body writer. The header block
// goes to the connection's write buffer with the first Write and reaches the wire at the next Flush;
// in between the handler (or a middleware after Next) keeps calling header setters, with hostile
// bytes. What reaches the wire must still be one start line and clean header lines for the fields
// that had been set when the first Write was made, whatever is passed to the setters afterwards.
type streamedProg struct {
	Pad       int      `json:"header_padding_bytes"` // size of an X-Pad field: the block is below or above the 4 KiB zero-copy threshold
	Early     []string `json:"early_values"`         // X-E<i> fields set before the first write
	Late      []string `json:"late_values"`          // values passed to Header.Set("X-Late<i>", v) after the first write, before any flush
	LateName  string   `json:"late_name"`
	FlushThen bool     `json:"flush_before_late_set"`
	// ViaBodyStream: no chunked writer; the handler sets a body stream, and the late setter calls are
	// made by that stream's Read, which the server calls after it has written the header block
	ViaBodyStream bool `json:"late_set_inside_body_stream_read"`
}

type lateReader struct {
	ctx  *app.RequestContext
	p    *streamedProg
	done bool
	data []byte
}

func (r *lateReader) Read(b []byte) (int, error) {
	if !r.done {
		r.done = true
		for i, v := range r.p.Late {
			name := r.p.LateName
			if name == "" {
				name = fmt.Sprintf("X-Late%d", i)
			}
			r.ctx.Response.Header.Set(name, v)
		}
	}
	if len(r.data) == 0 {
		return 0, io.EOF
	}
	n := copy(b, r.data)
	r.data = r.data[n:]
	return n, nil
}

var curStreamed *streamedProg

func streamedHandler(c context.Context, ctx *app.RequestContext) {
	p := curStreamed
	ctx.Response.Header.Set("X-Pad", strings.Repeat("p", p.Pad))
	for i, v := range p.Early {
		ctx.Response.Header.Set(fmt.Sprintf("X-E%d", i), v)
	}
	if p.ViaBodyStream {
		// length known or not: the two ways the server frames a streamed body
		n := 11
		if p.Pad%2 == 0 {
			n = -1
		}
		ctx.SetBodyStream(&lateReader{ctx: ctx, p: p, data: []byte("firstsecond")}, n)
		return
	}
	ctx.Response.HijackWriter(resp.NewChunkedBodyWriter(&ctx.Response, ctx.GetWriter()))
	ctx.Write([]byte("first")) //nolint:errcheck
	if p.FlushThen {
		ctx.Flush() //nolint:errcheck
	}
	for i, v := range p.Late {
		name := p.LateName
		if name == "" {
			name = fmt.Sprintf("X-Late%d", i)
		}
		ctx.Response.Header.Set(name, v)
	}
	ctx.Write([]byte("second")) //nolint:errcheck
}

var streamedServer *srv.Echo

func TestC05Streamed(t *testing.T) {
	rec := ev.New("streamed-late-set")
	if streamedServer == nil {
		streamedServer = srv.NewEcho(srv.Config{Setup: func(h *hserver.Hertz, echo app.HandlerFunc) { h.GET("/s", streamedHandler) }})
	}
	rapid.Check(t, func(t *rapid.T) {
		p := &streamedProg{Pad: rapid.SampledFrom([]int{0, 100, 3000, 3901, 4096, 4097, 5000, 5001, 9000}).Draw(t, "pad"), FlushThen: rapid.IntRange(0, 3).Draw(t, "flushFirst") == 0}
		for i := rapid.IntRange(0, 3).Draw(t, "nEarly"); i > 0; i-- {
			p.Early = append(p.Early, genHostile(t, "early"))
		}
		for i := rapid.IntRange(1, 3).Draw(t, "nLate"); i > 0; i-- {
			v := genHostile(t, "late")
			if rapid.Bool().Draw(t, "injection") {
				v = "v\r\nSet-Cookie: session=attacker\r\nX-Tail: " + v
			}
			p.Late = append(p.Late, v)
		}
		p.LateName = rapid.SampledFrom([]string{"", "", "X-Pad", "X-E0", "Content-Type"}).Draw(t, "lateName")
		p.ViaBodyStream = rapid.IntRange(0, 2).Draw(t, "viaBodyStream") == 0
		curStreamed = p
		_, res, _ := streamedServer.Run([][]byte{[]byte("GET /s HTTP/1.1\r\nHost: a\r\nConnection: close\r\n\r\n")}, sconn.EOF)
		big := p.Pad >= 3901
		rec.Case(big && !p.FlushThen, ev.HashString(fmt.Sprintf("%+v", *p)), fmt.Sprintf("header-block-over-4k-%v", big), fmt.Sprintf("flushed-before-late-set-%v", p.FlushThen))
		if res.Panic != nil {
			t.Fatalf("panic: %v", res.Panic)
		}
		h := strictLines(res.Output)
		if h.err != "" {
			t.Fatalf("the streamed response is not a clean header block: %s\nprogram: %+v\noutput: %q", h.err, *p, res.Output)
		}
		if !strings.HasPrefix(h.start, "HTTP/1.1 200") {
			t.Fatalf("start line %q\nprogram: %+v", h.start, *p)
		}
		// fields the application had set when the block was written, plus what the server adds itself
		allowed := map[string]bool{"x-pad": true, "server": true, "date": true, "content-type": true, "transfer-encoding": true, "connection": true, "content-length": true}
		for i := range p.Early {
			allowed[fmt.Sprintf("x-e%d", i)] = true
		}
		seen := map[string]int{}
		for _, l := range h.lines {
			name := strings.ToLower(l[:strings.IndexByte(l, ':')])
			seen[name]++
			if !allowed[name] {
				t.Fatalf("the header block on the wire has the line %q: not a field that was set before the block was written\nprogram: %+v\noutput: %q", l, *p, res.Output)
			}
			if seen[name] > 1 {
				t.Fatalf("field %q appears %d times\nprogram: %+v\noutput: %q", name, seen[name], *p, res.Output)
			}
		}
		musts := []string{"x-pad", "date", "transfer-encoding"}
		if p.ViaBodyStream && p.Pad%2 != 0 {
			musts = []string{"x-pad", "date", "content-length"}
		}
		for _, must := range musts {
			if seen[must] != 1 {
				t.Fatalf("field %q is missing from the header block (a later setter call overwrote the block before it was flushed?)\nprogram: %+v\noutput: %q", must, *p, res.Output)
			}
		}
		want := "5\r\nfirst\r\n6\r\nsecond\r\n0\r\n\r\n"
		if p.ViaBodyStream && p.Pad%2 != 0 {
			want = "firstsecond"
		} else if p.ViaBodyStream {
			want = "b\r\nfirstsecond\r\n0\r\n\r\n"
		}
		if h.body != want {
			t.Fatalf("body after the header block is %q, want %q\nprogram: %+v", h.body, want, *p)
		}
		if rec.WantSample() && big {
			rec.Sample(p)
		}
	})
}
