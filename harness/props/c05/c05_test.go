package c05

import (
	"bytes"
	"fmt"
	"os"
	"reflect"
	"runtime/debug"
	"sort"
	"strings"
	"testing"

	"github.com/cloudwego/hertz/pkg/app"
	"github.com/cloudwego/hertz/pkg/network"
	"github.com/cloudwego/hertz/pkg/protocol"
	reqI "github.com/cloudwego/hertz/pkg/protocol/http1/req"
	respI "github.com/cloudwego/hertz/pkg/protocol/http1/resp"
	"pgregory.net/rapid"

	"verifharness/ev"
	_ "verifharness/sconn"
)

const prop = "C05"

func TestMain(m *testing.M) {
	code := m.Run()
	ev.Flush()
	os.Exit(code)
}

// An entry point applies one public header-writing API with a name-like input
// a and a value-like input b and returns the serialised message.
type entry struct {
	name     string
	usesName bool // a is used as a field name (a hostile name may legitimately drop the field)
	run      func(a, b string) []byte
	// inStartLine: the input is part of the start line (method, host of an absolute-form or CONNECT
	// target): the start line may differ from the benign twin's, but it must stay one line
	inStartLine bool
}

func writeReq(req *protocol.Request) []byte {
	var buf bytes.Buffer
	w := network.NewWriter(&buf)
	if err := reqI.Write(req, w); err != nil {
		return []byte("WRITE-ERROR: " + err.Error())
	}
	w.Flush() //nolint:errcheck
	return buf.Bytes()
}

func writeResp(resp *protocol.Response) []byte {
	var buf bytes.Buffer
	w := network.NewWriter(&buf)
	if err := respI.Write(resp, w); err != nil {
		return []byte("WRITE-ERROR: " + err.Error())
	}
	w.Flush() //nolint:errcheck
	return buf.Bytes()
}

func newReq() *protocol.Request {
	req := &protocol.Request{}
	req.SetRequestURI("http://example.com/path?q=1")
	req.Header.SetMethod("POST")
	req.Header.Set("X-Before", "1")
	req.SetBodyString("BODY-BYTES")
	return req
}

func finishReq(req *protocol.Request) []byte {
	req.Header.Set("X-After", "2")
	return writeReq(req)
}

func newResp() *protocol.Response {
	resp := &protocol.Response{}
	resp.Header.SetNoDefaultDate(true)
	resp.Header.Set("X-Before", "1")
	resp.SetBodyString("BODY-BYTES")
	return resp
}

func finishResp(resp *protocol.Response) []byte {
	resp.Header.Set("X-After", "2")
	return writeResp(resp)
}

func newCtx() *app.RequestContext {
	ctx := app.NewContext(0)
	ctx.Response.Header.SetNoDefaultDate(true)
	ctx.Response.Header.Set("X-Before", "1")
	ctx.Response.SetBodyString("BODY-BYTES")
	return ctx
}

func finishCtx(ctx *app.RequestContext) []byte {
	ctx.Response.Header.Set("X-After", "2")
	return writeResp(&ctx.Response)
}

func reqEntry(name string, usesName bool, f func(req *protocol.Request, a, b string)) entry {
	return entry{name: name, usesName: usesName, run: func(a, b string) []byte { r := newReq(); f(r, a, b); return finishReq(r) }}
}
func startLine(e entry) entry {
	e.inStartLine = true
	return e
}

func proxyEntry(name string, f func(req *protocol.Request, a, b string)) entry {
	return entry{name: name, inStartLine: true, run: func(a, b string) []byte {
		r := newReq()
		f(r, a, b)
		r.Header.Set("X-After", "2")
		var buf bytes.Buffer
		w := network.NewWriter(&buf)
		if err := reqI.ProxyWrite(r, w); err != nil {
			return []byte("WRITE-ERROR: " + err.Error())
		}
		w.Flush() //nolint:errcheck
		return buf.Bytes()
	}}
}
func respEntry(name string, usesName bool, f func(resp *protocol.Response, a, b string)) entry {
	return entry{name: name, usesName: usesName, run: func(a, b string) []byte { r := newResp(); f(r, a, b); return finishResp(r) }}
}
func ctxEntry(name string, usesName bool, f func(ctx *app.RequestContext, a, b string)) entry {
	return entry{name: name, usesName: usesName, run: func(a, b string) []byte { c := newCtx(); f(c, a, b); return finishCtx(c) }}
}

func entries() []entry {
	return []entry{
		// ---- RequestHeader
		reqEntry("RequestHeader.Set", true, func(r *protocol.Request, a, b string) { r.Header.Set(a, b) }),
		reqEntry("RequestHeader.Add", true, func(r *protocol.Request, a, b string) { r.Header.Add(a, b) }),
		reqEntry("RequestHeader.SetBytesKV", true, func(r *protocol.Request, a, b string) { r.Header.SetBytesKV([]byte(a), []byte(b)) }),
		reqEntry("RequestHeader.SetCanonical", true, func(r *protocol.Request, a, b string) { r.Header.SetCanonical([]byte(a), []byte(b)) }),
		reqEntry("RequestHeader.SetArgBytes", true, func(r *protocol.Request, a, b string) {
			r.Header.SetArgBytes([]byte(a), []byte(b), protocol.ArgsHasValue)
		}),
		reqEntry("RequestHeader.AddArgBytes", true, func(r *protocol.Request, a, b string) {
			r.Header.AddArgBytes([]byte(a), []byte(b), protocol.ArgsHasValue)
		}),
		reqEntry("RequestHeader.SetCookie", false, func(r *protocol.Request, a, b string) { r.Header.SetCookie(a, b) }),
		reqEntry("RequestHeader.SetCookie-twice", false, func(r *protocol.Request, a, b string) { r.Header.SetCookie("first", "1"); r.Header.SetCookie(a, b) }),
		reqEntry("RequestHeader.Set(Cookie)", false, func(r *protocol.Request, a, b string) { r.Header.Set("Cookie", a+"="+b) }),
		reqEntry("RequestHeader.SetHost", false, func(r *protocol.Request, a, b string) { r.Header.SetHost(b) }),
		reqEntry("RequestHeader.SetHostBytes", false, func(r *protocol.Request, a, b string) { r.Header.SetHostBytes([]byte(b)) }),
		reqEntry("RequestHeader.SetUserAgentBytes", false, func(r *protocol.Request, a, b string) { r.Header.SetUserAgentBytes([]byte(b)) }),
		reqEntry("RequestHeader.SetContentTypeBytes", false, func(r *protocol.Request, a, b string) { r.Header.SetContentTypeBytes([]byte(b)) }),
		reqEntry("RequestHeader.SetMultipartFormBoundary", false, func(r *protocol.Request, a, b string) { r.Header.SetMultipartFormBoundary(b) }),
		reqEntry("RequestHeader.Set(Content-Type)", false, func(r *protocol.Request, a, b string) { r.Header.Set("Content-Type", b) }),
		reqEntry("RequestHeader.Set(Host)", false, func(r *protocol.Request, a, b string) { r.Header.Set("Host", b) }),
		reqEntry("RequestHeader.Set(User-Agent)", false, func(r *protocol.Request, a, b string) { r.Header.Set("User-Agent", b) }),
		reqEntry("RequestHeader.Set(Trailer)", false, func(r *protocol.Request, a, b string) { r.Header.Set("Trailer", b) }),
		reqEntry("RequestHeader.Trailer.Set", true, func(r *protocol.Request, a, b string) { r.Header.Trailer().Set(a, b) }), //nolint:errcheck
		reqEntry("RequestHeader.Trailer.Add", true, func(r *protocol.Request, a, b string) { r.Header.Trailer().Add(a, b) }), //nolint:errcheck
		// ---- the start line: method, and the host that a proxied request (absolute-form target) or a
		// CONNECT request carries in its target
		proxyEntry("Request.SetHost-after-URI-parsed+ProxyWrite", func(r *protocol.Request, a, b string) { r.URI(); r.SetHost(b) }),
		proxyEntry("Request.URI().SetHost+ProxyWrite", func(r *protocol.Request, a, b string) { r.URI().SetHost(b) }),
		proxyEntry("RequestHeader.SetHost+ProxyWrite", func(r *protocol.Request, a, b string) { r.Header.SetHost(b) }),
		reqEntry("Request.SetHost-after-URI-parsed", false, func(r *protocol.Request, a, b string) { r.URI(); r.SetHost(b) }),
		startLine(reqEntry("Request.SetHost+CONNECT", false, func(r *protocol.Request, a, b string) { r.Header.SetMethod("CONNECT"); r.URI(); r.SetHost(b) })),
		startLine(reqEntry("RequestHeader.SetRequestURI", false, func(r *protocol.Request, a, b string) { r.Header.SetRequestURI("/" + b) })),
		reqEntry("RequestHeader.SetContentLengthBytes", false, func(r *protocol.Request, a, b string) { r.Header.SetContentLengthBytes([]byte(b)) }),
		startLine(reqEntry("RequestHeader.SetMethod", false, func(r *protocol.Request, a, b string) { r.Header.SetMethod(b) })),
		// ---- Request
		reqEntry("Request.SetHeader", true, func(r *protocol.Request, a, b string) { r.SetHeader(a, b) }),
		reqEntry("Request.SetHeaders", true, func(r *protocol.Request, a, b string) { r.SetHeaders(map[string]string{a: b}) }),
		reqEntry("Request.SetCookie", false, func(r *protocol.Request, a, b string) { r.SetCookie(a, b) }),
		reqEntry("Request.SetCookies", false, func(r *protocol.Request, a, b string) { r.SetCookies(map[string]string{a: b}) }),
		reqEntry("Request.SetAuthToken", false, func(r *protocol.Request, a, b string) { r.SetAuthToken(b) }),
		reqEntry("Request.SetAuthSchemeToken", false, func(r *protocol.Request, a, b string) { r.SetAuthSchemeToken(a, b) }),
		reqEntry("Request.SetBasicAuth", false, func(r *protocol.Request, a, b string) { r.SetBasicAuth(a, b) }),
		reqEntry("Request.SetHost", false, func(r *protocol.Request, a, b string) { r.SetHost(b) }),
		// ---- ResponseHeader
		respEntry("ResponseHeader.Set", true, func(r *protocol.Response, a, b string) { r.Header.Set(a, b) }),
		respEntry("ResponseHeader.Add", true, func(r *protocol.Response, a, b string) { r.Header.Add(a, b) }),
		respEntry("ResponseHeader.SetBytesV", true, func(r *protocol.Response, a, b string) { r.Header.SetBytesV(a, []byte(b)) }),
		respEntry("ResponseHeader.SetCanonical", true, func(r *protocol.Response, a, b string) { r.Header.SetCanonical([]byte(a), []byte(b)) }),
		respEntry("ResponseHeader.SetArgBytes", true, func(r *protocol.Response, a, b string) {
			r.Header.SetArgBytes([]byte(a), []byte(b), protocol.ArgsHasValue)
		}),
		respEntry("ResponseHeader.AddArgBytes", true, func(r *protocol.Response, a, b string) {
			r.Header.AddArgBytes([]byte(a), []byte(b), protocol.ArgsHasValue)
		}),
		respEntry("ResponseHeader.SetContentType", false, func(r *protocol.Response, a, b string) { r.Header.SetContentType(b) }),
		respEntry("ResponseHeader.SetContentTypeBytes", false, func(r *protocol.Response, a, b string) { r.Header.SetContentTypeBytes([]byte(b)) }),
		respEntry("ResponseHeader.SetContentEncoding", false, func(r *protocol.Response, a, b string) { r.Header.SetContentEncoding(b) }),
		respEntry("ResponseHeader.SetContentEncodingBytes", false, func(r *protocol.Response, a, b string) { r.Header.SetContentEncodingBytes([]byte(b)) }),
		// the raw Content-Length setter: its bytes reach the wire when the body does not overwrite them
		respEntry("ResponseHeader.SetContentLengthBytes+SkipBody", false, func(r *protocol.Response, a, b string) { r.Header.SetContentLengthBytes([]byte(b)); r.SkipBody = true }),
		respEntry("ResponseHeader.SetContentLengthBytes+304", false, func(r *protocol.Response, a, b string) {
			r.SetStatusCode(304)
			r.Header.SetContentLengthBytes([]byte(b))
		}),
		{name: "ResponseHeader.SetContentLengthBytes+Header()", run: func(a, b string) []byte {
			r := newResp()
			r.Header.SetContentLengthBytes([]byte(b))
			r.Header.Set("X-After", "2")
			return append(append([]byte(nil), r.Header.Header()...), "BODY-BYTES"...)
		}},
		respEntry("ResponseHeader.SetServerBytes", false, func(r *protocol.Response, a, b string) { r.Header.SetServerBytes([]byte(b)) }),
		respEntry("ResponseHeader.Set(Set-Cookie)", false, func(r *protocol.Response, a, b string) { r.Header.Set("Set-Cookie", a+"="+b) }),
		respEntry("ResponseHeader.Set(Server)", false, func(r *protocol.Response, a, b string) { r.Header.Set("Server", b) }),
		respEntry("ResponseHeader.Set(Trailer)", false, func(r *protocol.Response, a, b string) { r.Header.Set("Trailer", b) }),
		respEntry("ResponseHeader.SetCookie(key,value)", false, func(r *protocol.Response, a, b string) {
			var c protocol.Cookie
			c.SetKey(a)
			c.SetValue(b)
			r.Header.SetCookie(&c)
		}),
		respEntry("ResponseHeader.SetCookie(domain,path)", false, func(r *protocol.Response, a, b string) {
			var c protocol.Cookie
			c.SetKey("k")
			c.SetValue("v")
			c.SetDomain(a)
			c.SetPath(b)
			r.Header.SetCookie(&c)
		}),
		respEntry("ResponseHeader.ParseSetCookie", false, func(r *protocol.Response, a, b string) {
			var c protocol.Cookie
			c.Parse(a + "=" + b) //nolint:errcheck
			r.Header.SetCookie(&c)
		}),
		respEntry("ResponseHeader.Trailer.Set", true, func(r *protocol.Response, a, b string) { r.Header.Trailer().Set(a, b) }), //nolint:errcheck
		respEntry("ResponseHeader.Trailer.Add", true, func(r *protocol.Response, a, b string) { r.Header.Trailer().Add(a, b) }), //nolint:errcheck
		// ---- RequestContext helpers
		ctxEntry("RequestContext.Header", true, func(c *app.RequestContext, a, b string) { c.Header(a, b) }),
		ctxEntry("RequestContext.SetCookie(name,value)", false, func(c *app.RequestContext, a, b string) {
			c.SetCookie(a, b, 10, "/", "example.com", protocol.CookieSameSiteLaxMode, true, true)
		}),
		ctxEntry("RequestContext.SetCookie(path,domain)", false, func(c *app.RequestContext, a, b string) {
			c.SetCookie("k", "v", 10, a, b, protocol.CookieSameSiteLaxMode, true, true)
		}),
		ctxEntry("RequestContext.SetPartitionedCookie", false, func(c *app.RequestContext, a, b string) {
			c.SetPartitionedCookie(a, b, 10, b, a, protocol.CookieSameSiteNoneMode, true, true)
		}),
		ctxEntry("RequestContext.Redirect", false, func(c *app.RequestContext, a, b string) {
			c.Request.SetRequestURI("http://example.com/from")
			c.Redirect(302, []byte(b))
		}),
		ctxEntry("RequestContext.Redirect(relative)", false, func(c *app.RequestContext, a, b string) {
			c.Request.SetRequestURI("http://example.com/dir/from")
			c.Redirect(301, []byte("/to/"+b))
		}),
		ctxEntry("RequestContext.SetContentType", false, func(c *app.RequestContext, a, b string) { c.SetContentType(b) }),
		ctxEntry("RequestContext.SetContentTypeBytes", false, func(c *app.RequestContext, a, b string) { c.SetContentTypeBytes([]byte(b)) }),
	}
}

// the trailer section of a chunked message is a header block too
func trailerEntries() []entry {
	return []entry{
		{name: "RequestHeader.Trailer.Header", usesName: true, run: func(a, b string) []byte {
			var h protocol.RequestHeader
			h.Trailer().Set("X-Before", "1") //nolint:errcheck
			h.Trailer().Set(a, b)            //nolint:errcheck
			h.Trailer().Set("X-After", "2")  //nolint:errcheck
			return append([]byte("TRAILER-SECTION\r\n"), append(h.Trailer().Header(), "BODY-BYTES"...)...)
		}},
		{name: "ResponseHeader.Trailer.Header", usesName: true, run: func(a, b string) []byte {
			var h protocol.ResponseHeader
			h.Trailer().Set("X-Before", "1") //nolint:errcheck
			h.Trailer().Add(a, b)            //nolint:errcheck
			h.Trailer().Set("X-After", "2")  //nolint:errcheck
			return append([]byte("TRAILER-SECTION\r\n"), append(h.Trailer().Header(), "BODY-BYTES"...)...)
		}},
	}
}

func isTchar(c byte) bool {
	switch {
	case 'a' <= c && c <= 'z', 'A' <= c && c <= 'Z', '0' <= c && c <= '9':
		return true
	}
	return strings.IndexByte("!#$%&'*+-.^_`|~", c) >= 0
}

func isToken(s string) bool {
	if s == "" {
		return false
	}
	for i := 0; i < len(s); i++ {
		if !isTchar(s[i]) {
			return false
		}
	}
	return true
}

// twin replaces every byte that is hostile in its slot by 'x'.
func twinName(a string) string {
	b := []byte(a)
	for i, c := range b {
		if !isTchar(c) {
			b[i] = 'x'
		}
	}
	return string(b)
}

func twinValue(v string) string {
	b := []byte(v)
	for i, c := range b {
		if c == '\r' || c == '\n' || c == 0 {
			b[i] = 'x'
		}
	}
	return string(b)
}

type parsed struct {
	start string
	lines []string
	body  string
	err   string
}

// strictLines splits a serialised message the way a strict parser does.
func strictLines(msg []byte) parsed {
	var p parsed
	i := bytes.Index(msg, []byte("\r\n\r\n"))
	if i < 0 {
		p.err = "no header terminator"
		return p
	}
	head := string(msg[:i])
	p.body = string(msg[i+4:])
	parts := strings.Split(head, "\r\n")
	p.start = parts[0]
	for k, l := range parts {
		if strings.ContainsAny(l, "\r\n") {
			p.err = fmt.Sprintf("line %d contains a bare CR or LF: %q", k, l)
			return p
		}
		if k == 0 {
			continue
		}
		c := strings.IndexByte(l, ':')
		if c <= 0 || !isToken(l[:c]) {
			p.err = fmt.Sprintf("line %d is not 'token: value': %q", k, l)
			return p
		}
		p.lines = append(p.lines, l)
	}
	return p
}

func runEntry(e entry, a, b string) (out []byte, pan string) {
	defer func() {
		if r := recover(); r != nil {
			pan = fmt.Sprintf("%v\n%s", r, debug.Stack())
		}
	}()
	return e.run(a, b), ""
}

// check returns (class, violation).
func check(e entry, a, b string) (string, string) {
	hostile, pan := runEntry(e, a, b)
	if pan != "" {
		return "panicked", "" // C03 owns panics; no message was produced
	}
	ta, tb := twinName(a), twinValue(b)
	if !e.usesName {
		ta = twinValue(a)
	} else if a == "" {
		ta = "x" // the empty string is not a field name either: the field may be dropped like one with an invalid name
	}
	twin, pan2 := runEntry(e, ta, tb)
	if pan2 != "" {
		return "twin-panicked", ""
	}
	if bytes.HasPrefix(hostile, []byte("WRITE-ERROR")) {
		return "write-refused", ""
	}
	h := strictLines(hostile)
	tw := strictLines(twin)
	if tw.err != "" {
		return "twin-unparseable:" + e.name, ""
	}
	id := fmt.Sprintf("%s(a=%q, b=%q)", e.name, a, b)
	if h.err != "" {
		return "violation", fmt.Sprintf("%s: serialised message is not a clean header block: %s\nmessage: %q", id, h.err, hostile)
	}
	if h.start != tw.start && !e.inStartLine {
		return "violation", fmt.Sprintf("%s: start line changed: %q vs benign twin %q", id, h.start, tw.start)
	}
	if h.body != tw.body {
		return "violation", fmt.Sprintf("%s: the header block ends at a different place: body %q, benign twin body %q\nmessage: %q", id, h.body, tw.body, hostile)
	}
	min := len(tw.lines)
	if e.usesName && a != ta {
		min-- // a field with an invalid name may be dropped
	}
	if len(h.lines) > len(tw.lines) || len(h.lines) < min {
		return "violation", fmt.Sprintf("%s: a strict parser finds %d header fields, the benign twin (a=%q, b=%q) has %d\nmessage: %q\ntwin:    %q", id, len(h.lines), ta, tb, len(tw.lines), hostile, twin)
	}
	if len(h.lines) < len(tw.lines) {
		return "field-dropped", ""
	}
	return "neutralised", ""
}

var symbols = []string{"\r", "\n", "\x00", ":", " ", "a", ";", "="}

func nth(n, idx int) string {
	var sb strings.Builder
	for i := 0; i < n; i++ {
		sb.WriteString(symbols[idx%len(symbols)])
		idx /= len(symbols)
	}
	return sb.String()
}

func pow(b, e int) int {
	r := 1
	for i := 0; i < e; i++ {
		r *= b
	}
	return r
}

func allStrings(maxLen int) []string {
	var out []string
	for n := 0; n <= maxLen; n++ {
		for i := 0; i < pow(len(symbols), n); i++ {
			out = append(out, nth(n, i))
		}
	}
	return out
}

var templates = []string{"X-Inj%s", "v%sX-Inj: 1", "%s", "v%s", "%sInjected: 1", "v%s%sX-Inj: 1%s%sBODY"}

func TestC05Exhaustive(t *testing.T) {
	rec := ev.New("exhaustive")
	shard, nshards := ev.Shard()
	all := append(entries(), trailerEntries()...)
	aMax, bMax := 1, 3
	if ev.Thorough() {
		aMax, bMax = 2, 4
	}
	as := allStrings(aMax)
	bs := allStrings(bMax)
	// plus classic payloads
	for _, sep := range []string{"\r\n", "\n", "\r", "\r\n\r\n", "\n\n", "\x00", "\r\n ", "\r\n\t"} {
		bs = append(bs, "v"+sep+"X-Inj: 1", "v"+sep+sep+"BODY", sep+"X-Inj: 1", "v"+sep)
		as = append(as, "X-A"+sep+"X-Inj", "X-A"+sep, sep+"X-A", "X-A: v"+sep+"X-Inj")
	}
	var global, evals, nontriv int64
	classes := map[string]int64{}
	fails := 0
	for ei, e := range all {
		for _, a := range as {
			base := a
			if e.usesName && a == "" {
				base = "X-Empty-Name-Base"
			}
			_ = base
			for _, b := range bs {
				global++
				if global%int64(nshards) != int64(shard) {
					continue
				}
				// name slot: prefix a benign token so that the empty / separator-only names are also tried as suffixes
				for _, av := range []string{a, "X-N" + a} {
					evals++
					if strings.ContainsAny(av+b, "\r\n") || strings.ContainsAny(av, ":\x00 ") {
						nontriv++
					}
					cls, msg := check(e, av, b)
					classes[cls]++
					if msg != "" {
						fails++
						ev.Fail(prop, "exhaustive", map[string]string{"entry": e.name, "a": av, "b": b}, msg)
						t.Errorf("%s", msg)
						if fails > 8 {
							rec.Exact(evals, nontriv)
							return
						}
						break
					}
				}
			}
		}
		_ = ei
	}
	rec.Exact(evals, nontriv)
	for k, v := range classes {
		rec.Class("outcome-"+k, v)
	}
	rec.Sample(map[string]interface{}{"entry": "RequestHeader.Set", "a": "X-N\r\n", "b": "v\r\nX-Inj: 1"})
	rec.Exhaustive(fmt.Sprintf("%d header-writing entry points x name inputs (all strings of <=%d symbols over {CR,LF,NUL,':',SP,'a',';','='}, alone and after a benign token, + classic payloads) x value inputs (all strings of <=%d symbols + classic payloads)", len(all), aMax, bMax))
}

var hostileAlphabet = []byte{'\r', '\n', 0, ' ', '\t', ':', ';', ',', '=', '&', '%', '+', '/', '.', '\\', '"', '-', '0', '9', 'a', 'Z', 0x7f, 0x80, 0xff}

func genHostile(t *rapid.T, label string) string {
	n := rapid.IntRange(0, 24).Draw(t, label+"Len")
	b := make([]byte, n)
	for i := range b {
		b[i] = rapid.SampledFrom(hostileAlphabet).Draw(t, label)
	}
	return string(b)
}

func TestC05Random(t *testing.T) {
	rec := ev.New("random")
	all := append(entries(), trailerEntries()...)
	rapid.Check(t, func(t *rapid.T) {
		e := all[rapid.IntRange(0, len(all)-1).Draw(t, "entry")]
		a := genHostile(t, "a")
		if rapid.Bool().Draw(t, "tokenPrefix") {
			a = "X-N" + a
		}
		b := genHostile(t, "b")
		cls, msg := check(e, a, b)
		rec.Case(strings.ContainsAny(a+b, "\r\n"), ev.HashString(e.name, a, b), "outcome-"+cls, "entry-"+e.name)
		if msg != "" {
			t.Fatalf("%s", msg)
		}
		if rec.WantSample() && strings.ContainsAny(b, "\r\n") {
			rec.Sample(map[string]string{"entry": e.name, "a": a, "b": b, "outcome": cls})
		}
	})
}

// ---------------------------------------------------------------------------
// Self-test: every exported setter with string/[]byte parameters on the header
// types is either in the table or on the explicit not-a-header list.

var covered = map[string]bool{}

func init() {
	for _, n := range []string{
		"RequestHeader.Set", "RequestHeader.Add", "RequestHeader.SetBytesKV", "RequestHeader.SetCanonical", "RequestHeader.SetArgBytes", "RequestHeader.AddArgBytes", "RequestHeader.SetCookie",
		"RequestHeader.SetHost", "RequestHeader.SetHostBytes", "RequestHeader.SetUserAgentBytes", "RequestHeader.SetContentTypeBytes", "RequestHeader.SetMultipartFormBoundary",
		"ResponseHeader.Set", "ResponseHeader.Add", "ResponseHeader.SetBytesV", "ResponseHeader.SetCanonical", "ResponseHeader.SetArgBytes", "ResponseHeader.AddArgBytes", "ResponseHeader.SetContentType",
		"ResponseHeader.SetContentTypeBytes", "ResponseHeader.SetContentEncoding", "ResponseHeader.SetContentEncodingBytes", "ResponseHeader.SetServerBytes", "ResponseHeader.SetCookie",
		"Trailer.Set", "Trailer.Add",
		// numeric / benign-by-construction or outside the statement's list (start line, protocol)
		"RequestHeader.SetContentLengthBytes", "ResponseHeader.SetContentLengthBytes", "RequestHeader.SetMethod", "RequestHeader.SetMethodBytes", "RequestHeader.SetRequestURI", "RequestHeader.SetRequestURIBytes",
		"RequestHeader.SetProtocol", "ResponseHeader.SetProtocol", "RequestHeader.SetRawHeaders", "Trailer.SetTrailers", "Trailer.AddTrailers", "Trailer.UpdateArgBytes",
	} {
		covered[n] = true
	}
}

func TestC05SelfTest(t *testing.T) {
	types := map[string]reflect.Type{
		"RequestHeader":  reflect.TypeOf(&protocol.RequestHeader{}),
		"ResponseHeader": reflect.TypeOf(&protocol.ResponseHeader{}),
		"Trailer":        reflect.TypeOf(&protocol.Trailer{}),
	}
	var missing []string
	for tn, ty := range types {
		for i := 0; i < ty.NumMethod(); i++ {
			m := ty.Method(i)
			if !strings.HasPrefix(m.Name, "Set") && !strings.HasPrefix(m.Name, "Add") && !strings.HasPrefix(m.Name, "Update") {
				continue
			}
			textual := false
			for k := 1; k < m.Type.NumIn(); k++ {
				in := m.Type.In(k)
				if in.Kind() == reflect.String || (in.Kind() == reflect.Slice && in.Elem().Kind() == reflect.Uint8) || in == reflect.TypeOf(&protocol.Cookie{}) {
					textual = true
				}
			}
			if textual && !covered[tn+"."+m.Name] {
				missing = append(missing, tn+"."+m.Name)
			}
		}
	}
	sort.Strings(missing)
	if len(missing) > 0 {
		fmt.Printf("VERIF-INCONCLUSIVE: header-writing setters not covered by the C05 entry table: %v\n", missing)
		t.Fatalf("uncovered setters: %v", missing)
	}
}
