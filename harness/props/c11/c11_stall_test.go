package c11

import (
	"context"
	"fmt"
	"net"
	"strings"
	"testing"
	"time"

	"github.com/cloudwego/hertz/pkg/app/client"
	"github.com/cloudwego/hertz/pkg/protocol"

	"verifharness/ev"
)

// servePeer accepts connections on a loopback listener and hands each to script.
func servePeer(t *testing.T, script func(c net.Conn)) (addr string, stop func()) {
	ln, err := net.Listen("tcp", "127.0.0.1:0")
	if err != nil {
		t.Fatalf("harness: listen: %v", err)
	}
	go func() {
		for {
			c, err := ln.Accept()
			if err != nil {
				return
			}
			go func() { defer c.Close(); script(c) }()
		}
	}()
	return ln.Addr().String(), func() { ln.Close() }
}

func readRequestHead(c net.Conn) {
	buf := make([]byte, 0, 4096)
	tmp := make([]byte, 1024)
	for !strings.Contains(string(buf), "\r\n\r\n") {
		n, err := c.Read(tmp)
		if err != nil {
			return
		}
		buf = append(buf, tmp[:n]...)
	}
}

// TestC11BodyOrError: the caller gets the whole response body or an error, under every framing, when the
// peer stalls inside the body for longer than the client's read timeout, or cuts it; and it gets the same
// answer every time it asks (a second Body()/BodyE() on a response whose stream failed does not hand out
// the part that had arrived). The verdict never rests on a measured time: a partial body returned without
// an error is wrong however long anything took.
func TestC11BodyOrError(t *testing.T) {
	rec := ev.New("body-or-error")
	full := "first half," + strings.Repeat("x", 20000) + ",second half"
	half := len(full) / 2
	for _, framing := range []string{"until-close", "content-length", "chunked"} {
		for _, fault := range []string{"stall", "cut"} {
			for _, streaming := range []bool{false, true} {
				name := fmt.Sprintf("%s/%s/streaming=%v", framing, fault, streaming)
				addr, stop := servePeer(t, func(c net.Conn) {
					readRequestHead(c)
					switch framing {
					case "until-close":
						fmt.Fprintf(c, "HTTP/1.1 200 OK\r\nConnection: close\r\n\r\n%s", full[:half])
					case "content-length":
						fmt.Fprintf(c, "HTTP/1.1 200 OK\r\nContent-Length: %d\r\n\r\n%s", len(full), full[:half])
					case "chunked":
						fmt.Fprintf(c, "HTTP/1.1 200 OK\r\nTransfer-Encoding: chunked\r\n\r\n%x\r\n%s", len(full), full[:half])
					}
					if fault == "cut" {
						if framing == "until-close" {
							// a cut cannot be told from the end of such a body: send it whole (control case)
							fmt.Fprint(c, full[half:])
						}
						return
					}
					time.Sleep(1200 * time.Millisecond) // the client's read timeout is 150 ms
					fmt.Fprint(c, full[half:])
					if framing == "chunked" {
						fmt.Fprint(c, "\r\n0\r\n\r\n")
					}
				})
				cl, err := client.NewClient(client.WithClientReadTimeout(150*time.Millisecond), client.WithResponseBodyStream(streaming))
				if err != nil {
					t.Fatalf("harness: %v", err)
				}
				req, resp := protocol.AcquireRequest(), protocol.AcquireResponse()
				req.SetRequestURI("http://" + addr + "/x")
				err = cl.Do(context.Background(), req, resp)
				rec.Case(true, ev.HashString(name), "framing-"+framing, "fault-"+fault)
				var b1, b2 []byte
				var e1, e2 error
				if err == nil {
					b1, e1 = resp.BodyE()
					b2, e2 = resp.BodyE()
				}
				bad := ""
				wholeExpected := fault == "cut" && framing == "until-close"
				switch {
				case err != nil:
					if wholeExpected {
						bad = fmt.Sprintf("Do returned %v for a complete read-until-close response", err)
					}
				case e1 == nil && string(b1) != full:
					bad = fmt.Sprintf("Do returned nil and the body is %d of %d bytes without an error: a part of the body was handed out as the body", len(b1), len(full))
				case e1 != nil && e2 == nil:
					bad = fmt.Sprintf("the first BodyE() returned %v, the second one %d bytes and no error (the whole body has %d)", e1, len(b2), len(full))
				case e1 == nil && (e2 != nil || string(b2) != full):
					bad = fmt.Sprintf("the first BodyE() returned the body, the second one %d bytes, err=%v", len(b2), e2)
				}
				protocol.ReleaseRequest(req)
				protocol.ReleaseResponse(resp)
				// the URL helpers (Get / Post ...) read the body for the caller: the same rule
				if bad == "" {
					_, hb, herr := cl.Get(context.Background(), nil, "http://"+addr+"/x")
					if herr == nil && string(hb) != full {
						bad = fmt.Sprintf("client.Get returned nil and a body of %d of %d bytes", len(hb), len(full))
					}
				}
				stop()
				if bad != "" {
					ev.Fail(prop, "body-or-error", map[string]interface{}{"case": name}, name+": "+bad)
					t.Errorf("%s: %s", name, bad)
				}
			}
		}
	}
}

// TestC11CallerConnectionHeader: MaxConnDuration makes the client announce Connection: close on a request it
// sends over a connection that is older than the limit. That is the client's addition for one attempt: the
// Connection field the caller set itself (here "TE", with "TE: trailers") still reaches the server on that
// request, and the caller's Request object holds it after Do has returned.
func TestC11CallerConnectionHeader(t *testing.T) {
	rec := ev.New("caller-connection-header")
	var got []string
	done := make(chan struct{}, 16)
	addr, stop := servePeer(t, func(c net.Conn) {
		for {
			buf := make([]byte, 0, 4096)
			tmp := make([]byte, 1024)
			for !strings.Contains(string(buf), "\r\n\r\n") {
				n, err := c.Read(tmp)
				if err != nil {
					return
				}
				buf = append(buf, tmp[:n]...)
			}
			got = append(got, string(buf))
			fmt.Fprint(c, "HTTP/1.1 200 OK\r\nContent-Length: 2\r\n\r\nok")
			done <- struct{}{}
			if strings.Contains(strings.ToLower(string(buf)), "connection: close") {
				return
			}
		}
	})
	defer stop()
	cl, err := client.NewClient(client.WithMaxConnDuration(30 * time.Millisecond))
	if err != nil {
		t.Fatalf("harness: %v", err)
	}
	req, resp := protocol.AcquireRequest(), protocol.AcquireResponse()
	for i := 0; i < 3; i++ {
		req.Reset()
		resp.Reset()
		req.SetRequestURI("http://" + addr + "/x")
		req.Header.Set("Connection", "TE")
		req.Header.Set("TE", "trailers")
		if err := cl.Do(context.Background(), req, resp); err != nil {
			t.Fatalf("harness: exchange %d: %v", i, err)
		}
		<-done
		rec.Case(true, ev.HashString(fmt.Sprint(i)), "exchange-on-an-old-connection")
		after := string(req.Header.Peek("Connection"))
		wire := strings.ToLower(got[len(got)-1])
		bad := ""
		if !strings.Contains(wire, "connection: te") && !strings.Contains(wire, "te, close") && !strings.Contains(wire, "close, te") {
			bad = fmt.Sprintf("exchange %d: the request on the wire has lost the caller's Connection: TE: %q", i, got[len(got)-1])
		} else if after != "TE" && !strings.Contains(strings.ToLower(after), "te") {
			bad = fmt.Sprintf("exchange %d: after Do the caller's Request has Connection = %q (set: \"TE\")", i, after)
		}
		if bad != "" {
			ev.Fail(prop, "caller-connection-header", map[string]interface{}{"exchange": i}, bad)
			t.Errorf("%s", bad)
		}
		time.Sleep(60 * time.Millisecond) // older than MaxConnDuration for the next exchange
	}
}
