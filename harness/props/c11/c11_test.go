package c11

import (
	"bufio"
	"bytes"
	"fmt"
	"io"
	"mime"
	"mime/multipart"
	"net"
	"net/http"
	"net/url"
	"os"
	"sort"
	"strings"
	"sync/atomic"
	"testing"
	"time"

	"github.com/cloudwego/hertz/pkg/app/client/retry"
	errs "github.com/cloudwego/hertz/pkg/common/errors"
	"github.com/cloudwego/hertz/pkg/network"
	"github.com/cloudwego/hertz/pkg/protocol"
	"github.com/cloudwego/hertz/pkg/protocol/http1"
	hreq "github.com/cloudwego/hertz/pkg/protocol/http1/req"
	"pgregory.net/rapid"

	"verifharness/cli"
	"verifharness/ev"
	"verifharness/gen"
	"verifharness/sconn"
	"verifharness/srv"
	"verifharness/wire"
)

const prop = "C11"

func TestMain(m *testing.M) {
	code := m.Run()
	ev.Flush()
	os.Exit(code)
}

type KV = wire.KV

// ReqSpec is an abstract client request.
type ReqSpec struct {
	Method   string `json:"method"`
	Host     string `json:"host"`
	Path     string `json:"path"` // decoded path
	Query    []KV   `json:"query"`
	Headers  []KV   `json:"headers"`
	BodyMode string `json:"body_mode"` // none, bytes, stream-known, stream-unknown, form, multipart
	BodyLen  int    `json:"body_len"`
	Form     []KV   `json:"form,omitempty"`
	Files    []KV   `json:"files,omitempty"`       // K = "param|filename", V = content
	Step     int    `json:"reader_step,omitempty"` // bytes returned per Read by the body stream / file readers
	// URLForm varies how the URL string given to SetRequestURI is written: "" as usual; "no-path": the
	// authority is followed directly by "?query" (only for the path "/"); "fragment": "#sec/3?x" is
	// appended (a fragment is never sent); "requery": the query is first set to something else and read,
	// then replaced through SetQueryString
	URLForm string `json:"url_form,omitempty"`
	// HeaderFraming: a second step on the framing of a stream body through the header API. "set-cl": after
	// SetBodyStream(r, -1) the length is declared with Header.Set("Content-Length", n) (a proxy copying upstream
	// headers); "del-cl": after SetBodyStream(r, n) the field is deleted again (hop-by-hop stripping): the body
	// is then one of unknown length
	HeaderFraming string `json:"header_framing,omitempty"`
	// Dirty: the Request object carried another request before (POST with a body, written once), then ResetBody
	// and the setters of this request: the usual way to reuse one object for several calls
	Dirty bool `json:"request_object_reused,omitempty"`
	body  []byte
}

type Config struct {
	Stream        bool `json:"response_body_stream"`
	MaxRespBody   int  `json:"max_response_body_size"`
	NoNormHeaders bool `json:"disable_header_names_normalizing"`
	NoNormPath    bool `json:"disable_path_normalizing"`
	Proxy         bool `json:"via_proxy"`
	ReuseResp     bool `json:"one_response_object_for_all_exchanges"`
	// CustomRetry: the client has a retry policy of its own (3 attempts, RetryIf "any error"); what cannot be sent
	// twice intact (a body stream, multipart parts given as readers) must not be sent twice
	CustomRetry bool `json:"custom_retry_if,omitempty"`
}

type pieceReader struct {
	data []byte
	step int
}

func (p *pieceReader) Read(b []byte) (int, error) {
	if len(p.data) == 0 {
		return 0, io.EOF
	}
	n := p.step
	if n > len(b) {
		n = len(b)
	}
	if n > len(p.data) {
		n = len(p.data)
	}
	copy(b, p.data[:n])
	p.data = p.data[n:]
	return n, nil
}

func genReq(t *rapid.T, idx int) *ReqSpec {
	r := &ReqSpec{Host: rapid.SampledFrom([]string{"example.com", "example.com:8080", "127.0.0.1:9000"}).Draw(t, "host")}
	r.Method = rapid.SampledFrom([]string{"GET", "POST", "POST", "PUT", "HEAD", "DELETE", "PATCH"}).Draw(t, "method")
	segs := rapid.IntRange(0, 3).Draw(t, "nSegs")
	r.Path = ""
	for i := 0; i < segs; i++ {
		r.Path += "/" + rapid.SampledFrom([]string{"a", "users", "x y", "é", "a+b", "a;b", "p=q", "100%", "~t", "a@b", "a:b"}).Draw(t, "seg")
	}
	if r.Path == "" || rapid.IntRange(0, 4).Draw(t, "trailingSlash") == 0 {
		r.Path += "/"
	}
	for i := 0; i < rapid.IntRange(0, 3).Draw(t, "nQuery"); i++ {
		r.Query = append(r.Query, KV{K: rapid.SampledFrom([]string{"q", "a b", "k&", "x=", "é"}).Draw(t, "qk") + fmt.Sprint(i), V: rapid.SampledFrom([]string{"", "1", "a b", "x&y=z", "%41", "é", "+"}).Draw(t, "qv")})
	}
	r.URLForm = rapid.SampledFrom([]string{"", "", "", "no-path", "fragment", "no-path+fragment", "requery"}).Draw(t, "urlForm")
	if strings.Contains(r.URLForm, "no-path") {
		r.Path = "/"
		if rapid.Bool().Draw(t, "slashInQuery") {
			r.Query = append([]KV{{K: "next", V: "/home/x"}}, r.Query...)
		}
	}
	for i := 0; i < rapid.IntRange(0, 5).Draw(t, "nHeaders"); i++ {
		v, _ := gen.HeaderValue(t, false)
		v = strings.Trim(v, " \t")
		if v == "" {
			v = "hv"
		}
		r.Headers = append(r.Headers, KV{K: fmt.Sprintf("X-H%d-%s", i, rapid.SampledFrom([]string{"a", "Mixed", "lower"}).Draw(t, "hn")), V: v})
	}
	if rapid.IntRange(0, 4).Draw(t, "cookie") == 0 {
		r.Headers = append(r.Headers, KV{K: "Cookie", V: "ck=cv; c2=v2"})
	}
	mode := "none"
	if r.Method != "GET" && r.Method != "HEAD" {
		mode = rapid.SampledFrom([]string{"none", "bytes", "bytes", "stream-known", "stream-unknown", "form", "multipart"}).Draw(t, "bodyMode")
	}
	r.BodyMode = mode
	switch mode {
	case "stream-unknown":
		if rapid.IntRange(0, 3).Draw(t, "setContentLengthHeader") == 0 {
			r.HeaderFraming = "set-cl"
		}
	case "stream-known":
		if rapid.IntRange(0, 3).Draw(t, "delContentLengthHeader") == 0 {
			r.HeaderFraming = "del-cl"
		}
	}
	r.Dirty = rapid.IntRange(0, 3).Draw(t, "requestObjectReused") == 0
	// io.Reader bodies deliver their bytes in short reads (an io.Reader may return less than asked)
	r.Step = rapid.SampledFrom([]int{1, 7, 100, 511, 512, 513, 1000, 4096, 1 << 20}).Draw(t, "readerStep")
	switch mode {
	case "bytes", "stream-known", "stream-unknown":
		r.BodyLen = gen.BodyLen(t, "reqBodyLen", false)
		if r.BodyLen > 30000 {
			r.BodyLen = 30000
		}
		r.body = gen.Body(r.BodyLen, idx, byte(rapid.IntRange(0, 255).Draw(t, "salt")), rapid.IntRange(0, 8).Draw(t, "flavor"))
	case "form":
		for i := 0; i < rapid.IntRange(1, 3).Draw(t, "nForm"); i++ {
			r.Form = append(r.Form, KV{K: fmt.Sprintf("f%d", i), V: rapid.SampledFrom([]string{"", "v", "a b", "x&y", "é=1", "%"}).Draw(t, "fv")})
		}
	case "multipart":
		for i := 0; i < rapid.IntRange(0, 2).Draw(t, "nFields"); i++ {
			r.Form = append(r.Form, KV{K: fmt.Sprintf("m%d", i), V: rapid.SampledFrom([]string{"", "v", "line1\r\nline2", "--boundary?"}).Draw(t, "mv")})
		}
		for i := 0; i < rapid.IntRange(0, 2).Draw(t, "nFiles"); i++ {
			n := rapid.SampledFrom([]int{0, 1, 100, 511, 512, 513, 2000, 5000}).Draw(t, "fileLen")
			fname := fmt.Sprintf("name%d.bin", i)
			if rapid.IntRange(0, 3).Draw(t, "hostileFileName") == 0 {
				// a file name is an arbitrary string for the API; in the part header it is a quoted value
				fname = rapid.SampledFrom([]string{`my "final" report.txt`, `back\slash.bin`, `semi;colon.txt`, `quote".txt`}).Draw(t, "fileName")
			}
			r.Files = append(r.Files, KV{K: fmt.Sprintf("file%d|%s", i, fname), V: string(gen.Body(n, i, 9, 1))})
		}
		if len(r.Form) == 0 && len(r.Files) == 0 {
			r.Form = []KV{{K: "m0", V: "v"}}
		}
	}
	return r
}

func (r *ReqSpec) build(cfg *Config, api int) *protocol.Request {
	req := protocol.AcquireRequest()
	if r.Dirty {
		req.Header.SetMethod("POST")
		req.SetRequestURI("http://" + r.Host + "/earlier?x=1") // (the same host: a Request keeps the Host field it was written with)
		req.SetBodyString("hello")
		hreq.Write(req, network.NewWriter(io.Discard)) //nolint:errcheck
		req.ResetBody()
	}
	req.Header.SetMethod(r.Method)
	if api == 0 {
		// full URL through SetRequestURI (escaped form)
		u := url.URL{Scheme: "http", Host: r.Host, Path: r.Path}
		var q []string
		for _, kv := range r.Query {
			if kv.K == "next" {
				q = append(q, "next="+kv.V) // a slash needs no escaping in a query
				continue
			}
			q = append(q, url.QueryEscape(kv.K)+"="+url.QueryEscape(kv.V))
		}
		s := u.String()
		if strings.Contains(r.URLForm, "no-path") {
			s = "http://" + r.Host
		}
		query := strings.Join(q, "&")
		if r.URLForm == "requery" {
			req.SetRequestURI(s + "?stale=1&page=1")
			_ = req.URI().QueryArgs().Peek("page")
			req.URI().SetQueryString(query)
		} else {
			if len(q) > 0 {
				s += "?" + query
			}
			if strings.Contains(r.URLForm, "fragment") {
				s += "#sec/3?x"
			}
			req.SetRequestURI(s)
		}
	} else {
		// through the URI setters
		req.SetRequestURI("http://" + r.Host + "/")
		req.URI().SetPath(r.Path)
		for _, kv := range r.Query {
			req.URI().QueryArgs().Add(kv.K, kv.V)
		}
	}
	if r.Dirty {
		// (client.Client.Do parses the URI of every request to find its host client; with a Host field left by
		// the earlier use HostClient.Do alone would send the raw URL string as the target)
		req.ParseURI()
	}
	for i, h := range r.Headers {
		if i%2 == 0 {
			req.SetHeader(h.K, h.V)
		} else {
			req.Header.Add(h.K, h.V)
		}
	}
	switch r.BodyMode {
	case "bytes":
		req.SetBody(r.body)
	case "stream-known":
		req.SetBodyStream(&pieceReader{data: append([]byte(nil), r.body...), step: r.Step}, len(r.body))
		if r.HeaderFraming == "del-cl" {
			req.Header.Del("Content-Length")
		}
	case "stream-unknown":
		req.SetBodyStream(&pieceReader{data: append([]byte(nil), r.body...), step: r.Step}, -1)
		if r.HeaderFraming == "set-cl" {
			req.Header.Set("Content-Length", fmt.Sprint(len(r.body)))
		}
	case "form":
		m := map[string]string{}
		for _, kv := range r.Form {
			m[kv.K] = kv.V
		}
		req.SetFormData(m)
	case "multipart":
		for _, kv := range r.Form {
			req.SetMultipartField(kv.K, "", "", &pieceReader{data: []byte(kv.V), step: r.Step})
		}
		for _, f := range r.Files {
			pn := strings.SplitN(f.K, "|", 2)
			req.SetFileReader(pn[0], pn[1], &pieceReader{data: []byte(f.V), step: r.Step})
		}
	}
	return req
}

// echo server used as the third decoder
var echo *srv.Echo

func hertzDecode(b []byte) (srv.Obs, string) {
	if echo == nil {
		echo = srv.NewEcho(srv.Config{MaxBody: 8 << 20})
	}
	obs, res, _ := echo.Run([][]byte{b}, sconn.EOF)
	if res.Panic != nil {
		return srv.Obs{}, fmt.Sprintf("hertz server panicked on the client's request: %v", res.Panic)
	}
	if len(obs) != 1 {
		return srv.Obs{}, fmt.Sprintf("hertz server saw %d requests in the bytes of one Do; output %s", len(obs), srv.Short(res.Output))
	}
	return obs[0], ""
}

func sortedKV(kvs []KV) string {
	var s []string
	for _, kv := range kvs {
		s = append(s, kv.K+"="+kv.V)
	}
	sort.Strings(s)
	return strings.Join(s, "&")
}

// checkRequestBytes compares the bytes of one Do with the abstract request under three decoders.
func checkRequestBytes(r *ReqSpec, cfg *Config, b []byte) string {
	// decoder 1: strict reader
	pr, err := wire.ReadRequest(b, 0)
	if err != nil {
		return fmt.Sprintf("strict request reader rejects the client's bytes: %v\nbytes: %s", err, srv.Short(b))
	}
	if pr.End != len(b) {
		return fmt.Sprintf("%d stray bytes after the request", len(b)-pr.End)
	}
	// decoder 2: net/http
	hr, err := http.ReadRequest(bufio.NewReader(bytes.NewReader(b)))
	if err != nil {
		return fmt.Sprintf("net/http.ReadRequest rejects the client's bytes: %v\nbytes: %s", err, srv.Short(b))
	}
	hbody, err := io.ReadAll(hr.Body)
	if err != nil {
		return fmt.Sprintf("net/http cannot read the body: %v", err)
	}
	// decoder 3: hertz server
	ho, msg := hertzDecode(b)
	if msg != "" {
		return msg
	}
	// method
	if pr.Method != r.Method || hr.Method != r.Method || ho.Method != r.Method {
		return fmt.Sprintf("method: strict %q, net/http %q, hertz %q, want %q", pr.Method, hr.Method, ho.Method, r.Method)
	}
	// target
	wantQuery := sortedKV(r.Query)
	hq := hr.URL.Query()
	var gotQ []KV
	for k, vs := range hq {
		for _, v := range vs {
			gotQ = append(gotQ, KV{K: k, V: v})
		}
	}
	if sortedKV(gotQ) != wantQuery {
		return fmt.Sprintf("query decoded by net/http %q, want %q (target %q)", sortedKV(gotQ), wantQuery, pr.Target)
	}
	if hr.URL.Path != r.Path && !(cfg.Proxy && hr.URL.Path == "" && r.Path == "/") { // (an absolute-form target may have an empty path: it means "/")
		return fmt.Sprintf("path decoded by net/http %q, want %q (target %q)", hr.URL.Path, r.Path, pr.Target)
	}
	if cfg.Proxy {
		if !strings.HasPrefix(pr.Target, "http://"+r.Host+"/") && !strings.HasPrefix(pr.Target, "http://"+r.Host+"?") && pr.Target != "http://"+r.Host {
			return fmt.Sprintf("proxy form: target %q is not absolute-form for host %q", pr.Target, r.Host)
		}
	} else if !strings.HasPrefix(pr.Target, "/") {
		return fmt.Sprintf("target %q is not origin-form", pr.Target)
	}
	if strings.Contains(pr.Target, "#") {
		return fmt.Sprintf("the request target %q carries the URL's fragment", pr.Target)
	}
	if ho.URI != pr.Target {
		return fmt.Sprintf("hertz server saw target %q, strict reader %q", ho.URI, pr.Target)
	}
	// Host
	if hs := wire.Get(pr.Headers, "Host"); len(hs) != 1 || hs[0] != r.Host {
		return fmt.Sprintf("Host header %q, want %q", hs, r.Host)
	}
	if hr.Host != r.Host {
		return fmt.Sprintf("net/http Host %q, want %q", hr.Host, r.Host)
	}
	// headers the application set
	for _, h := range r.Headers {
		want := strings.Trim(h.V, " \t")
		found := 0
		for _, v := range wire.Get(pr.Headers, h.K) {
			if strings.Trim(v, " \t") == want {
				found++
			}
		}
		foundH := false
		for _, v := range hr.Header.Values(h.K) {
			if strings.Trim(v, " \t") == want {
				foundH = true
			}
		}
		foundZ := false
		for _, kv := range ho.Headers {
			if strings.EqualFold(kv.K, h.K) && strings.Trim(kv.V, " \t") == want {
				foundZ = true
			}
		}
		if found == 0 || !foundH || !foundZ {
			return fmt.Sprintf("header %s: %q set by the application: strict=%v net/http=%v hertz=%v\nbytes: %s", h.K, h.V, found > 0, foundH, foundZ, srv.Short(b))
		}
	}
	// body
	switch r.BodyMode {
	case "none":
		if len(pr.Body) != 0 || len(hbody) != 0 || len(ho.Body) != 0 {
			return fmt.Sprintf("request without body carries %d/%d/%d body bytes", len(pr.Body), len(hbody), len(ho.Body))
		}
	case "bytes", "stream-known", "stream-unknown":
		if !bytes.Equal(pr.Body, r.body) || !bytes.Equal(hbody, r.body) || !bytes.Equal(ho.Body, r.body) {
			return fmt.Sprintf("body (%s, %d bytes): strict reader got %d, net/http %d, hertz %d bytes", r.BodyMode, len(r.body), len(pr.Body), len(hbody), len(ho.Body))
		}
	case "form":
		vals, err := url.ParseQuery(string(hbody))
		if err != nil {
			return fmt.Sprintf("form body %q does not parse: %v", hbody, err)
		}
		var got []KV
		for k, vs := range vals {
			for _, v := range vs {
				got = append(got, KV{K: k, V: v})
			}
		}
		if sortedKV(got) != sortedKV(r.Form) {
			return fmt.Sprintf("form fields decoded %q, want %q (body %q)", sortedKV(got), sortedKV(r.Form), hbody)
		}
		if !bytes.Equal(pr.Body, hbody) {
			return "strict reader and net/http disagree on the form body"
		}
	case "multipart":
		ct := hr.Header.Get("Content-Type")
		mt, params, err := mime.ParseMediaType(ct)
		if err != nil || mt != "multipart/form-data" || params["boundary"] == "" {
			return fmt.Sprintf("multipart request has Content-Type %q", ct)
		}
		mr := multipart.NewReader(bytes.NewReader(hbody), params["boundary"])
		var gotF, gotFiles []KV
		for {
			p, err := mr.NextPart()
			if err == io.EOF {
				break
			}
			if err != nil {
				return fmt.Sprintf("multipart body does not parse: %v", err)
			}
			data, _ := io.ReadAll(p)
			if p.FileName() != "" {
				gotFiles = append(gotFiles, KV{K: p.FormName() + "|" + p.FileName(), V: string(data)})
			} else {
				gotF = append(gotF, KV{K: p.FormName(), V: string(data)})
			}
		}
		if sortedKV(gotF) != sortedKV(r.Form) || sortedKV(gotFiles) != sortedKV(r.Files) {
			return fmt.Sprintf("multipart decoded fields %q files(%d), want %q files(%d)", sortedKV(gotF), len(gotFiles), sortedKV(r.Form), len(r.Files))
		}
		if !bytes.Equal(pr.Body, hbody) {
			return "strict reader and net/http disagree on the multipart body"
		}
	}
	return ""
}

// ---------------------------------------------------------------------------

type exchange struct {
	Req  *ReqSpec   `json:"request"`
	Resp *wire.Resp `json:"response"`
	Cuts []int      `json:"cuts"`
	API  int        `json:"api"`
	// SilentClose: the peer closes the connection after this exchange without having announced it
	// (an idle keep-alive connection timing out on the server). The client finds out when it uses the
	// pooled connection for the next exchange, and sends a request that is safe to repeat once more.
	SilentClose bool `json:"silent_close_after,omitempty"`
	// SkipBody: the caller sets Response.SkipBody before Do (it wants status and header fields only). The body the
	// server sends all the same must not be left on a connection that goes back to the pool: the next exchange gets
	// its own response
	SkipBody bool `json:"caller_sets_skip_body,omitempty"`
}

type Case struct {
	Cfg Config      `json:"config"`
	Ex  []*exchange `json:"exchanges"`
}

func countRequests(b []byte) int {
	n, pos := 0, 0
	for pos < len(b) {
		r, err := wire.ReadRequest(b, pos)
		if err != nil {
			break
		}
		n++
		pos = r.End
	}
	return n
}

var knownD64 int64

func respCloses(r *wire.Resp) bool {
	return r.Framing == wire.FrUntilClose || wire.HasToken(r.Lines, "Connection", "close") || r.Proto == "HTTP/1.0"
}

func checkCase(c *Case) string {
	// connections are scripted at dial time: responses from the current exchange up to the first
	// one that ends the connection. The client may always choose to dial again (being conservative
	// is allowed); reusing a connection after a closing response would hit EOF.
	var conns []*sconn.Reactive
	cur := 0
	opts := http1.ClientOptions{ResponseBodyStream: c.Cfg.Stream, MaxConns: 2, MaxResponseBodySize: c.Cfg.MaxRespBody, DisableHeaderNamesNormalizing: c.Cfg.NoNormHeaders, DisablePathNormalizing: c.Cfg.NoNormPath}
	if c.Cfg.CustomRetry {
		opts.RetryConfig = &retry.Config{MaxAttemptTimes: 3, Delay: time.Millisecond, DelayPolicy: retry.FixedDelayPolicy}
		opts.RetryIfFunc = func(req *protocol.Request, resp *protocol.Response, err error) bool { return err != nil }
	}
	cl := cli.New(opts, func(n int, addr string) (net.Conn, error) {
		var resps [][][]byte
		for i := cur; i < len(c.Ex); i++ {
			b, _ := c.Ex[i].Resp.Encode(nil)
			resps = append(resps, sconn.Split(b, c.Ex[i].Cuts))
			if respCloses(c.Ex[i].Resp) || c.Ex[i].SilentClose {
				break
			}
		}
		rc := sconn.NewReactive(resps, countRequests, sconn.EOF)
		conns = append(conns, rc)
		return rc, nil
	})
	if c.Cfg.Proxy {
		cl.HC.ProxyURI = protocol.ParseURI("http://proxy.example:3128")
	}
	if c.Cfg.ReuseResp {
		cl.Resp = &protocol.Response{}
	}
	defer cl.HC.CloseIdleConnections()
	consumed := map[*sconn.Reactive]int{}
	reused := 0
	for i, ex := range c.Ex {
		cur = i
		dialsBefore := len(conns)
		req := ex.Req.build(&c.Cfg, ex.API)
		cl.SkipNext = ex.SkipBody
		o := cl.Do(req)
		protocol.ReleaseRequest(req)
		id := fmt.Sprintf("exchange #%d (%s %s, body %s/%d; response %d %s body %d)", i, ex.Req.Method, ex.Req.Path, ex.Req.BodyMode, ex.Req.BodyLen, ex.Resp.Status, ex.Resp.Framing, ex.Resp.BodyLen)
		if o.Panic != "" {
			return id + ": client panicked: " + o.Panic
		}
		if len(conns) == dialsBefore {
			reused++
		}
		// find the connection this request went out on
		var mine []byte
		found := 0
		for _, rc := range conns {
			w := rc.Written()
			if len(w) > consumed[rc] {
				mine = w[consumed[rc]:] // (connections are in dial order: the newest one wins)
				consumed[rc] = len(w)
				found++
			}
		}
		staleConn := i > 0 && c.Ex[i-1].SilentClose && !respCloses(c.Ex[i-1].Resp)
		if staleConn && found == 1 && o.Err != "" && len(conns) == dialsBefore {
			continue // a request that is not safe to repeat fails on the dead pooled connection: allowed
		}
		if staleConn && found == 2 && len(conns) == dialsBefore+1 {
			// written on the dead pooled connection, then once more on a new one: what the new
			// connection carries is the request the server gets
			found = 1
		}
		// the client's own retry policy ("any error", 3 attempts) may repeat a request that can be sent again intact;
		// what the newest connection carries is judged. A body stream or multipart readers cannot be sent again.
		repeatable := ex.Req.BodyMode != "stream-known" && ex.Req.BodyMode != "stream-unknown" && ex.Req.BodyMode != "multipart"
		if c.Cfg.CustomRetry && repeatable && found >= 2 && found <= 4 && o.Err != "" { // (a stale pooled connection adds one)
			found = 1
		}
		if found != 1 {
			return fmt.Sprintf("%s: the request was written on %d connections (err=%q)", id, found, o.Err)
		}
		pr, err := wire.ReadRequest(mine, 0)
		if err != nil {
			return fmt.Sprintf("%s: bytes written for this exchange are not one well-formed request: %v\nbytes: %s\nerr=%q", id, err, srv.Short(mine), o.Err)
		}
		if pr.End != len(mine) {
			return fmt.Sprintf("%s: %d bytes written beyond the one request of this Do", id, len(mine)-pr.End)
		}
		// request direction
		if msg := checkRequestBytes(ex.Req, &c.Cfg, mine); msg != "" {
			return id + ": " + msg
		}
		// response direction
		wantBody := ex.Resp.Body
		if wire.Bodiless(ex.Req.Method, ex.Resp.Status) || ex.SkipBody {
			wantBody = nil
		}
		tooLarge := c.Cfg.MaxRespBody > 0 && len(wantBody) > c.Cfg.MaxRespBody
		if tooLarge && !c.Cfg.Stream {
			if o.Err == "" || !strings.Contains(o.Err, errs.ErrBodyTooLarge.Error()) {
				return fmt.Sprintf("%s: body of %d bytes exceeds MaxResponseBodySize %d but Do returned err=%q status=%d", id, len(wantBody), c.Cfg.MaxRespBody, o.Err, o.Status)
			}
			continue // the connection is closed after the error; the next exchange dials again
		}
		if tooLarge && c.Cfg.Stream && o.Err == "" && o.BodyErr == "" {
			// "The client returns ErrBodyTooLarge if this limit is greater than 0 and response body is
			// greater than the limit" (documentation of MaxResponseBodySize). With ResponseBodyStream the
			// limit only sizes the part read ahead and the whole body is delivered: known finding D64.
			if !ev.ReportKnown(prop, "D64") {
				return fmt.Sprintf("%s: body of %d bytes exceeds MaxResponseBodySize %d, yet the streaming client delivered it without any error", id, len(wantBody), c.Cfg.MaxRespBody)
			}
			atomic.AddInt64(&knownD64, 1)
		}
		if o.Err != "" {
			return fmt.Sprintf("%s: Do failed: %s", id, o.Err)
		}
		if o.Status != ex.Resp.Status {
			return fmt.Sprintf("%s: status %d, want %d", id, o.Status, ex.Resp.Status)
		}
		if o.BodyErr != "" {
			return fmt.Sprintf("%s: reading the body failed: %s (got %d of %d bytes)", id, o.BodyErr, len(o.Body), len(wantBody))
		}
		if c.Cfg.Stream && len(o.Body) > len(wantBody) {
			return fmt.Sprintf("%s: body stream delivered %d bytes, the response declares %d", id, len(o.Body), len(wantBody))
		}
		if !bytes.Equal(o.Body, wantBody) {
			d := 0
			for d < len(o.Body) && d < len(wantBody) && o.Body[d] == wantBody[d] {
				d++
			}
			return fmt.Sprintf("%s: body has %d bytes, want %d (first difference at %d)", id, len(o.Body), len(wantBody), d)
		}
		want := wire.NormLoose(ex.Resp.Lines, nil)
		got := wire.NormLoose(o.Headers, nil)
		// hertz reports a default content-type / server only if present on the wire: compare as multisets of what the server sent
		for _, wl := range want {
			found := false
			for _, gl := range got {
				if gl == wl {
					found = true
				}
			}
			if !found {
				return fmt.Sprintf("%s: response header %q not returned by the client; got %q", id, wl, got)
			}
		}
		// ... and nothing the server did not send: every other field line is returned exactly as many
		// times as it was sent (content-type / content-length / server may be synthesised by the client)
		synth := func(l string) bool {
			for _, p := range []string{"content-type:", "content-length:", "server:", "date:"} {
				if strings.HasPrefix(l, p) {
					return true
				}
			}
			return false
		}
		count := func(ls []string, l string) int {
			n := 0
			for _, x := range ls {
				if x == l {
					n++
				}
			}
			return n
		}
		for _, gl := range got {
			if synth(gl) {
				continue
			}
			if cw, cg := count(want, gl), count(got, gl); cw != cg {
				return fmt.Sprintf("%s: the client returned response header %q %d time(s), the server sent it %d time(s); got %q want %q (response delivered with cuts %v)", id, gl, cg, cw, got, want, ex.Cuts)
			}
		}
		if ex.Resp.Framing == wire.FrChunked && !wire.Bodiless(ex.Req.Method, ex.Resp.Status) {
			foldedTr := map[string]bool{}
			for _, kv := range ex.Resp.Trailers {
				if strings.Contains(kv.V, "\r\n") {
					foldedTr[strings.ToLower(kv.K)] = true
				}
			}
			wt := wire.NormLoose(ex.Resp.Trailers, foldedTr)
			gt := wire.NormLoose(o.Trailers, foldedTr)
			if strings.Join(wt, "\n") != strings.Join(gt, "\n") {
				return fmt.Sprintf("%s: trailers %q, want %q", id, gt, wt)
			}
		}
	}
	lastReused = reused
	return ""
}

var lastReused int

func genCase(t *rapid.T) *Case {
	c := &Case{}
	c.Cfg.Stream = rapid.Bool().Draw(t, "stream")
	c.Cfg.CustomRetry = rapid.IntRange(0, 3).Draw(t, "customRetryIf") == 0
	switch rapid.IntRange(0, 4).Draw(t, "maxResp") {
	case 0:
		c.Cfg.MaxRespBody = 100
	case 1:
		c.Cfg.MaxRespBody = 1 << 20
	}
	c.Cfg.NoNormHeaders = rapid.IntRange(0, 4).Draw(t, "noNormHeaders") == 0
	c.Cfg.Proxy = rapid.IntRange(0, 5).Draw(t, "proxy") == 0
	c.Cfg.ReuseResp = rapid.IntRange(0, 2).Draw(t, "reuseResponseObject") == 0
	k := rapid.IntRange(1, 5).Draw(t, "nExchanges")
	for i := 0; i < k; i++ {
		ex := &exchange{Req: genReq(t, i), API: rapid.IntRange(0, 1).Draw(t, "api")}
		ex.Resp = gen.GenResp(t, i, ex.Req.Method, gen.RespOpts{Fold: false, FoldTrailers: true, UntilClose: true, ChunkExt: true, OtherInterim: true, KeepAliveUntilClose: true})
		if ex.Resp.BodyLen > 30000 {
			ex.Resp.Body, ex.Resp.BodyLen = ex.Resp.Body[:30000], 30000
			for j := range ex.Resp.Lines {
				if strings.EqualFold(ex.Resp.Lines[j].K, "Content-Length") && ex.Resp.Framing == wire.FrCL {
					ex.Resp.Lines[j].V = "30000"
				}
			}
		}
		// Set-Cookie and Content-Type are reported by dedicated accessors as well; keep them single-valued
		b, m := ex.Resp.Encode(nil)
		ex.Cuts = gen.Cuts(t, len(b), append([]int{m.HeaderEnd, m.End}, m.ChunkStarts...))
		if len(ex.Cuts) > 64 {
			ex.Cuts = ex.Cuts[:64]
		}
		ex.SilentClose = !respCloses(ex.Resp) && rapid.IntRange(0, 5).Draw(t, "silentCloseAfter") == 0
		ex.SkipBody = ex.Req.Method != "HEAD" && len(ex.Resp.Trailers) == 0 && !c.Cfg.ReuseResp && rapid.IntRange(0, 5).Draw(t, "callerSetsSkipBody") == 0
		c.Ex = append(c.Ex, ex)
	}
	return c
}

func classify(c *Case) (bool, []string) {
	cls := []string{}
	nt := false
	if c.Cfg.Stream {
		cls = append(cls, "client-streaming")
	} else {
		cls = append(cls, "client-buffered")
	}
	for _, ex := range c.Ex {
		if ex.Req.HeaderFraming != "" {
			cls = append(cls, "request-framing-"+ex.Req.HeaderFraming)
		}
		if ex.Req.Dirty {
			cls = append(cls, "request-object-reused")
		}
	}
	if c.Cfg.CustomRetry {
		cls = append(cls, "client-custom-retry")
	}
	if c.Cfg.Proxy {
		cls = append(cls, "via-proxy")
	}
	if c.Cfg.ReuseResp {
		cls = append(cls, "one-response-object-reused")
	}
	for i, ex := range c.Ex {
		cls = append(cls, "req-"+ex.Req.BodyMode, "resp-"+ex.Resp.Framing.String())
		if ex.Req.URLForm != "" {
			cls = append(cls, "url-"+ex.Req.URLForm)
		}
		if i > 0 && c.Ex[i-1].SilentClose {
			cls = append(cls, "sent-on-a-pooled-connection-the-peer-had-closed")
		}
		if strings.HasPrefix(ex.Req.BodyMode, "stream") || ex.Req.BodyMode == "multipart" || ex.Resp.Framing == wire.FrChunked || ex.Resp.Framing == wire.FrUntilClose || i >= 1 || ex.Req.BodyLen >= 4096 || ex.Resp.BodyLen >= 4096 {
			nt = true
		}
		if ex.Resp.Interim100 > 0 {
			cls = append(cls, "interim-100")
		}
	}
	seen := map[string]bool{}
	var out []string
	for _, x := range cls {
		if !seen[x] {
			seen[x] = true
			out = append(out, x)
		}
	}
	return nt, out
}

func TestC11Exchanges(t *testing.T) {
	rec := ev.New("exchanges")
	rapid.Check(t, func(t *rapid.T) {
		c := genCase(t)
		nt, cls := classify(c)
		rec.Case(nt, ev.HashString(fmt.Sprintf("%+v", *c), fmt.Sprintf("%+v", c.Ex)), cls...)
		if msg := checkCase(c); msg != "" {
			t.Fatalf("%s\nconfig: %+v", msg, c.Cfg)
		}
		rec.Class("exchanges-on-a-reused-connection", int64(lastReused))
		if n := atomic.SwapInt64(&knownD64, 0); n > 0 {
			rec.Excluded("D64-limit-not-enforced-on-a-streamed-response", n)
		}
		if nt && rec.WantSample() {
			rec.Sample(c)
		}
	})
}
