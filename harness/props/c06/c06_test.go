package c06

import (
	"context"
	"fmt"
	"net/url"
	"os"
	"sort"
	"strings"
	"sync/atomic"
	"testing"

	"github.com/cloudwego/hertz/pkg/app"
	"github.com/cloudwego/hertz/pkg/app/server"
	"github.com/cloudwego/hertz/pkg/route"
	"pgregory.net/rapid"

	"verifharness/ev"
	_ "verifharness/sconn" // silences hlog
)

const prop = "C06"

func TestMain(m *testing.M) {
	code := m.Run()
	ev.Flush()
	os.Exit(code)
}

// ---------------------------------------------------------------------------
// Reference matcher: uncompressed trie of pattern tokens, depth-first search
// trying static byte, then parameter, then catch-all, with backtracking.

type tok struct {
	kind byte // 's' static byte, 'p' param, 'a' catch-all
	b    byte
	name string
}

func tokenize(p string) []tok {
	var ts []tok
	for i := 0; i < len(p); {
		switch p[i] {
		case ':':
			j := i + 1
			for j < len(p) && p[j] != '/' {
				j++
			}
			ts = append(ts, tok{kind: 'p', name: p[i+1 : j]})
			i = j
		case '*':
			ts = append(ts, tok{kind: 'a', name: p[i+1:]})
			i = len(p)
		default:
			ts = append(ts, tok{kind: 's', b: p[i]})
			i++
		}
	}
	return ts
}

type tnode struct {
	static   map[byte]*tnode
	param    *tnode
	any      *tnode
	terminal int // route index+1, 0 = none
}

type refTrie struct {
	root   *tnode
	routes []string
	names  [][]string
}

func buildRef(routes []string) *refTrie {
	rt := &refTrie{root: &tnode{}, routes: routes}
	for i, p := range routes {
		n := rt.root
		var names []string
		for _, t := range tokenize(p) {
			switch t.kind {
			case 's':
				if n.static == nil {
					n.static = map[byte]*tnode{}
				}
				if n.static[t.b] == nil {
					n.static[t.b] = &tnode{}
				}
				n = n.static[t.b]
			case 'p':
				if n.param == nil {
					n.param = &tnode{}
				}
				n = n.param
				names = append(names, t.name)
			case 'a':
				if n.any == nil {
					n.any = &tnode{}
				}
				n = n.any
				names = append(names, t.name)
			}
		}
		n.terminal = i + 1
		rt.names = append(rt.names, names)
	}
	return rt
}

type refResult struct {
	route      int // index or -1
	values     []string
	backtracks int
	decisions  int // positions where >1 kind of child was available
}

func (rt *refTrie) match(path string, emptyParam bool) refResult {
	res := refResult{route: -1}
	var vals []string
	var dfs func(n *tnode, pos int) bool
	dfs = func(n *tnode, pos int) bool {
		if pos == len(path) && n.terminal > 0 {
			res.route = n.terminal - 1
			res.values = append([]string(nil), vals...)
			return true
		}
		avail := 0
		if pos < len(path) && n.static[path[pos]] != nil {
			avail++
		}
		if n.param != nil && pos < len(path) {
			avail++
		}
		if n.any != nil {
			avail++
		}
		if avail > 1 {
			res.decisions++
		}
		tried := false
		if pos < len(path) {
			if c := n.static[path[pos]]; c != nil {
				tried = true
				if dfs(c, pos+1) {
					return true
				}
			}
		}
		if n.param != nil && pos < len(path) {
			j := strings.IndexByte(path[pos:], '/')
			if j < 0 {
				j = len(path)
			} else {
				j += pos
			}
			if j > pos || emptyParam {
				if tried {
					res.backtracks++
				}
				tried = true
				vals = append(vals, path[pos:j])
				if dfs(n.param, j) {
					return true
				}
				vals = vals[:len(vals)-1]
			}
		}
		if n.any != nil && n.any.terminal > 0 {
			if tried {
				res.backtracks++
			}
			res.route = n.any.terminal - 1
			res.values = append(append([]string(nil), vals...), path[pos:])
			return true
		}
		return false
	}
	dfs(rt.root, 0)
	return res
}

// ---------------------------------------------------------------------------
// The engine under test.

type obs struct {
	route  int
	params string
	full   string
	status int
}

var buildCounter int64

type rig struct {
	eng *route.Engine
	hit int
	ctx *app.RequestContext
}

// build registers routes in the given order; ok=false if registration panics.
func build(routes []string, methods []string, order []int) (r *rig, ok bool) {
	defer func() {
		if recover() != nil {
			r, ok = nil, false
		}
	}()
	var h *server.Hertz
	if rawMode {
		// the router works on the target as it was sent; parameter values are unescaped afterwards
		h = server.New(server.WithUseRawPath(true))
	} else {
		h = server.New()
	}
	r = &rig{eng: h.Engine}
	// 0..5 engine middlewares added by separate Use calls (the handler slice of the root group then
	// has spare capacity for some counts): every route must still run its own handler
	nUse := int(atomic.AddInt64(&buildCounter, 1) % 6)
	for k := 0; k < nUse; k++ {
		h.Use(func(c context.Context, ctx *app.RequestContext) { ctx.Next(c) })
	}
	for _, i := range order {
		i := i
		h.Handle(methods[i], routes[i], func(c context.Context, ctx *app.RequestContext) {
			r.hit = i
		})
	}
	r.ctx = h.Engine.NewContext()
	return r, true
}

func (r *rig) lookup(method, path string) obs { return r.lookupProto(method, path, "") }

func (r *rig) lookupProto(method, path, proto string) obs {
	ctx := r.ctx
	ctx.Reset()
	if proto != "" {
		ctx.Request.Header.SetProtocol(proto)
	}
	ctx.Request.Header.SetMethod(method)
	ctx.Request.SetRequestURI(path)
	ctx.Request.Header.SetHost("h")
	r.hit = -1
	r.eng.ServeHTTP(context.Background(), ctx)
	o := obs{route: r.hit, status: ctx.Response.StatusCode()}
	if r.hit >= 0 {
		var ps []string
		for _, p := range ctx.Params {
			ps = append(ps, p.Key+"="+p.Value)
		}
		o.params = strings.Join(ps, ",")
		o.full = ctx.FullPath()
	}
	return o
}

func permutations(n int) [][]int {
	var out [][]int
	var rec func(cur []int, used []bool)
	rec = func(cur []int, used []bool) {
		if len(cur) == n {
			out = append(out, append([]int(nil), cur...))
			return
		}
		for i := 0; i < n; i++ {
			if !used[i] {
				used[i] = true
				rec(append(cur, i), used)
				used[i] = false
			}
		}
	}
	rec(nil, make([]bool, n))
	return out
}

type setStats struct {
	ctl int64
	lookups, nontrivial, ambiguous int64
	skipped                        bool
}

// checkSet checks one route set under the given orders for all paths.
func checkSet(routes, methods []string, orders [][]int, paths []string, reqMethods []string) (string, setStats) {
	var st setStats
	var rigs []*rig
	for _, o := range orders {
		r, ok := build(routes, methods, o)
		if !ok {
			st.skipped = true
			return "", st // registration rejects the set (in some order): not in the property's domain
		}
		rigs = append(rigs, r)
	}
	refs := map[string]*refTrie{}
	idx := map[string][]int{}
	for i, m := range methods {
		idx[m] = append(idx[m], i)
	}
	for m, is := range idx {
		var rs []string
		for _, i := range is {
			rs = append(rs, routes[i])
		}
		refs[m] = buildRef(rs)
	}
	for _, m := range reqMethods {
		for _, p := range paths {
			st.lookups++
			first := rigs[0].lookup(m, p)
			for k := 1; k < len(rigs); k++ {
				if o := rigs[k].lookup(m, p); o != first {
					return fmt.Sprintf("%s %s: outcome depends on registration order: order %v -> %+v, order %v -> %+v", m, p, orders[0], first, orders[k], o), st
				}
			}
			rt := refs[m]
			if rt == nil {
				if first.route >= 0 {
					return fmt.Sprintf("%s %s: handler of route %q ran although no route is registered for the method", m, p, routes[first.route]), st
				}
				continue
			}
			pd := p
			if d, ok := decodedPath[p]; ok && !rawMode {
				pd = d // the router works on the decoded path
			}
			a := rt.match(pd, false)
			b := rt.match(pd, true)
			if a.backtracks > 0 || a.decisions > 0 {
				st.nontrivial++
			}
			same := a.route == b.route && strings.Join(a.values, "\x00") == strings.Join(b.values, "\x00")
			if !same {
				st.ambiguous++
				continue // the statement does not say whether a parameter may match the empty string
			}
			if a.route < 0 {
				if first.route >= 0 {
					return fmt.Sprintf("%s %s: no pattern matches under the documented rule but the handler of %q ran (params %s)", m, p, routes[first.route], first.params), st
				}
				continue
			}
			want := idx[m][a.route]
			if first.route != want {
				got := "no handler"
				if first.route >= 0 {
					got = fmt.Sprintf("handler of %q", routes[first.route])
				}
				return fmt.Sprintf("%s %s: documented priority selects %q, engine ran %s (status %d)", m, p, routes[want], got, first.status), st
			}
			var ps []string
			for k, name := range rt.names[a.route] {
				v := a.values[k]
				if rawMode {
					// UnescapePathValues (on by default): the matched piece of the raw target, unescaped
					if u, err := url.PathUnescape(v); err == nil {
						v = u
					}
				}
				ps = append(ps, name+"="+v)
			}
			if wantP := strings.Join(ps, ","); first.params != wantP {
				return fmt.Sprintf("%s %s matched %q: params %q, want %q", m, p, routes[want], first.params, wantP), st
			}
			if first.full != routes[want] {
				return fmt.Sprintf("%s %s matched %q: FullPath()=%q", m, p, routes[want], first.full), st
			}
		}
	}
	// Targets with a control byte (hertz refuses to parse those): whatever the answer, the handler of a
	// route may only run if its pattern matches the path that was asked for. HTTP/1.0 has no Host rule to
	// catch the unparsed target.
	for k, p := range paths {
		if k >= 8 || rawMode {
			break
		}
		for _, ctl := range []string{"\x01", "\x7f", "\x1f"} {
			for _, proto := range []string{"HTTP/1.1", "HTTP/1.0"} {
				for _, q := range []string{p + ctl, strings.TrimSuffix(p, "/") + "/" + ctl + "x"} {
					m := reqMethods[0]
					rt := refs[m]
					st.ctl++
					got := rigs[0].lookupProto(m, q, proto)
					if got.route < 0 {
						continue
					}
					if rt != nil {
						a, b := rt.match(q, false), rt.match(q, true)
						if (a.route >= 0 && idx[m][a.route] == got.route) || (b.route >= 0 && idx[m][b.route] == got.route) {
							continue
						}
					}
					return fmt.Sprintf("%s %q %s: the handler of %q ran (params %s) for a target no pattern of which matches", m, q, proto, routes[got.route], got.params), st
				}
			}
		}
	}
	return "", st
}

// ---------------------------------------------------------------------------
// Bounded-exhaustive part.

var patSegs = []string{"a", "b", "ab", "ba", "c", ":x", ":y", "a:x", "*z"}
var pathSegs = []string{"a", "b", "ab", "ba", "c", "abc"}

func allPatterns(maxSegs int) []string {
	var out []string
	var rec func(prefix string, depth int)
	rec = func(prefix string, depth int) {
		for _, s := range patSegs {
			p := prefix + "/" + s
			out = append(out, p)
			if s == "*z" {
				continue
			}
			out = append(out, p+"/")
			if depth+1 < maxSegs {
				rec(p, depth+1)
			}
		}
	}
	out = append(out, "/")
	rec("", 0)
	return out
}

func allPaths(maxSegs int) []string {
	out := []string{"/"}
	var rec func(prefix string, depth int)
	rec = func(prefix string, depth int) {
		for _, s := range pathSegs {
			p := prefix + "/" + s
			out = append(out, p, p+"/")
			if depth+1 < maxSegs {
				rec(p, depth+1)
			}
		}
	}
	rec("", 0)
	return out
}

func TestC06Exhaustive(t *testing.T) {
	rec := ev.New("exhaustive")
	shard, nshards := ev.Shard()
	pats := allPatterns(2)
	paths := allPaths(3)
	maxSet := 2
	var global int64
	var tot setStats
	var sets, skipped int64
	fails := 0
	run := func(set []int) bool {
		global++
		if global%int64(nshards) != int64(shard) {
			return true
		}
		routes := make([]string, len(set))
		methods := make([]string, len(set))
		for i, k := range set {
			routes[i] = pats[k]
			methods[i] = "GET"
		}
		msg, st := checkSet(routes, methods, permutations(len(set)), paths, []string{"GET"})
		sets++
		if st.skipped {
			skipped++
		}
		tot.lookups += st.lookups
		tot.nontrivial += st.nontrivial
		tot.ambiguous += st.ambiguous
		if msg != "" {
			fails++
			ev.Fail(prop, "exhaustive", map[string]interface{}{"routes": routes}, msg)
			t.Errorf("routes %v: %s", routes, msg)
			if fails > 5 {
				return false
			}
		}
		if sets%1501 == 1 && rec.WantSample() {
			rec.Sample(map[string]interface{}{"routes": routes, "paths_checked": len(paths), "orders": len(permutations(len(set)))})
		}
		return true
	}
outer:
	for i := range pats {
		if !run([]int{i}) {
			break
		}
		if maxSet >= 2 {
			for j := i + 1; j < len(pats); j++ {
				if !run([]int{i, j}) {
					break outer
				}
			}
		}
	}
	rec.Exact(tot.lookups, tot.nontrivial)
	rec.Class("route-sets", sets)
	rec.Class("route-sets-rejected-by-registration", skipped)
	rec.Class("lookups-ambiguous-empty-param", tot.ambiguous)
	rec.Exhaustive(fmt.Sprintf("all route sets of size 1..%d over the %d patterns with <=2 segments from %v (+trailing-slash variants, '/'), every registration order, every request path with <=3 segments over %v (+trailing slash); one evaluation = one (set, path) lookup compared across all orders", maxSet, len(pats), patSegs, pathSegs))
}

// TestC06Triples: sets of three patterns (thorough only; sampled deterministically by shard).
func TestC06Triples(t *testing.T) {
	if !ev.Thorough() {
		t.Skip("thorough only")
	}
	rec := ev.New("exhaustive-triples")
	shard, nshards := ev.Shard()
	pats := allPatterns(2)
	paths := allPaths(3)
	var global int64
	var tot setStats
	var sets int64
	fails := 0
	for i := range pats {
		for j := i + 1; j < len(pats); j++ {
			for k := j + 1; k < len(pats); k++ {
				global++
				if global%int64(nshards) != int64(shard) {
					continue
				}
				routes := []string{pats[i], pats[j], pats[k]}
				msg, st := checkSet(routes, []string{"GET", "GET", "GET"}, permutations(3), paths, []string{"GET"})
				sets++
				tot.lookups += st.lookups
				tot.nontrivial += st.nontrivial
				tot.ambiguous += st.ambiguous
				if msg != "" {
					fails++
					ev.Fail(prop, "exhaustive-triples", map[string]interface{}{"routes": routes}, msg)
					t.Errorf("routes %v: %s", routes, msg)
					if fails > 5 {
						rec.Exact(tot.lookups, tot.nontrivial)
						return
					}
				}
			}
		}
	}
	rec.Exact(tot.lookups, tot.nontrivial)
	rec.Class("route-sets", sets)
	rec.Exhaustive("all route sets of size 3 over the patterns with <=2 segments, all 6 registration orders, all paths with <=3 segments")
}

// ---------------------------------------------------------------------------
// Random larger sets.

var bigSegs = []string{"a", "b", "ab", "ba", "c", "abc", "users", "user", "u", ":x", ":y", ":id", "a:x", "ab:y", "u:id", "*z", "*rest", "v1", "v"}

func genPattern(t *rapid.T) string {
	n := rapid.IntRange(1, 4).Draw(t, "nSegs")
	var sb strings.Builder
	for i := 0; i < n; i++ {
		s := rapid.SampledFrom(bigSegs).Draw(t, "seg")
		if s[0] == '*' && i != n-1 {
			s = "a"
		}
		sb.WriteString("/" + s)
		if s[0] == '*' {
			return sb.String()
		}
	}
	if rapid.IntRange(0, 4).Draw(t, "trailingSlash") == 0 {
		sb.WriteString("/")
	}
	return sb.String()
}

// "a+b", "k%2541", "%252F": what the router sees after the one percent-decoding of the request path
// ("a+b", "k%41", "%2F") is the parameter value; it is not decoded a second time
var fillValues = []string{"a", "b", "ab", "abc", "users", "user", "u", "v1", "x", "zz", "a:b", "9", "a+b", "k%2541", "%252F", "+"}

// rawMode: the engines of the current set are built with UseRawPath (the route is chosen on the raw
// request target, escapes included; '+' is kept out of raw-mode paths because hertz unescapes path
// values with query rules, which turns it into a blank: noted, not judged here).
var rawMode bool

// decodedPath maps a generated request path to its once-decoded form (only for paths with escapes).
var decodedPath = map[string]string{}

func decodeOnce(p string) string {
	return strings.NewReplacer("%2541", "%41", "%252F", "%2F").Replace(p)
}

// derive request paths from the patterns.
func derivePaths(t *rapid.T, routes []string) []string {
	set := map[string]bool{"/": true}
	for _, r := range routes {
		for k := 0; k < 3; k++ {
			var sb strings.Builder
			toks := strings.Split(strings.TrimPrefix(r, "/"), "/")
			for _, s := range toks {
				sb.WriteString("/")
				switch {
				case s == "":
				case s[0] == ':':
					sb.WriteString(rapid.SampledFrom(fillValues).Draw(t, "paramValue"))
				case s[0] == '*':
					sb.WriteString(rapid.SampledFrom([]string{"", "a", "a/b", "a/b/", "users/1"}).Draw(t, "anyValue"))
				case strings.Contains(s, ":"):
					sb.WriteString(s[:strings.Index(s, ":")] + rapid.SampledFrom([]string{"", "a", "b", "1"}).Draw(t, "midValue"))
				default:
					sb.WriteString(s)
				}
			}
			p := sb.String()
			switch rapid.IntRange(0, 7).Draw(t, "pathMutation") {
			case 0:
				p = strings.TrimSuffix(p, "/")
			case 1:
				p += "/"
			case 2:
				p += rapid.SampledFrom([]string{"a", "b", "x"}).Draw(t, "extend")
			case 3:
				if i := strings.LastIndex(p, "/"); i > 0 {
					p = p[:i]
				}
			case 4:
				p += "/" + rapid.SampledFrom(fillValues).Draw(t, "extraSeg")
			}
			p = strings.ReplaceAll(p, "//", "/")
			if p == "" {
				p = "/"
			}
			if d := decodeOnce(p); d != p {
				decodedPath[p] = d
			}
			set[p] = true
		}
	}
	var out []string
	for p := range set {
		out = append(out, p)
	}
	sort.Strings(out)
	return out
}

func TestC06Random(t *testing.T) {
	rec := ev.New("random-sets")
	rapid.Check(t, func(t *rapid.T) {
		n := rapid.IntRange(3, 12).Draw(t, "nRoutes")
		seen := map[string]bool{}
		var routes, methods []string
		for i := 0; i < n; i++ {
			p := genPattern(t)
			m := rapid.SampledFrom([]string{"GET", "GET", "GET", "POST"}).Draw(t, "method")
			if seen[m+p] {
				continue
			}
			seen[m+p] = true
			routes = append(routes, p)
			methods = append(methods, m)
		}
		base := make([]int, len(routes))
		for i := range base {
			base[i] = i
		}
		orders := [][]int{base}
		for k := 0; k < 2; k++ {
			o := rapid.Permutation(base).Draw(t, "order")
			orders = append(orders, o)
		}
		rev := make([]int, len(base))
		for i := range base {
			rev[i] = base[len(base)-1-i]
		}
		orders = append(orders, rev)
		paths := derivePaths(t, routes)
		rawMode = rapid.IntRange(0, 3).Draw(t, "useRawPath") == 0
		if rawMode {
			// escaped separators and letters inside parameter values: what the option is for
			var more []string
			for _, p := range paths {
				if !strings.Contains(p, "+") {
					more = append(more, p)
				}
				for _, esc := range [][2]string{{"a", "a%2Fb"}, {"b", "%41%41"}, {"users", "k%20"}, {"x", "%2F"}} {
					if !strings.Contains(p, "+") && strings.Contains(p, "/"+esc[0]) && rapid.IntRange(0, 2).Draw(t, "escapeSegment") == 0 {
						more = append(more, strings.Replace(p, "/"+esc[0], "/"+esc[1], 1))
					}
				}
			}
			paths = more
		}
		msg, st := checkSet(routes, methods, orders, paths, []string{"GET", "POST"})
		rawWas := rawMode
		rawMode = false
		cls := []string{}
		if rawWas {
			cls = append(cls, "use-raw-path")
		}
		if st.skipped {
			cls = append(cls, "rejected-by-registration")
		} else {
			cls = append(cls, "accepted")
		}
		rec.Case(st.nontrivial > 0, ev.HashString(strings.Join(routes, " "), strings.Join(methods, " "), fmt.Sprint(orders), strings.Join(paths, " ")), cls...)
		rec.Class("lookups", st.lookups)
		rec.Class("lookups-with-priority-decision", st.nontrivial)
		rec.Class("lookups-ambiguous-empty-param", st.ambiguous)
		rec.Class("lookups-target-with-control-byte", st.ctl)
		if msg != "" {
			t.Fatalf("routes %v methods %v: %s", routes, methods, msg)
		}
		if st.nontrivial > 0 && rec.WantSample() {
			rec.Sample(map[string]interface{}{"routes": routes, "methods": methods, "paths": paths})
		}
	})
}

func TestC06Replay(t *testing.T) {
	f := ev.ReplayFile()
	if f == "" {
		t.Skip("no replay file")
	}
	var in struct{ Routes []string }
	if err := ev.LoadReplay(f, &in); err != nil {
		t.Fatal(err)
	}
	ms := make([]string, len(in.Routes))
	for i := range ms {
		ms[i] = "GET"
	}
	if msg, _ := checkSet(in.Routes, ms, permutations(len(in.Routes)), allPaths(3), []string{"GET"}); msg != "" {
		ev.Fail(prop, "replay", in, msg)
		t.Fatal(msg)
	}
}
