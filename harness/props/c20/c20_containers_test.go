package c20

import (
	"fmt"
	"reflect"
	"runtime/debug"
	"sort"
	"strings"
	"sync"
	"testing"

	"github.com/cloudwego/hertz/pkg/app/server/binding"
	"pgregory.net/rapid"

	"verifharness/ev"
)

// ---------------------------------------------------------------------------
// Container shapes: the same two leaf rules ($>0 on an int; $==nil||$>0 on a pointer to int) met through
// every container the validator walks: an optional nested struct (nil or present) at the top level, in
// slice elements, in map values; a struct that consists of one pointer (which reflect stores as the
// pointer itself) by value in a map, behind an interface, in a []interface{}, in a one-element array;
// a []interface{} field referenced by its own rule. The verdict must be the conjunction of the leaf
// rules over the leaves that exist, whatever the neighbours hold; nothing panics; the judged value is
// left as it was; two validations of one value may run at the same time.

type ctInner struct {
	X int `vd:"$>0"`
}

type ctElem struct {
	In  *ctInner
	Tag string
}

// one pointer and nothing else
type ctW struct {
	P *int `vd:"$==nil||$>0"`
}

type ctNamed string

type ctMid struct {
	L ctInner
}

// no rule of its own; reached through an embedded pointer by a sub-field reference of the outer field
type ctBase struct {
	ID int
}

// a struct used as the key of a map that sits two container levels deep
type ctKey struct {
	V int `vd:"$>0"`
}

type ctEmb struct {
	*ctBase
	Name string
}

type ctReq struct {
	Name string
	In   *ctInner
	L    []ctElem
	PL   []*ctElem
	M    map[string]ctElem
	MW   map[string]ctW
	A    [1]ctW
	I    interface{}
	LI   []interface{} `vd:"len($)>=0"`
	J    interface{}   `vd:"$==nil||len($)>=0"`
	// a multi-level pointer to a struct with a nested rule: nil at any level means there is nothing to check
	PPP ***ctMid
	// the same with a rule on the member itself (nil at any level is nil)
	PPQ ***ctMid `vd:"$==nil||$!=nil"`
	// a sub-field reference through an embedded pointer that may be nil
	Emb ctEmb `vd:"$['ID']==nil||$['ID']>0"`
	// containers two levels deep inside one member
	LL [][]interface{}
	LM []map[string]interface{}
	ML map[string][]interface{}
	LK [][]map[ctKey]int
	// pointers to containers, nil ones among them: nothing to check behind a nil pointer
	LP []*[]interface{}
	MP map[string]*[]interface{}
}

// plan of a value; everything drawn by rapid
type ctLeaf struct {
	Nil bool
	X   int
}

type ctPlan struct {
	In     ctLeaf
	L      []ctLeaf
	PL     []ctLeaf // Nil = nil *ctElem
	PLIn   []ctLeaf
	M      []ctLeaf
	MW     []ctLeaf
	A      ctLeaf
	IKind  int // 0 nil, 1 ctW by value, 2 *ctW, 3 ctElem by value, 4 *ctInner
	I      ctLeaf
	LIKind []int // per element: 0 int, 1 int8, 2 *int, 3 named string, 4 ctW by value, 5 *ctInner, 6 float64, 7 nil
	LI     []ctLeaf
	JLen   int // -1: nil
	PPPNil int // 0: PPP nil, 1: *PPP nil, 2: **PPP nil, 3: all set
	PPP    ctLeaf
	Emb    ctLeaf // Nil: the embedded pointer is nil
	Deep   []ctLeaf
	DeepAt []int // 0 LL, 1 LM, 2 ML, 3 LK (the leaf is the key), 4 LP, 5 MP (each beside a nil pointer)
}

func drawLeaf(t *rapid.T, label string) ctLeaf {
	return ctLeaf{Nil: rapid.IntRange(0, 3).Draw(t, label+"-nil") == 0, X: rapid.SampledFrom([]int{-1, 0, 1, 5, 1 << 40}).Draw(t, label+"-x")}
}

func drawLeaves(t *rapid.T, label string, max int) []ctLeaf {
	n := rapid.IntRange(0, max).Draw(t, label+"-n")
	out := make([]ctLeaf, n)
	for i := range out {
		out[i] = drawLeaf(t, fmt.Sprintf("%s%d", label, i))
	}
	return out
}

func drawPlan(t *rapid.T) *ctPlan {
	p := &ctPlan{}
	p.In = drawLeaf(t, "in")
	p.L = drawLeaves(t, "l", 3)
	p.PL = drawLeaves(t, "pl", 2)
	p.PLIn = make([]ctLeaf, len(p.PL))
	for i := range p.PLIn {
		p.PLIn[i] = drawLeaf(t, fmt.Sprintf("plin%d", i))
	}
	p.M = drawLeaves(t, "m", 3)
	p.MW = drawLeaves(t, "mw", 2)
	p.A = drawLeaf(t, "a")
	p.IKind = rapid.IntRange(0, 4).Draw(t, "ikind")
	p.I = drawLeaf(t, "i")
	p.LI = drawLeaves(t, "li", 3)
	p.LIKind = make([]int, len(p.LI))
	for i := range p.LIKind {
		p.LIKind[i] = rapid.IntRange(0, 7).Draw(t, fmt.Sprintf("likind%d", i))
	}
	p.JLen = rapid.IntRange(-1, 2).Draw(t, "jlen")
	p.PPPNil = rapid.IntRange(0, 3).Draw(t, "pppNilLevel")
	p.PPP = drawLeaf(t, "ppp")
	p.PPP.Nil = p.PPPNil != 3
	p.Emb = drawLeaf(t, "emb")
	p.Deep = drawLeaves(t, "deep", 3)
	p.DeepAt = make([]int, len(p.Deep))
	for i := range p.DeepAt {
		p.DeepAt[i] = rapid.IntRange(0, 5).Draw(t, fmt.Sprintf("deepAt%d", i))
	}
	return p
}

func intPtr(l ctLeaf) *int {
	if l.Nil {
		return nil
	}
	x := l.X
	return &x
}

func innerPtr(l ctLeaf) *ctInner {
	if l.Nil {
		return nil
	}
	return &ctInner{X: l.X}
}

// build makes a fresh value from the plan; ok is what the leaf rules say about it
func (p *ctPlan) build() (v *ctReq, ok bool, leaves int) {
	ok = true
	inner := func(l ctLeaf) *ctInner {
		if !l.Nil {
			leaves++
			if !(l.X > 0) {
				ok = false
			}
		}
		return innerPtr(l)
	}
	w := func(l ctLeaf) ctW {
		if !l.Nil {
			leaves++
			if !(l.X > 0) {
				ok = false
			}
		}
		return ctW{P: intPtr(l)}
	}
	v = &ctReq{Name: "n"}
	v.In = inner(p.In)
	for _, l := range p.L {
		v.L = append(v.L, ctElem{In: inner(l), Tag: "t"})
	}
	for i, l := range p.PL {
		if l.Nil {
			v.PL = append(v.PL, nil)
			continue
		}
		v.PL = append(v.PL, &ctElem{In: inner(p.PLIn[i])})
	}
	if len(p.M) > 0 {
		v.M = map[string]ctElem{}
		for i, l := range p.M {
			v.M[fmt.Sprintf("k%d", i)] = ctElem{In: inner(l)}
		}
	}
	if len(p.MW) > 0 {
		v.MW = map[string]ctW{}
		for i, l := range p.MW {
			v.MW[fmt.Sprintf("k%d", i)] = w(l)
		}
	}
	v.A[0] = w(p.A)
	switch p.IKind {
	case 1:
		v.I = w(p.I)
	case 2:
		x := w(p.I)
		v.I = &x
	case 3:
		v.I = ctElem{In: inner(p.I)}
	case 4:
		if in := inner(p.I); in != nil {
			v.I = in
		}
	}
	for i, l := range p.LI {
		switch p.LIKind[i] {
		case 0:
			v.LI = append(v.LI, l.X)
		case 1:
			v.LI = append(v.LI, int8(l.X))
		case 2:
			x := l.X
			v.LI = append(v.LI, &x)
		case 3:
			v.LI = append(v.LI, ctNamed("s"))
		case 4:
			v.LI = append(v.LI, w(l))
		case 5:
			if in := inner(l); in != nil {
				v.LI = append(v.LI, in)
			} else {
				v.LI = append(v.LI, nil)
			}
		case 6:
			v.LI = append(v.LI, float64(l.X)/2)
		case 7:
			v.LI = append(v.LI, nil)
		}
	}
	if p.JLen >= 0 {
		j := make([]interface{}, p.JLen)
		for i := range j {
			x := i + 1
			if i == 0 {
				j[i] = uint16(7)
			} else {
				j[i] = &x
			}
		}
		v.J = j
	}
	switch p.PPPNil {
	case 1:
		var q **ctMid
		v.PPQ = &q
	case 2:
		var q *ctMid
		r := &q
		v.PPQ = &r
	}
	switch p.PPPNil {
	case 1:
		var a **ctMid
		v.PPP = &a
	case 2:
		var a *ctMid
		b := &a
		v.PPP = &b
	case 3:
		a := &ctMid{L: *inner(ctLeaf{X: p.PPP.X})}
		b := &a
		v.PPP = &b
	}
	if !p.Emb.Nil {
		leaves++
		if !(p.Emb.X > 0) {
			ok = false
		}
		v.Emb.ctBase = &ctBase{ID: p.Emb.X}
	}
	for i, l := range p.Deep {
		if p.DeepAt[i] == 3 {
			if !l.Nil {
				leaves++
				if !(l.X > 0) {
					ok = false
				}
				v.LK = append(v.LK, []map[ctKey]int{{ctKey{V: l.X}: 1}})
			}
			continue
		}
		var e interface{}
		if in := inner(l); in != nil {
			e = in
		}
		switch p.DeepAt[i] {
		case 0:
			v.LL = append(v.LL, []interface{}{1, e})
		case 1:
			v.LM = append(v.LM, map[string]interface{}{"k": e})
		case 2:
			if v.ML == nil {
				v.ML = map[string][]interface{}{}
			}
			v.ML[fmt.Sprintf("k%d", i)] = []interface{}{e}
		case 4:
			v.LP = append(v.LP, nil, &[]interface{}{e})
		case 5:
			if v.MP == nil {
				v.MP = map[string]*[]interface{}{}
			}
			v.MP[fmt.Sprintf("k%d", i)] = &[]interface{}{e}
			v.MP[fmt.Sprintf("n%d", i)] = nil
		}
	}
	return v, ok, leaves
}

func (p *ctPlan) describe() string {
	var b strings.Builder
	leaf := func(l ctLeaf) string {
		if l.Nil {
			return "nil"
		}
		return fmt.Sprint(l.X)
	}
	ls := func(name string, l []ctLeaf) {
		s := make([]string, len(l))
		for i := range l {
			s[i] = leaf(l[i])
		}
		fmt.Fprintf(&b, " %s=[%s]", name, strings.Join(s, ","))
	}
	fmt.Fprintf(&b, "In=%s", leaf(p.In))
	ls("L[].In", p.L)
	ls("PL[]", p.PL)
	ls("PL[].In", p.PLIn)
	ls("M{}.In", p.M)
	ls("MW{}.P", p.MW)
	fmt.Fprintf(&b, " A[0].P=%s I(kind %d)=%s LI kinds=%v", leaf(p.A), p.IKind, leaf(p.I), p.LIKind)
	ls("LI", p.LI)
	fmt.Fprintf(&b, " len(J)=%d PPP(nil level %d)=%s Emb.ID=%s deepAt=%v", p.JLen, p.PPPNil, leaf(p.PPP), leaf(p.Emb), p.DeepAt)
	ls("deep", p.Deep)
	return b.String()
}

func ctValidate(v interface{}) (err error, pan string) {
	defer func() {
		if r := recover(); r != nil {
			pan = fmt.Sprintf("%v\n%s", r, debug.Stack())
		}
	}()
	return binding.Validate(v), ""
}

func TestC20Containers(t *testing.T) {
	rec := ev.New("containers")
	rapid.Check(t, func(t *rapid.T) {
		p := drawPlan(t)
		conc := rapid.IntRange(0, 3).Draw(t, "concurrent") == 0
		v, want, leaves := p.build()
		twin, _, _ := p.build()
		desc := p.describe()
		nils := 0
		for _, l := range append(append(append([]ctLeaf{p.In}, p.L...), p.M...), p.PLIn...) {
			if l.Nil {
				nils++
			}
		}
		// non-trivial: at least two leaves exist and at least one optional member is nil
		rec.Case(leaves >= 2 && nils >= 1, ev.HashString(desc), map[bool]string{true: "containers-concurrent", false: "containers-single"}[conc])
		fail := func(msg string) {
			ev.Fail(prop, "containers", map[string]interface{}{"value": desc, "concurrent": conc}, msg)
			t.Fatalf("%s", msg)
		}
		var err error
		var pan string
		if conc {
			// two validations of one value at the same time (the race detector watches)
			var wg sync.WaitGroup
			var err2 error
			var pan2 string
			wg.Add(1)
			go func() { defer wg.Done(); err2, pan2 = ctValidate(v) }()
			err, pan = ctValidate(v)
			wg.Wait()
			if pan == "" {
				pan = pan2
			}
			if pan == "" && (err == nil) != (err2 == nil) {
				fail(fmt.Sprintf("two validations of one value at the same time disagree: %v / %v; value: %s", err, err2, desc))
			}
		} else {
			err, pan = ctValidate(v)
		}
		if pan != "" {
			fail(fmt.Sprintf("binding.Validate panics: %s; value: %s", firstLines(pan, 14), desc))
		}
		if (err == nil) != want {
			fail(fmt.Sprintf("binding.Validate returns %v, the leaf rules over the leaves that exist say accepted=%v; value: %s", err, want, desc))
		}
		if !reflect.DeepEqual(v, twin) {
			fail(fmt.Sprintf("binding.Validate changed the value it judged: LI=%s J=%s, built as LI=%s J=%s; value: %s", typesOf(v.LI), typesOf(v.J), typesOf(twin.LI), typesOf(twin.J), desc))
		}
	})
}

func typesOf(x interface{}) string {
	l, ok := x.([]interface{})
	if !ok {
		return fmt.Sprintf("%T", x)
	}
	s := make([]string, len(l))
	for i := range l {
		s[i] = fmt.Sprintf("%T", l[i])
	}
	return "[" + strings.Join(s, " ") + "]"
}

func firstLines(s string, n int) string {
	l := strings.Split(s, "\n")
	if len(l) > n {
		l = l[:n]
	}
	return strings.Join(l, " | ")
}

var _ = sort.Strings
