package c20

import (
	"fmt"
	"github.com/cloudwego/hertz/pkg/common/test/mock"
	"github.com/cloudwego/hertz/pkg/protocol"
	"github.com/cloudwego/hertz/pkg/protocol/http1/req"
	"github.com/cloudwego/hertz/pkg/route/param"
	"math"
	"os"
	"reflect"
	"regexp"
	"runtime/debug"
	"strconv"
	"strings"
	"testing"

	"github.com/cloudwego/hertz/pkg/app/server/binding"
	"pgregory.net/rapid"

	"verifharness/ev"
)

const prop = "C20"

func TestMain(m *testing.M) {
	code := m.Run()
	ev.Flush()
	os.Exit(code)
}

// ---------------------------------------------------------------------------
// Typed expression trees.

type kind int

const (
	kNum kind = iota
	kStr
	kBool
)

type node struct {
	op   string // "lit", "field", "len", "neg", "not", "regexp", "in", or a binary operator
	k    kind
	num  float64
	str  string
	b    bool
	fld  string // field name; "" = current field ($)
	l, r *node
	args []*node
	lits []*node
}

var prec = map[string]int{"*": 6, "/": 6, "%": 6, "+": 5, "-": 5, "<": 4, "<=": 4, ">": 4, ">=": 4, "==": 3, "!=": 3, "&&": 2, "||": 1}

func isBinary(op string) bool { _, ok := prec[op]; return ok }

// values of the generated struct
type values struct {
	A int64
	B float64
	C uint8
	D int32
	S string
	T string
	K bool
	L []int
	X int
}

var numLits = []float64{0, 1, 2, 3, 5, 7, 10, 0.5, 0.25, 1.5, 2.5, 7.5, 100, 255, 1000000}

// numeric-looking strings stay strings: '01' != '1', '1.0' != '1', '10' < '9'
var strLits = []string{"", "a", "b", "ab", "abc", "A", "é", "0", "x y", "it's", "1", "01", "1.0", "+1", "1e1", "10", "-0", "9", "a;", ";b", ";", "a;b"}
var numFields = []string{"A", "B", "C", "D", ""}
var strFields = []string{"S", "T"}

func genNum(t *rapid.T, depth int) *node {
	c := rapid.IntRange(0, 9).Draw(t, "numForm")
	if depth <= 0 && c > 3 {
		c = c % 4
	}
	switch c {
	case 0:
		v := rapid.SampledFrom(numLits).Draw(t, "numLit")
		if rapid.IntRange(0, 3).Draw(t, "negLit") == 0 {
			v = -v
		}
		return &node{op: "lit", k: kNum, num: v}
	case 1, 2:
		return &node{op: "field", k: kNum, fld: rapid.SampledFrom(numFields).Draw(t, "numField")}
	case 3:
		if rapid.Bool().Draw(t, "lenOfSlice") {
			return &node{op: "len", k: kNum, args: []*node{{op: "field", k: kStr, fld: "L"}}}
		}
		return &node{op: "len", k: kNum, args: []*node{genStr(t, 0)}}
	case 4:
		return &node{op: "neg", k: kNum, l: genNum(t, depth-1)}
	default:
		op := rapid.SampledFrom([]string{"+", "-", "*", "/", "%", "%", "+", "-", "*"}).Draw(t, "arith")
		return &node{op: op, k: kNum, l: genNum(t, depth-1), r: genNum(t, depth-1)}
	}
}

func genStr(t *rapid.T, depth int) *node {
	c := rapid.IntRange(0, 4).Draw(t, "strForm")
	if depth <= 0 && c > 2 {
		c = c % 3
	}
	switch c {
	case 0, 1:
		return &node{op: "lit", k: kStr, str: rapid.SampledFrom(strLits).Draw(t, "strLit")}
	case 2:
		return &node{op: "field", k: kStr, fld: rapid.SampledFrom(strFields).Draw(t, "strField")}
	default:
		return &node{op: "+", k: kStr, l: genStr(t, depth-1), r: genStr(t, depth-1)}
	}
}

func genBool(t *rapid.T, depth int) *node {
	c := rapid.IntRange(0, 13).Draw(t, "boolForm")
	if depth <= 0 {
		c = c % 5
	}
	switch c {
	case 0:
		return &node{op: "lit", k: kBool, b: rapid.Bool().Draw(t, "boolLit")}
	case 1:
		return &node{op: "field", k: kBool, fld: "K"}
	case 2, 3:
		op := rapid.SampledFrom([]string{"<", "<=", ">", ">=", "==", "!="}).Draw(t, "numCmp")
		return &node{op: op, k: kBool, l: genNum(t, depth-1), r: genNum(t, depth-1)}
	case 4:
		op := rapid.SampledFrom([]string{"==", "!=", "<", ">"}).Draw(t, "strCmp")
		return &node{op: op, k: kBool, l: genStr(t, depth-1), r: genStr(t, depth-1)}
	case 5:
		return &node{op: "not", k: kBool, l: genBool(t, depth-1)}
	case 6:
		op := rapid.SampledFrom([]string{"==", "!="}).Draw(t, "boolEq")
		return &node{op: op, k: kBool, l: genBool(t, depth-1), r: genBool(t, depth-1)}
	case 7, 8, 9:
		return &node{op: "&&", k: kBool, l: genBool(t, depth-1), r: genBool(t, depth-1)}
	case 10, 11:
		return &node{op: "||", k: kBool, l: genBool(t, depth-1), r: genBool(t, depth-1)}
	case 12:
		re := rapid.SampledFrom([]string{"^a", "b$", "^$", "[0-9]+", "^[a-z]*$", "é"}).Draw(t, "regexp")
		return &node{op: "regexp", k: kBool, str: re, args: []*node{genStr(t, depth-1)}}
	default:
		n := &node{op: "in", k: kBool}
		if rapid.Bool().Draw(t, "inNum") {
			n.args = []*node{genNum(t, depth-1)}
			for i := 0; i < rapid.IntRange(1, 4).Draw(t, "nIn"); i++ {
				n.lits = append(n.lits, &node{op: "lit", k: kNum, num: rapid.SampledFrom(numLits).Draw(t, "inLit")})
			}
		} else {
			n.args = []*node{genStr(t, depth-1)}
			for i := 0; i < rapid.IntRange(1, 4).Draw(t, "nIn"); i++ {
				n.lits = append(n.lits, &node{op: "lit", k: kStr, str: rapid.SampledFrom(strLits).Draw(t, "inLit")})
			}
		}
		return n
	}
}

// ---------------------------------------------------------------------------
// Printing.

type printer struct {
	mode   int // 0 minimal, 1 full, 2 random redundant
	spaces func() string
	extra  func() bool
}

func fmtNum(v float64) string {
	return strconv.FormatFloat(v, 'f', -1, 64)
}

func quoteStr(s string) string {
	return "'" + strings.ReplaceAll(s, "'", `\'`) + "'"
}

// arg prints a function argument; in the redundant mode a compound argument is one
// parenthesised group whose inside relies on precedence: in(($+1*2),5).
func (p *printer) arg(n *node) string {
	s := p.print(n, 0, false)
	if p.mode == 2 && n.l != nil && n.r != nil {
		return "(" + s + ")"
	}
	return s
}

func (p *printer) atom(n *node) (string, bool) {
	switch n.op {
	case "lit":
		switch n.k {
		case kNum:
			return fmtNum(n.num), true
		case kStr:
			return quoteStr(n.str), true
		default:
			return strconv.FormatBool(n.b), true
		}
	case "field":
		if n.fld == "" {
			return "$", true
		}
		return "(" + n.fld + ")$", true
	case "len":
		return "len(" + p.arg(n.args[0]) + ")", true
	case "regexp":
		return "regexp(" + quoteStr(n.str) + "," + p.spaces() + p.arg(n.args[0]) + ")", true
	case "in":
		s := "in(" + p.arg(n.args[0])
		for _, l := range n.lits {
			s += "," + p.spaces() + p.print(l, 0, false)
		}
		return s + ")", true
	case "neg":
		return "-(" + p.print(n.l, 0, false) + ")", true
	case "not":
		in, isAtom := p.atom(n.l)
		if isAtom && n.l.op != "neg" && !(n.l.op == "lit" && n.l.k != kBool) {
			if n.l.op == "not" || p.mode == 1 {
				return "!(" + in + ")", true
			}
			return "!" + in, true
		}
		return "!(" + p.print(n.l, 0, false) + ")", true
	}
	return "", false
}

// print renders n as the operand of a parent with precedence parentPrec; right says it is the right operand.
func (p *printer) print(n *node, parentPrec int, right bool) string {
	if s, ok := p.atom(n); ok {
		if p.mode == 2 && p.extra() {
			return "(" + p.spaces() + s + p.spaces() + ")"
		}
		return s
	}
	pr := prec[n.op]
	s := p.print(n.l, pr, false) + p.spaces() + n.op + p.spaces() + p.print(n.r, pr, true)
	need := pr < parentPrec || (pr == parentPrec && right)
	switch p.mode {
	case 1:
		need = parentPrec > 0
	case 2:
		if p.extra() {
			need = true
		}
	}
	if need {
		return "(" + s + ")"
	}
	return s
}

// levels counts distinct precedence levels among the binary operators of n.
func levels(n *node, set map[int]bool) {
	if n == nil {
		return
	}
	if isBinary(n.op) {
		set[prec[n.op]] = true
	}
	levels(n.l, set)
	levels(n.r, set)
	for _, a := range n.args {
		levels(a, set)
	}
}

// ---------------------------------------------------------------------------
// Independent evaluator.

type evalCtx struct {
	v         *values
	undefined bool
}

func (c *evalCtx) num(n *node) float64 {
	switch n.op {
	case "lit":
		return n.num
	case "field":
		switch n.fld {
		case "A":
			return float64(c.v.A)
		case "B":
			return c.v.B
		case "C":
			return float64(c.v.C)
		case "D":
			return float64(c.v.D)
		default:
			return float64(c.v.X)
		}
	case "len":
		a := n.args[0]
		if a.op == "field" && a.fld == "L" {
			return float64(len(c.v.L))
		}
		return float64(len(c.str(a)))
	case "neg":
		return -c.num(n.l)
	}
	a, b := c.num(n.l), c.num(n.r)
	switch n.op {
	case "+":
		return a + b
	case "-":
		return a - b
	case "*":
		return a * b
	case "/":
		if b == 0 {
			c.undefined = true
			return math.NaN()
		}
		return a / b
	case "%":
		if math.IsNaN(a) || math.IsNaN(b) || math.Abs(a) >= 1<<62 || math.Abs(b) >= 1<<62 || int64(b) == 0 {
			c.undefined = true
			return math.NaN()
		}
		return float64(int64(a) % int64(b))
	}
	panic("bad num op " + n.op)
}

func (c *evalCtx) str(n *node) string {
	switch n.op {
	case "lit":
		return n.str
	case "field":
		if n.fld == "S" {
			return c.v.S
		}
		return c.v.T
	case "+":
		return c.str(n.l) + c.str(n.r)
	}
	panic("bad str op " + n.op)
}

func (c *evalCtx) boolean(n *node) bool {
	switch n.op {
	case "lit":
		return n.b
	case "field":
		return c.v.K
	case "not":
		return !c.boolean(n.l)
	case "&&":
		// no short-circuit assumption is needed: operands are pure
		l, r := c.boolean(n.l), c.boolean(n.r)
		return l && r
	case "||":
		l, r := c.boolean(n.l), c.boolean(n.r)
		return l || r
	case "regexp":
		return regexp.MustCompile(n.str).MatchString(c.str(n.args[0]))
	case "in":
		if n.args[0].k == kNum {
			x := c.num(n.args[0])
			for _, l := range n.lits {
				if l.num == x {
					return true
				}
			}
			return false
		}
		x := c.str(n.args[0])
		for _, l := range n.lits {
			if l.str == x {
				return true
			}
		}
		return false
	}
	switch n.l.k {
	case kNum:
		a, b := c.num(n.l), c.num(n.r)
		switch n.op {
		case "<":
			return a < b
		case "<=":
			return a <= b
		case ">":
			return a > b
		case ">=":
			return a >= b
		case "==":
			return a == b
		case "!=":
			return a != b
		}
	case kStr:
		a, b := c.str(n.l), c.str(n.r)
		switch n.op {
		case "<":
			return a < b
		case ">":
			return a > b
		case "==":
			return a == b
		case "!=":
			return a != b
		}
	case kBool:
		a, b := c.boolean(n.l), c.boolean(n.r)
		if n.op == "==" {
			return a == b
		}
		return a != b
	}
	panic("bad bool op " + n.op)
}

// ---------------------------------------------------------------------------
// Running hertz's validator on a run-time generated type.

var baseFields = []reflect.StructField{
	{Name: "A", Type: reflect.TypeOf(int64(0))},
	{Name: "B", Type: reflect.TypeOf(float64(0))},
	{Name: "C", Type: reflect.TypeOf(uint8(0))},
	{Name: "D", Type: reflect.TypeOf(int32(0))},
	{Name: "S", Type: reflect.TypeOf("")},
	{Name: "T", Type: reflect.TypeOf("")},
	{Name: "K", Type: reflect.TypeOf(false)},
	{Name: "L", Type: reflect.TypeOf([]int(nil))},
}

func validate(expr string, v *values) (accepted bool, pan string) {
	fields := append([]reflect.StructField(nil), baseFields...)
	fields = append(fields, reflect.StructField{Name: "X", Type: reflect.TypeOf(int(0)), Tag: reflect.StructTag("vd:" + strconv.Quote(expr))})
	typ := reflect.StructOf(fields)
	obj := reflect.New(typ)
	e := obj.Elem()
	e.Field(0).SetInt(v.A)
	e.Field(1).SetFloat(v.B)
	e.Field(2).SetUint(uint64(v.C))
	e.Field(3).SetInt(int64(v.D))
	e.Field(4).SetString(v.S)
	e.Field(5).SetString(v.T)
	e.Field(6).SetBool(v.K)
	e.Field(7).Set(reflect.ValueOf(v.L))
	e.Field(8).SetInt(int64(v.X))
	defer func() {
		if r := recover(); r != nil {
			pan = fmt.Sprintf("%v\n%s", r, debug.Stack())
		}
	}()
	err := binding.Validate(obj.Interface())
	return err == nil, ""
}

// validateThroughBinder takes the route applications take: the request binder. mode 0: the first use
// of the type is BindAndValidate; mode 1: the type is first used with plain Bind (which shares the
// binder's per-type cache), then BindAndValidate; mode 2: BindAndValidate twice (warm cache).
func validateThroughBinder(expr string, v *values, mode int) (accepted bool, pan string) {
	fields := append([]reflect.StructField(nil), baseFields...)
	fields = append(fields, reflect.StructField{Name: "X", Type: reflect.TypeOf(int(0)), Tag: reflect.StructTag("vd:" + strconv.Quote(expr))})
	typ := reflect.StructOf(fields)
	mk := func() reflect.Value {
		obj := reflect.New(typ)
		e := obj.Elem()
		e.Field(0).SetInt(v.A)
		e.Field(1).SetFloat(v.B)
		e.Field(2).SetUint(uint64(v.C))
		e.Field(3).SetInt(int64(v.D))
		e.Field(4).SetString(v.S)
		e.Field(5).SetString(v.T)
		e.Field(6).SetBool(v.K)
		e.Field(7).Set(reflect.ValueOf(v.L))
		e.Field(8).SetInt(int64(v.X))
		return obj
	}
	defer func() {
		if r := recover(); r != nil {
			pan = fmt.Sprintf("%v\n%s", r, debug.Stack())
		}
	}()
	req := &protocol.Request{}
	req.SetRequestURI("http://h/validate")
	b := binding.DefaultBinder()
	switch mode {
	case 1:
		_ = b.Bind(req, mk().Interface(), nil)
	case 2:
		_ = b.BindAndValidate(req, mk().Interface(), nil)
	}
	err := b.BindAndValidate(req, mk().Interface(), nil)
	return err == nil, ""
}

func genValues(t *rapid.T) *values {
	ints := []int64{0, 1, -1, 2, 3, 5, 7, 10, 100, -100, 255, 1 << 40}
	floats := []float64{0, 1, -1, 0.5, -0.5, 0.25, 2.5, 7.5, -3.5, 10.75, 1e9, 3}
	strs := []string{"", "a", "b", "ab", "abc", "A", "é", "0", "x y", "it's", "12"}
	v := &values{
		A: rapid.SampledFrom(ints).Draw(t, "A"),
		B: rapid.SampledFrom(floats).Draw(t, "B"),
		C: uint8(rapid.SampledFrom([]int{0, 1, 2, 7, 255}).Draw(t, "C")),
		D: int32(rapid.SampledFrom([]int{0, 1, -1, 3, -7, 1000}).Draw(t, "D")),
		S: rapid.SampledFrom(strs).Draw(t, "S"),
		T: rapid.SampledFrom(strs).Draw(t, "T"),
		K: rapid.Bool().Draw(t, "K"),
		X: rapid.SampledFrom([]int{0, 1, -1, 2, 5, 10}).Draw(t, "X"),
	}
	switch rapid.IntRange(0, 2).Draw(t, "L") {
	case 1:
		v.L = []int{}
	case 2:
		v.L = []int{1, 2, 3}
	}
	return v
}

func maxDepth() int {
	if ev.Thorough() {
		return 6
	}
	return 4
}

func TestC20Typed(t *testing.T) {
	rec := ev.New("typed")
	rapid.Check(t, func(t *rapid.T) {
		depth := rapid.IntRange(1, maxDepth()).Draw(t, "depth")
		tree := genBool(t, depth)
		v := genValues(t)
		// make membership tests decisive: the first enumerated literal of an in() is (mostly) the
		// value its first argument really has, so a mis-evaluated argument flips the verdict
		hitMask := rapid.Uint64().Draw(t, "inHitMask")
		nIn := 0
		var fixIn func(n *node)
		fixIn = func(n *node) {
			if n == nil {
				return
			}
			if n.op == "in" && len(n.lits) > 0 {
				nIn++
				if hitMask>>(uint(nIn)%64)&1 == 1 {
					c := &evalCtx{v: v}
					if n.lits[0].k == kNum {
						if x := c.num(n.args[0]); !c.undefined && !math.IsNaN(x) && !math.IsInf(x, 0) && math.Abs(x) < 1e15 {
							n.lits[0] = &node{op: "lit", k: kNum, num: x}
						}
					} else {
						if x := c.str(n.args[0]); !c.undefined {
							n.lits[0] = &node{op: "lit", k: kStr, str: x}
						}
					}
				}
			}
			fixIn(n.l)
			fixIn(n.r)
			for _, a := range n.args {
				fixIn(a)
			}
		}
		fixIn(tree)
		sp := rapid.SampledFrom([]string{"", " ", "  "}).Draw(t, "spacing")
		mask := rapid.Uint64().Draw(t, "parenMask")
		bit := 0
		extra := func() bool { bit++; return mask>>(uint(bit)%64)&1 == 1 && bit%3 == 0 }
		spaces := func() string { return sp }
		minimal := (&printer{mode: 0, spaces: spaces}).print(tree, 0, false)
		full := (&printer{mode: 1, spaces: spaces}).print(tree, 0, false)
		redundant := (&printer{mode: 2, spaces: spaces, extra: extra}).print(tree, 0, false)
		ctx := &evalCtx{v: v}
		want := ctx.boolean(tree)
		lv := map[int]bool{}
		levels(tree, lv)
		nt := minimal != full && len(lv) >= 2
		cls := []string{fmt.Sprintf("depth-%d", depth)}
		if ctx.undefined {
			cls = append(cls, "undefined-arith")
		}
		rec.Case(nt, ev.HashString(minimal, fmt.Sprintf("%+v", *v)), cls...)
		var verdicts [3]bool
		for i, e := range []string{minimal, full, redundant} {
			acc, pan := validate(e, v)
			if pan != "" {
				t.Fatalf("binding.Validate panicked on vd:%q with values %+v: %s", e, *v, pan)
			}
			verdicts[i] = acc
		}
		if verdicts[0] != verdicts[1] || verdicts[1] != verdicts[2] {
			t.Fatalf("the same expression tree gives different verdicts depending on parenthesisation: minimal %q -> %v, full %q -> %v, redundant %q -> %v; values %+v", minimal, verdicts[0], full, verdicts[1], redundant, verdicts[2], *v)
		}
		// the binder's BindAndValidate gives the same verdict, whatever the type was used for before
		mode := rapid.IntRange(0, 2).Draw(t, "binderHistory")
		if acc, pan := validateThroughBinder(minimal, v, mode); pan != "" {
			t.Fatalf("BindAndValidate panicked on vd:%q with values %+v: %s", minimal, *v, pan)
		} else if acc != verdicts[0] {
			t.Fatalf("vd:%q with values %+v: binding.Validate accepts=%v but BindAndValidate accepts=%v (history: %s)", minimal, *v, verdicts[0], acc, []string{"first use of the type", "the type was used with plain Bind before", "second BindAndValidate"}[mode])
		}
		if !ctx.undefined && verdicts[0] != want {
			t.Fatalf("vd:%q with values %+v: validator accepted=%v, independent evaluator (documented precedence, float64 arithmetic) says %v; fully parenthesised: %q", minimal, *v, verdicts[0], want, full)
		}
		if nt && rec.WantSample() {
			rec.Sample(map[string]interface{}{"minimal": minimal, "full": full, "redundant": redundant, "values": v, "accepted": verdicts[0]})
		}
	})
}

// ---------------------------------------------------------------------------
// No-panic clause over wild (not necessarily well-typed) expressions and nil pointers.

// atoms of the property's alphabet only: literals, field references (incl. nil pointers, nil/empty slices and
// maps, element access), len/regexp/in. Other registered functions (range, sprintf, email, phone, mblen) are
// outside the statement's quantifier.
var wildAtoms = []string{"$", "(A)$", "(B)$", "(S)$", "(K)$", "(L)$", "(P)$", "(Q)$", "(M)$", "(N)$", "(P)$[0]", "(L)$[0]", "(L)$[5]", "(L)$[-1]", "(L)$[(A)$]", "(S)$[(A)$]", "(L)$[0-(A)$]", "(M)$['a']", "(S)$[0]", "nil", "true", "false", "0", "1", "0.5", "-0.5", "-1", "''", "'a'", "'0.5'",
	"len($)", "len((L)$)", "len((P)$)", "len((M)$)", "len((S)$)", "regexp('^a',(S)$)", "regexp('^a')", "regexp('^a',(P)$)", "in($,1,2)", "in((S)$,'a')", "in((L)$,1)", "in((P)$,nil)", "in((L)$,(L)$)", "in((M)$,1,(M)$)", "in((N)$,(N)$)"}
var wildOps = []string{"+", "-", "*", "/", "%", "<", "<=", ">", ">=", "==", "!=", "&&", "||"}

type wild struct {
	A int
	B float64
	S string
	K bool
	L []int
	P *int
	Q *string
	M map[string]int
	N interface{}
}

// wildVals is one drawn assignment of the fields of wild (plus the validated int field X).
type wildVals struct {
	A          int
	B          float64
	S          string
	K          bool
	Lset       bool
	Pset       bool
	P          int
	Qset, Mset bool
	N, X       int
}

func drawWildVals(t *rapid.T) *wildVals {
	v := &wildVals{}
	v.A = rapid.SampledFrom([]int{0, 1, -1, 7}).Draw(t, "A")
	v.B = rapid.SampledFrom([]float64{0, 0.5, -0.5, 3}).Draw(t, "B")
	v.S = rapid.SampledFrom([]string{"", "a", "0.5", "é"}).Draw(t, "S")
	v.K = rapid.Bool().Draw(t, "K")
	v.Lset = rapid.Bool().Draw(t, "Lset")
	v.Pset = rapid.Bool().Draw(t, "Pset")
	if v.Pset {
		v.P = rapid.SampledFrom([]int{0, 1, -3}).Draw(t, "P")
	}
	v.Qset = rapid.Bool().Draw(t, "Qset")
	v.Mset = rapid.Bool().Draw(t, "Mset")
	v.N = rapid.IntRange(0, 5).Draw(t, "N")
	v.X = rapid.SampledFrom([]int{0, 1, 2}).Draw(t, "X")
	return v
}

// buildWild makes a fresh struct type (so the expression is compiled afresh) carrying vd:expr on X.
func buildWild(expr string, v *wildVals) reflect.Value {
	base := reflect.TypeOf(wild{})
	var fields []reflect.StructField
	for i := 0; i < base.NumField(); i++ {
		fields = append(fields, base.Field(i))
	}
	fields = append(fields, reflect.StructField{Name: "X", Type: reflect.TypeOf(0), Tag: reflect.StructTag("vd:" + strconv.Quote(expr))})
	obj := reflect.New(reflect.StructOf(fields))
	e := obj.Elem()
	e.Field(0).SetInt(int64(v.A))
	e.Field(1).SetFloat(v.B)
	e.Field(2).SetString(v.S)
	e.Field(3).SetBool(v.K)
	if v.Lset {
		e.Field(4).Set(reflect.ValueOf([]int{1, 0}))
	}
	if v.Pset {
		x := v.P
		e.Field(5).Set(reflect.ValueOf(&x))
	}
	if v.Qset {
		q := "q"
		e.Field(6).Set(reflect.ValueOf(&q))
	}
	if v.Mset {
		e.Field(7).Set(reflect.ValueOf(map[string]int{"a": 1}))
	}
	switch v.N {
	case 1:
		e.Field(8).Set(reflect.ValueOf([]string{"n"}))
	case 2:
		e.Field(8).Set(reflect.ValueOf(map[string]bool{}))
	case 3:
		e.Field(8).Set(reflect.ValueOf(struct{ F []int }{}))
	case 4:
		e.Field(8).Set(reflect.ValueOf(1.5))
	case 5:
		e.Field(8).Set(reflect.ValueOf((*int)(nil))) // a typed nil pointer inside the interface
		// (a typed nil pointer to a STRUCT inside an interface field makes the struct walker refuse the whole
		// value with "unsupported data: nil" before any expression runs: outside this property, not drawn)
	}
	e.Field(9).SetInt(int64(v.X))
	return obj
}

// wildAccepts validates and reports (accepted, panic text).
func wildAccepts(expr string, v *wildVals) (acc bool, pan string) {
	obj := buildWild(expr, v)
	defer func() {
		if r := recover(); r != nil {
			pan = fmt.Sprintf("%v\n%s", r, debug.Stack())
		}
	}()
	return binding.Validate(obj.Interface()) == nil, ""
}

func drawWildExpr(t *rapid.T, maxAtoms int) (string, int) {
	n := rapid.IntRange(1, maxAtoms).Draw(t, "nAtoms")
	var sb strings.Builder
	prev := ""
	for i := 0; i < n; i++ {
		if i > 0 {
			sb.WriteString(rapid.SampledFrom([]string{"", " "}).Draw(t, "sp") + rapid.SampledFrom(wildOps).Draw(t, "op") + rapid.SampledFrom([]string{"", " "}).Draw(t, "sp"))
		}
		a := rapid.SampledFrom(wildAtoms).Draw(t, "atom")
		if i > 0 && rapid.IntRange(0, 3).Draw(t, "sameAsPrevious") == 0 {
			a = prev // x op x: both operands have the same dynamic type (two slices, two maps, two nil pointers)
		}
		prev = a
		switch rapid.IntRange(0, 5).Draw(t, "wrap") {
		case 0:
			a = "(" + a + ")"
		case 1:
			a = "!" + a
		case 2:
			a = "-(" + a + ")"
		}
		sb.WriteString(a)
	}
	return sb.String(), n
}

func TestC20Wild(t *testing.T) {
	rec := ev.New("wild-nopanic")
	rapid.Check(t, func(t *rapid.T) {
		expr, n := drawWildExpr(t, 5)
		v := drawWildVals(t)
		rec.Case(n >= 2, ev.HashString(expr, fmt.Sprintf("%+v", *v)), "wild")
		if _, pan := wildAccepts(expr, v); pan != "" {
			t.Fatalf("binding.Validate panicked on vd:%q with %+v: %s", expr, *v, pan)
		}
		if rec.WantSample() && n >= 3 {
			rec.Sample(map[string]interface{}{"expr": expr})
		}
	})
}

// Typing of the comparison operators on operands of ANY kind (nil pointers, strings against numbers,
// NaN from a division by zero, slices, booleans). No reference semantics exists for ill-typed
// operands, so the check states only what the documented names of the operators mean (README:
// ">=" is "ge", ">" is "gt", "==" is "eq", "!=" is "ne"), as implications between verdicts:
//
//	a >= b accepted  =>  a > b || a == b accepted      (greater-or-equal means greater, or equal)
//	a <= b accepted  =>  a < b || a == b accepted
//	a >  b accepted  =>  a >= b accepted, a < b rejected
//	a <  b accepted  =>  a <= b accepted
//	a != b accepted  <=> !(a == b) accepted
//
// The converses are NOT demanded (hertz: nil == nil holds but nil >= nil does not), nor is any
// symmetry between a op b and b op' a (string operands are coerced differently on the two sides).
func TestC20Relations(t *testing.T) {
	rec := ev.New("wild-relations")
	operands := append(append([]string(nil), wildAtoms...), "10/$", "(A)$/0", "(A)$%0", "1/(B)$", "(S)$+'a'", "(A)$+(B)$", "-(P)$", "!(K)$", "(P)$+1", "(Q)$", "(N)$")
	rapid.Check(t, func(t *rapid.T) {
		a := "(" + rapid.SampledFrom(operands).Draw(t, "a") + ")"
		b := "(" + rapid.SampledFrom(operands).Draw(t, "b") + ")"
		v := drawWildVals(t)
		rec.Case(true, ev.HashString(a, b, fmt.Sprintf("%+v", *v)), "relations")
		acc := func(e string) bool {
			ok, pan := wildAccepts(e, v)
			if pan != "" {
				t.Fatalf("binding.Validate panicked on vd:%q with %+v: %s", e, *v, pan)
			}
			return ok
		}
		ge, gt, le, lt := acc(a+">="+b), acc(a+">"+b), acc(a+"<="+b), acc(a+"<"+b)
		eq, ne, notEq := acc(a+"=="+b), acc(a+"!="+b), acc("!("+a+"=="+b+")")
		gtOrEq, ltOrEq := acc(a+">"+b+"||"+a+"=="+b), acc(a+"<"+b+"||"+a+"=="+b)
		fail := func(f string, x ...interface{}) {
			t.Fatalf("operands a=%s b=%s with %+v: %s (verdicts: >= %v, > %v, <= %v, < %v, == %v, != %v)", a, b, *v, fmt.Sprintf(f, x...), ge, gt, le, lt, eq, ne)
		}
		if ge && !gtOrEq {
			fail("a>=b is accepted although neither a>b nor a==b is")
		}
		if le && !ltOrEq {
			fail("a<=b is accepted although neither a<b nor a==b is")
		}
		if gt && (!ge || lt) {
			fail("a>b is accepted but a>=b is not, or a<b is too")
		}
		if lt && !le {
			fail("a<b is accepted but a<=b is not")
		}
		if ne != notEq || ne == eq {
			fail("a!=b and !(a==b) disagree")
		}
		if gtOrEq != (gt || eq) || ltOrEq != (lt || eq) {
			fail("|| of two verdicts is not their disjunction")
		}
		// a sum with an absent operand (nil pointer, element beyond the end) does not depend on the side
		// the absent operand stands on
		absent := rapid.SampledFrom([]string{"(P)$", "(L)$[5]", "(L)$[-1]", "nil", "(Q)$"}).Draw(t, "maybeAbsent")
		num := rapid.SampledFrom([]string{"1", "0.5", "(A)$", "0"}).Draw(t, "number")
		rhs := rapid.SampledFrom([]string{"1", "0", "0.5", "(A)$"}).Draw(t, "sumEquals")
		if absent != "(Q)$" { // (a string plus a number is a concatenation, which has sides)
			if l, r := acc("("+absent+")+"+num+"=="+rhs), acc(num+"+("+absent+")=="+rhs); l != r {
				t.Fatalf("%s+%s==%s is %v but %s+%s==%s is %v with %+v", absent, num, rhs, l, num, absent, rhs, r, *v)
			}
		}
		// redundant parentheses around the operand of a unary "!" do not change the verdict, and for the
		// boolean-valued built-ins (regexp, in) "!f(...)" is accepted exactly when "f(...)" is not
		atom := rapid.SampledFrom(wildAtoms).Draw(t, "negatedAtom")
		notBare, notPar, plain := acc("!"+atom), acc("!("+atom+")"), acc(atom)
		if notBare != notPar {
			t.Fatalf("!%s is %v but !(%s) is %v with %+v: redundant parentheses change the verdict", atom, notBare, atom, notPar, *v)
		}
		if (strings.HasPrefix(atom, "regexp(") || strings.HasPrefix(atom, "in(")) && notBare == plain {
			t.Fatalf("%s and !%s are both %v with %+v", atom, atom, plain, *v)
		}
		if rec.WantSample() {
			rec.Sample(map[string]interface{}{"a": a, "b": b})
		}
	})
}

// Saved inputs.
func TestC20Regress(t *testing.T) {
	rec := ev.New("regress")
	v := &values{A: 10, B: 0.5, C: 255, D: 3, S: "ab", T: "12", X: -1}
	for _, e := range []string{"(A)$ % (B)$ >= 5", "$ % 0.5 == 0", "len('é')!=$%-0.5", "1 % (0.25 * 2) == 0", "(A)$ % 0 == 0", "(A)$ / 0 == 0", "7 % 2 == 1 && 7.5 % 2 == 1"} {
		rec.Case(true, ev.HashString(e), "regress")
		if _, pan := validate(e, v); pan != "" {
			ev.Fail(prop, "regress", map[string]string{"expr": e}, pan)
			t.Errorf("vd:%q panicked: %s", e, pan)
		}
	}
	// D21: == / != / in() on two operands of the same uncomparable dynamic type (slice, map) panicked
	type d21 struct {
		L []int `vd:"(L)$==(L)$ || (M)$!=(M)$ || in((L)$,(L)$) || true"`
		M map[string]int
	}
	func() {
		defer func() {
			if r := recover(); r != nil {
				ev.Fail(prop, "regress", map[string]string{"expr": "(L)$==(L)$ || (M)$!=(M)$ || in((L)$,(L)$) || true"}, fmt.Sprint(r))
				t.Errorf("D21: binding.Validate panicked: %v", r)
			}
		}()
		rec.Case(true, ev.HashString("d21"), "regress")
		_ = binding.Validate(&d21{L: []int{1}, M: map[string]int{"a": 1}})
	}()
	if acc, _ := validate("7 % 2 == 1 && 7.5 % 2 == 1 && 2 + 3 * 4 == 14 && 1 - 2 - 3 == -4 && 8 / 4 / 2 == 1 && !(1 > 2) || false && true", v); !acc {
		ev.Fail(prop, "regress", map[string]string{"expr": "precedence smoke"}, "rejected")
		t.Errorf("precedence smoke expression rejected")
	}
}

// ---------------------------------------------------------------------------
// By value or by pointer: binding.Validate accepts both. Small struct types, in particular those that
// consist of one pointer-shaped field (such a value lives directly in the interface word), validated
// by value and through a pointer: never a panic, and unless validation by value is refused outright
// ("can not addr") the two verdicts agree.

func TestC20ByValue(t *testing.T) {
	rec := ev.New("by-value")
	one := 1
	five := 5
	str := "a"
	type fieldSpec struct {
		name string
		typ  reflect.Type
		vals []interface{}
		tags []string
	}
	specs := []fieldSpec{
		{"*int", reflect.TypeOf((*int)(nil)), []interface{}{(*int)(nil), &one, &five}, []string{"$ == nil || $ > 0", "$ > 0", "$ != nil", "!regexp('^a')"}},
		{"*string", reflect.TypeOf((*string)(nil)), []interface{}{(*string)(nil), &str}, []string{"$ == nil || len($) > 0", "regexp('^a')", "$ == 'a'"}},
		{"map", reflect.TypeOf(map[string]int(nil)), []interface{}{map[string]int(nil), map[string]int{"a": 1}}, []string{"len($) >= 0", "$['a'] == 1"}},
		{"[]int", reflect.TypeOf([]int(nil)), []interface{}{[]int(nil), []int{1, 2}}, []string{"len($) >= 0", "len($) > 1"}},
		{"int", reflect.TypeOf(0), []interface{}{0, 7}, []string{"$ > 0", "$ == 0 || $ > 5"}},
		{"string", reflect.TypeOf(""), []interface{}{"", "a"}, []string{"len($) > 0", "regexp('^a')"}},
	}
	shapes := []string{"single", "single-in-struct", "single-in-array", "two-fields"}
	for _, sp := range specs {
		for _, tag := range sp.tags {
			for _, shape := range shapes {
				for vi, val := range sp.vals {
					fields := []reflect.StructField{{Name: "F", Type: sp.typ, Tag: reflect.StructTag("vd:" + strconv.Quote(tag))}}
					if shape == "two-fields" {
						fields = append(fields, reflect.StructField{Name: "G", Type: reflect.TypeOf(0)})
					}
					inner := reflect.New(reflect.StructOf(fields)).Elem()
					inner.Field(0).Set(reflect.ValueOf(val))
					obj := inner
					switch shape {
					case "single-in-struct":
						outer := reflect.New(reflect.StructOf([]reflect.StructField{{Name: "In", Type: inner.Type()}})).Elem()
						outer.Field(0).Set(inner)
						obj = outer
					case "single-in-array":
						outer := reflect.New(reflect.StructOf([]reflect.StructField{{Name: "Arr", Type: reflect.ArrayOf(1, inner.Type())}})).Elem()
						outer.Field(0).Index(0).Set(inner)
						obj = outer
					}
					rec.Case(shape != "two-fields", ev.HashString(sp.name, tag, shape, fmt.Sprint(vi)), "by-value-"+shape, "field-"+sp.name)
					run := func(x interface{}) (verdict string) {
						defer func() {
							if r := recover(); r != nil {
								verdict = fmt.Sprintf("PANIC %v", r)
							}
						}()
						if err := binding.Validate(x); err != nil {
							if strings.Contains(err.Error(), "can not addr") {
								return "refused"
							}
							return "rejected"
						}
						return "accepted"
					}
					byPtr := run(obj.Addr().Interface())
					byVal := run(obj.Interface())
					msg := ""
					if strings.HasPrefix(byPtr, "PANIC") || strings.HasPrefix(byVal, "PANIC") {
						msg = fmt.Sprintf("binding.Validate panicked: by pointer %s, by value %s", byPtr, byVal)
					} else if byVal != "refused" && byVal != byPtr {
						msg = fmt.Sprintf("by pointer the value is %s, by value %s", byPtr, byVal)
					}
					if msg != "" {
						in := map[string]interface{}{"field": sp.name, "tag": tag, "shape": shape, "value_index": vi}
						ev.Fail(prop, "by-value", in, msg)
						t.Errorf("struct{F %s `vd:%q`} (%s, value #%d): %s", sp.name, tag, shape, vi, msg)
					}
				}
			}
		}
	}
}

// ---------------------------------------------------------------------------
// Selectors through pointer members: "(Addr.City)$" where Addr is *Addr (or **Addr), inside structs
// that are themselves reached through pointers, slices and maps, with every combination of the
// pointers on the way being nil. Never a panic; a rule whose own struct is absent is not evaluated
// (the value is accepted), a rule whose struct is present sees nil for what is absent.
type nsAddr struct{ City string }

type nsUser struct {
	Addr *nsAddr
	Name string `vd:"len($)>0 || len((Addr.City)$)>0"`
}

type nsUser2 struct {
	Addr **nsAddr
	Name string `vd:"len($)>0 || len((Addr.City)$)>0"`
}

type nsReq struct {
	User  *nsUser
	Users []*nsUser
	ByKey map[string]*nsUser
	U2    *nsUser2
}

func TestC20NestedSelectors(t *testing.T) {
	rec := ev.New("nested-selectors")
	addr := &nsAddr{City: "x"}
	var nilAddr *nsAddr
	mkUser := func(kind int) *nsUser {
		switch kind {
		case 0:
			return nil
		case 1:
			return &nsUser{} // Addr nil, Name empty: the rule is false
		case 2:
			return &nsUser{Addr: addr} // City set: true
		default:
			return &nsUser{Name: "n"}
		}
	}
	mkUser2 := func(kind int) *nsUser2 {
		switch kind {
		case 0:
			return nil
		case 1:
			return &nsUser2{}
		case 2:
			return &nsUser2{Addr: &nilAddr} // outer pointer set, inner nil
		default:
			return &nsUser2{Addr: &addr}
		}
	}
	for a := 0; a < 4; a++ {
		for b := 0; b < 4; b++ {
			for c := 0; c < 4; c++ {
				for d := 0; d < 4; d++ {
					req := &nsReq{User: mkUser(a), U2: mkUser2(d)}
					if b > 0 {
						req.Users = []*nsUser{mkUser(b - 1), mkUser(b)}
					}
					if c > 0 {
						// (a nil element of a map is refused by the struct walker itself, "unsupported data: nil",
						// before any rule runs: not drawn)
						req.ByKey = map[string]*nsUser{"k": mkUser(c)}
					}
					// a present struct whose rule is false makes the value invalid; absent structs do not
					wantErr := a == 1 || d == 1 || d == 2 || (b > 0 && (b-1 == 1 || b == 1)) || (c == 1)
					rec.Case(true, ev.HashString(fmt.Sprint(a, b, c, d)), "nested")
					verdict := func() (s string) {
						defer func() {
							if r := recover(); r != nil {
								s = fmt.Sprintf("PANIC %v", r)
							}
						}()
						if err := binding.Validate(req); err != nil {
							return "rejected"
						}
						return "accepted"
					}()
					want := map[bool]string{true: "rejected", false: "accepted"}[wantErr]
					if verdict != want {
						msg := fmt.Sprintf("User kind %d, Users kind %d, ByKey kind %d, U2 kind %d: binding.Validate gives %s, want %s", a, b, c, d, verdict, want)
						ev.Fail(prop, "nested-selectors", map[string]int{"user": a, "users": b, "bykey": c, "u2": d}, msg)
						t.Errorf("%s", msg)
					}
				}
			}
		}
	}
	// a map element selector whose key comes from a field: whatever the field holds, evaluation does not panic;
	// a key value that cannot be a key of the map (a slice, a map: what JSON arrays and objects decode to)
	// selects nothing, and nothing equals no string
	for _, key := range []interface{}{"a", "zz", 7, nil, []int{1}, []interface{}{"a"}, map[string]interface{}{"a": 1}} {
		v := &nsLabels{Labels: map[interface{}]string{"a": "x", 7: "seven"}, Key: key}
		rec.Case(true, ev.HashString("map-key", fmt.Sprintf("%T %v", key, key)), "map-selector-key-from-field")
		verdict := func() (s string) {
			defer func() {
				if r := recover(); r != nil {
					s = fmt.Sprintf("PANIC %v", r)
				}
			}()
			if err := binding.Validate(v); err != nil {
				return "rejected"
			}
			return "accepted"
		}()
		want := "rejected"
		if key == "a" {
			want = "accepted"
		}
		if verdict != want {
			msg := fmt.Sprintf("(Labels)$[$]=='x' with Key = %T %v: binding.Validate gives %s, want %s", key, key, verdict, want)
			ev.Fail(prop, "nested-selectors", map[string]string{"key": fmt.Sprintf("%T %v", key, key)}, msg)
			t.Errorf("%s", msg)
		}
	}
}

type nsLabels struct {
	Labels map[interface{}]string
	Key    interface{} `vd:"(Labels)$[$]=='x'"`
}

// ---------------------------------------------------------------------------
// The same verdict through BindAndValidate: rules that sit only in the element structs of a slice or a
// map (the request type itself has no vd tag). binding.Validate on the bound value and BindAndValidate
// on the request must agree.
type bnItem struct {
	N int `json:"n" vd:"$>0"`
}

type bnSlice struct {
	Items []bnItem `json:"items"`
}

type bnPtrSlice struct {
	Items []*bnItem `json:"items"`
}

type bnMap struct {
	ByKey map[string]*bnItem `json:"by_key"`
}

type bnNested struct {
	Rows [][]bnItem `json:"rows"`
}

// the rules sit behind an interface field that the handler fills with a pointer before binding
type bnEnvelope struct {
	Kind    string      `json:"kind"`
	Payload interface{} `json:"payload"`
}

// recursive types: the rule is declared after / before the field that leads back to the type itself
type bnNodeAfter struct {
	Children []*bnNodeAfter `json:"children"`
	N        int            `json:"n" vd:"$>0"`
}

type bnNodeBefore struct {
	N        int             `json:"n" vd:"$>0"`
	Children []*bnNodeBefore `json:"children"`
}

type bnNodeMap struct {
	Children map[string]bnNodeMap `json:"children"`
	N        int                  `json:"n" vd:"$>0"`
}

// mutually recursive pair, validated starting from the type that does not carry the rule
type bnOrder struct {
	Items []bnOrderItem `json:"items"`
}

type bnOrderItem struct {
	N    int       `json:"n" vd:"$>0"`
	Subs []bnOrder `json:"subs"`
}

// places the request decoder does not look at, but the validator does: an embedded non-struct type,
// an unexported field (its rule speaks about an exported neighbour), a struct used as a map key (filled
// in by the handler before binding, as nothing on the wire can name it)
type BnAge int

type bnEmbedInt struct {
	BnAge `json:"n" vd:"$>0"`
}

type bnUnexported struct {
	N     int  `json:"n"`
	guard bool `vd:"(N)$>0"`
}

type bnKey struct {
	N int `vd:"$>0"`
}

type bnKeyMap struct {
	Name string           `json:"name"`
	ByK  map[bnKey]string `json:"-"`
}

// an embedded named slice of structs with rules; a type with a customized decoder that has a rule inside
type BnItems []bnItem

type bnEmbedSlice struct {
	A int `json:"a"`
	BnItems
}

type bnMoney struct {
	Amount int `vd:"$>0"`
}

type bnPrice struct {
	M bnMoney `query:"m"`
}

var moneyBinder = func() binding.Binder {
	bc := binding.NewBindConfig()
	bc.MustRegTypeUnmarshal(reflect.TypeOf(bnMoney{}), func(req *protocol.Request, params param.Params, text string) (reflect.Value, error) {
		n, err := strconv.Atoi(text)
		return reflect.ValueOf(bnMoney{Amount: n}), err
	})
	return binding.NewDefaultBinder(bc)
}()

type bnKeyDeep struct {
	Name string                   `json:"name"`
	L    []map[bnKey]string       `json:"-"`
	M    map[string]map[bnKey]int `json:"-"`
}

type bnInnerUnexported struct {
	Name string `json:"name"`
	In   struct {
		N     int  `json:"n"`
		guard bool `vd:"(N)$>0"`
	} `json:"in"`
}

// a type that refers to itself through a pointer member (a linked list). The rules of such a member are
// copied into the parent when the type is registered, one or two levels deep depending on the field
// order; nothing walks the pointer at run time. Deeper nodes are not checked: known finding D152.
type bnList struct {
	N    int     `json:"n" vd:"$>0"`
	Next *bnList `json:"next"`
}

type bnListLinkFirst struct {
	Next *bnListLinkFirst `json:"next"`
	N    int              `json:"n" vd:"$>0"`
}

func nestList(depth, n int) string {
	s := fmt.Sprintf(`{"n":%d}`, n)
	for i := 1; i < depth; i++ {
		s = fmt.Sprintf(`{"n":1,"next":%s}`, s)
	}
	return s
}

// inD152: the node that breaks the rule sits deeper than the registration-time copy reaches
func inD152(name string, accepted, want bool) bool {
	return strings.HasPrefix(name, "linked list") && strings.HasSuffix(name, "(deep)") && accepted && !want
}

func TestC20BinderNested(t *testing.T) {
	rec := ev.New("binder-nested")
	cases := []struct {
		name string
		mk   func(n int) interface{}
		body func(n int) string
	}{
		{"[]struct", func(n int) interface{} { return &bnSlice{} }, func(n int) string { return fmt.Sprintf(`{"items":[{"n":1},{"n":%d}]}`, n) }},
		{"[]*struct", func(n int) interface{} { return &bnPtrSlice{} }, func(n int) string { return fmt.Sprintf(`{"items":[{"n":%d}]}`, n) }},
		{"map[string]*struct", func(n int) interface{} { return &bnMap{} }, func(n int) string { return fmt.Sprintf(`{"by_key":{"k":{"n":%d}}}`, n) }},
		{"[][]struct", func(n int) interface{} { return &bnNested{} }, func(n int) string { return fmt.Sprintf(`{"rows":[[{"n":%d}]]}`, n) }},
		// the receiver itself is a slice / a map of structs
		{"*[]struct receiver", func(n int) interface{} { return &[]bnItem{} }, func(n int) string { return fmt.Sprintf(`[{"n":1},{"n":%d}]`, n) }},
		{"*map[string]*struct receiver", func(n int) interface{} { return &map[string]*bnItem{} }, func(n int) string { return fmt.Sprintf(`{"k":{"n":%d}}`, n) }},
		{"interface field holding *struct", func(n int) interface{} { return &bnEnvelope{Payload: &bnItem{}} }, func(n int) string { return fmt.Sprintf(`{"kind":"k","payload":{"n":%d}}`, n) }},
		{"recursive []*T, rule after", func(n int) interface{} { return &bnNodeAfter{} }, func(n int) string { return fmt.Sprintf(`{"n":1,"children":[{"n":%d}]}`, n) }},
		{"recursive []*T, rule before", func(n int) interface{} { return &bnNodeBefore{} }, func(n int) string { return fmt.Sprintf(`{"n":1,"children":[{"n":%d}]}`, n) }},
		{"recursive map[string]T", func(n int) interface{} { return &bnNodeMap{} }, func(n int) string { return fmt.Sprintf(`{"n":1,"children":{"k":{"n":%d}}}`, n) }},
		{"mutually recursive pair", func(n int) interface{} { return &bnOrder{} }, func(n int) string { return fmt.Sprintf(`{"items":[{"n":1,"subs":[{"items":[{"n":%d}]}]}]}`, n) }},
		{"linked list *T, rule first, 2 nodes", func(n int) interface{} { return &bnList{} }, func(n int) string { return nestList(2, n) }},
		{"linked list *T, rule first, 3 nodes (deep)", func(n int) interface{} { return &bnList{} }, func(n int) string { return nestList(3, n) }},
		{"linked list *T, rule first, 5 nodes (deep)", func(n int) interface{} { return &bnList{} }, func(n int) string { return nestList(5, n) }},
		{"linked list *T, link first, 1 node", func(n int) interface{} { return &bnListLinkFirst{} }, func(n int) string { return nestList(1, n) }},
		{"linked list *T, link first, 2 nodes (deep)", func(n int) interface{} { return &bnListLinkFirst{} }, func(n int) string { return nestList(2, n) }},
		{"linked list *T, link first, 4 nodes (deep)", func(n int) interface{} { return &bnListLinkFirst{} }, func(n int) string { return nestList(4, n) }},
		{"embedded named slice of structs", func(n int) interface{} { return &bnEmbedSlice{} }, func(n int) string { return fmt.Sprintf(`{"a":1,"BnItems":[{"n":%d}]}`, n) }},
		{"type with a customized decoder (query m)", func(n int) interface{} { return &bnPrice{} }, func(n int) string { return `{}` }},
		{"struct as the key of a map inside a slice", func(n int) interface{} { return &bnKeyDeep{L: []map[bnKey]string{{{N: n}: "v"}}} }, func(n int) string { return `{"name":"x"}` }},
		{"struct as the key of a map inside a map", func(n int) interface{} { return &bnKeyDeep{M: map[string]map[bnKey]int{"a": {{N: n}: 1}}} }, func(n int) string { return `{"name":"x"}` }},
		{"embedded non-struct type", func(n int) interface{} { return &bnEmbedInt{} }, func(n int) string { return fmt.Sprintf(`{"n":%d}`, n) }},
		{"unexported field with a rule", func(n int) interface{} { return &bnUnexported{} }, func(n int) string { return fmt.Sprintf(`{"n":%d}`, n) }},
		{"unexported field with a rule, in a nested struct", func(n int) interface{} { return &bnInnerUnexported{} }, func(n int) string { return fmt.Sprintf(`{"name":"x","in":{"n":%d}}`, n) }},
		{"struct as map key", func(n int) interface{} { return &bnKeyMap{ByK: map[bnKey]string{{N: n}: "v"}} }, func(n int) string { return `{"name":"x"}` }},
	}
	var knownD152 int64
	defer func() {
		rec.Excluded("D152-rule-deeper-than-the-registration-time-copy-of-a-self-referential-pointer-member", knownD152)
	}()
	for _, c := range cases {
		for _, n := range []int{-1, 0, 1, 7} {
			body := c.body(n)
			wire := fmt.Sprintf("POST /x?m=%d HTTP/1.1\r\nHost: h\r\nContent-Type: application/json\r\nContent-Length: %d\r\n\r\n%s", n, len(body), body)
			var r protocol.Request
			if err := req.Read(&r, mock.NewZeroCopyReader(wire)); err != nil {
				t.Fatalf("harness: %v", err)
			}
			rec.Case(true, ev.HashString(c.name, fmt.Sprint(n)), "binder-nested-"+c.name)
			obj := c.mk(n)
			binder := binding.DefaultBinder()
			if strings.HasPrefix(c.name, "type with a customized decoder") {
				binder = moneyBinder
			}
			errBV := binder.BindAndValidate(&r, obj, nil)
			obj2 := c.mk(n)
			if err := binder.Bind(&r, obj2, nil); err != nil {
				t.Fatalf("harness: Bind: %v", err)
			}
			errV := binding.Validate(obj2)
			if (errBV == nil) != (errV == nil) {
				msg := fmt.Sprintf("%s with n=%d: BindAndValidate returns %v, binding.Validate on the same bound value returns %v", c.name, n, errBV, errV)
				ev.Fail(prop, "binder-nested", map[string]interface{}{"type": c.name, "n": n}, msg)
				t.Errorf("%s", msg)
			}
			if want := n > 0; (errV == nil) != want {
				if inD152(c.name, errV == nil, want) && ev.ReportKnown(prop, "D152") {
					knownD152++
					continue
				}
				msg := fmt.Sprintf("%s with n=%d: binding.Validate returns %v, the rule $>0 says accepted=%v", c.name, n, errV, want)
				ev.Fail(prop, "binder-nested", map[string]interface{}{"type": c.name, "n": n}, msg)
				t.Errorf("%s", msg)
			}
		}
	}
}
