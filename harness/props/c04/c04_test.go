package c04

import (
	"bufio"
	"bytes"
	"context"
	"errors"
	"fmt"
	"io"
	"net/http"
	"os"
	"strings"
	"testing"

	"github.com/cloudwego/hertz/pkg/app"
	"github.com/cloudwego/hertz/pkg/app/server"
	"github.com/cloudwego/hertz/pkg/protocol/http1/resp"
	"pgregory.net/rapid"

	"verifharness/ev"
	"verifharness/gen"
	"verifharness/sconn"
	"verifharness/wire"
)

const prop = "C04"

func TestMain(m *testing.M) {
	code := m.Run()
	ev.Flush()
	os.Exit(code)
}

const (
	mNone = iota
	mSetBodyString
	mSetBody
	mWrite
	mAppendBody
	mStreamKnown
	mStreamUnknown
	mStreamLimited
	mChunkedWriter
	nModes
)

var modeNames = []string{"no-body", "SetBodyString", "SetBody", "ctx.Write", "AppendBody", "SetBodyStream(len)", "SetBodyStream(-1)", "SetBodyStream(LimitedReader,-1)", "chunked-writer"}

// Prog is one handler program.
type Prog struct {
	Status          int       `json:"status"`
	StatusAfterBody bool      `json:"status_after_body"`
	Headers         []wire.KV `json:"headers"`
	HeaderAPI       int       `json:"header_api"`
	Mode            int       `json:"mode"`
	ModeName        string    `json:"mode_name"`
	Size            int       `json:"size"`
	Pieces          []int     `json:"pieces"`
	Flush           []bool    `json:"flush,omitempty"`
	Trailers        []wire.KV `json:"trailers,omitempty"`
	Close           bool      `json:"close,omitempty"`
	ResetFirst      bool      `json:"response_reset_first,omitempty"`      // the handler starts with ctx.Response.Reset() (what AbortWithMsg / NotFound do)
	DelHeader       string    `json:"del_header,omitempty"`                // the handler ends with Response.Header.Del(<framing header>), as a proxy stripping hop-by-hop fields does
	EmptyWrites     bool      `json:"empty_writes,omitempty"`              // ctx.Write / chunked writer: a zero-length Write before every real one (an io.Writer accepts those)
	SetCLHeader     bool      `json:"set_content_length_header,omitempty"` // after SetBodyStream(r, -1) the handler sets "Content-Length: <true length>" through the header API (a proxy copying the upstream headers)
	AbortAfter      bool      `json:"abort_after_writes,omitempty"`        // chunked writer: after the writes the handler runs into an error and calls ctx.AbortWithMsg (the header block has left by then)
	ZeroReads       int       `json:"zero_reads_every,omitempty"`          // stream modes: every n-th Read of the body stream returns (0, nil)
	CloseFails      bool      `json:"stream_close_fails,omitempty"`        // stream modes: the stream has a Close method, which returns an error
	LimitSlack      int       `json:"limited_reader_slack,omitempty"`      // LimitedReader mode: N exceeds the bytes the source holds by this much (an upper bound, not a length)
	EarlierStream   int       `json:"earlier_stream_len,omitempty"`        // before the pre-status: SetBodyStream of this many bytes under the initial 200 (a body the handler then replaces)
	PreStatus       int       `json:"pre_status,omitempty"`                // a status the handler sets first and replaces after the body was set (0 = none)
	Salt            byte      `json:"salt"`
	Flavor          int       `json:"flavor"`
	body            []byte
}

// Req is one request of the connection.
type Req struct {
	Method    string `json:"method"`
	Proto     string `json:"proto"`
	Close     bool   `json:"close,omitempty"`
	KeepAlive bool   `json:"keep_alive,omitempty"` // HTTP/1.0 keep-alive
}

type Case struct {
	Reqs  []Req  `json:"requests"`
	Progs []Prog `json:"programs"`
	// NoRoute: no route is registered; the program handler is the engine's NoRoute handler (a custom 404 page
	// or a catch-all application), and the engine's own error text must not be added to what it wrote
	NoRoute bool `json:"handler_is_no_route,omitempty"`
}

type pieceReader struct {
	data   []byte
	pieces []int
	i      int
	// zeroEvery > 0: every zeroEvery-th Read returns (0, nil), which io.Reader allows (io.Pipe does it for a
	// zero-length Write on the other side)
	zeroEvery int
	calls     int
}

// closingReader: a stream whose Close fails after everything has been delivered (releasing the source failed;
// the message itself is complete)
type closingReader struct{ *pieceReader }

func (c closingReader) Close() error { return errors.New("releasing the source failed") }

func (p *pieceReader) Read(b []byte) (int, error) {
	p.calls++
	if p.zeroEvery > 0 && p.calls%p.zeroEvery == 1 && p.calls < 40 {
		return 0, nil
	}
	if len(p.data) == 0 {
		return 0, io.EOF
	}
	n := p.pieces[p.i%len(p.pieces)]
	p.i++
	if n > len(b) {
		n = len(b)
	}
	if n > len(p.data) {
		n = len(p.data)
	}
	if n == 0 {
		n = 1
	}
	copy(b, p.data[:n])
	p.data = p.data[n:]
	return n, nil
}

var (
	curCase *Case
	curIdx  int
	srvInst *sconn.Server
)

func handler(c context.Context, ctx *app.RequestContext) {
	i := curIdx
	curIdx++
	if curCase == nil || i >= len(curCase.Progs) {
		ctx.SetStatusCode(500)
		return
	}
	p := &curCase.Progs[i]
	if p.ResetFirst {
		ctx.Response.Reset()
	}
	if p.EarlierStream > 0 {
		ctx.SetBodyStream(&pieceReader{data: bytes.Repeat([]byte("e"), p.EarlierStream), pieces: []int{7}}, p.EarlierStream)
	}
	if p.PreStatus != 0 {
		ctx.SetStatusCode(p.PreStatus)
	} else if !p.StatusAfterBody {
		ctx.SetStatusCode(p.Status)
	}
	for hi, h := range p.Headers {
		switch (p.HeaderAPI + hi) % 3 {
		case 0:
			ctx.Header(h.K, h.V)
		case 1:
			ctx.Response.Header.Set(h.K, h.V)
		case 2:
			ctx.Response.Header.Add(h.K, h.V)
		}
	}
	for _, t := range p.Trailers {
		ctx.Response.Header.Trailer().Set(t.K, t.V) //nolint:errcheck
	}
	if p.Close {
		ctx.SetConnectionClose()
	}
	body := p.body
	pieces := p.Pieces
	if len(pieces) == 0 {
		pieces = []int{len(body) + 1}
	}
	switch p.Mode {
	case mSetBodyString:
		ctx.SetBodyString(string(body))
	case mSetBody:
		ctx.Response.SetBody(body)
	case mWrite, mAppendBody:
		rest := body
		for k := 0; len(rest) > 0; k++ {
			n := pieces[k%len(pieces)]
			if n > len(rest) || n <= 0 {
				n = len(rest)
			}
			if p.Mode == mWrite {
				if p.EmptyWrites {
					ctx.Write(nil) //nolint:errcheck
				}
				ctx.Write(rest[:n]) //nolint:errcheck
			} else {
				ctx.Response.AppendBody(rest[:n])
			}
			rest = rest[n:]
		}
	case mStreamKnown, mStreamUnknown, mStreamLimited:
		var rd io.Reader = &pieceReader{data: body, pieces: pieces, zeroEvery: p.ZeroReads}
		if p.CloseFails {
			rd = closingReader{rd.(*pieceReader)}
		}
		switch p.Mode {
		case mStreamKnown:
			ctx.SetBodyStream(rd, len(body))
		case mStreamUnknown:
			ctx.SetBodyStream(rd, -1)
		case mStreamLimited:
			ctx.SetBodyStream(&io.LimitedReader{R: rd, N: int64(len(body) + p.LimitSlack)}, -1)
		}
	case mChunkedWriter:
		ctx.Response.HijackWriter(resp.NewChunkedBodyWriter(&ctx.Response, ctx.GetWriter()))
		rest := body
		for k := 0; len(rest) > 0; k++ {
			n := pieces[k%len(pieces)]
			if n > len(rest) || n <= 0 {
				n = len(rest)
			}
			if p.EmptyWrites {
				ctx.Write([]byte{}) //nolint:errcheck
			}
			ctx.Write(rest[:n]) //nolint:errcheck
			rest = rest[n:]
			if len(p.Flush) > 0 && p.Flush[k%len(p.Flush)] {
				ctx.Flush() //nolint:errcheck
			}
		}
		if p.AbortAfter {
			ctx.AbortWithMsg("the handler failed after it had started to stream", 500)
		}
	}
	if p.SetCLHeader && (p.Mode == mStreamUnknown || p.Mode == mStreamLimited) {
		ctx.Response.Header.Set("Content-Length", fmt.Sprint(len(body)))
	}
	if p.StatusAfterBody || p.PreStatus != 0 {
		ctx.SetStatusCode(p.Status)
	}
	if p.DelHeader != "" {
		ctx.Response.Header.Del(p.DelHeader)
	}
}

func getServer() *sconn.Server {
	if curCase != nil && curCase.NoRoute {
		if srvNoRoute == nil {
			srvNoRoute = sconn.NewServer(func(h *server.Hertz) { h.NoRoute(handler) })
		}
		return srvNoRoute
	}
	if srvInst == nil {
		srvInst = sconn.NewServer(func(h *server.Hertz) { h.Any("/*path", handler) })
	}
	return srvInst
}

var srvNoRoute *sconn.Server

func encodeReqs(c *Case) []byte {
	var b []byte
	for i, r := range c.Reqs {
		b = append(b, fmt.Sprintf("%s /r%d %s\r\nHost: example.com\r\n", r.Method, i, r.Proto)...)
		if r.Close && r.Proto == "HTTP/1.1" {
			b = append(b, "Connection: close\r\n"...)
		}
		if r.KeepAlive {
			b = append(b, "Connection: keep-alive\r\n"...)
		}
		if r.Method == "POST" || r.Method == "PUT" {
			b = append(b, "Content-Length: 3\r\n\r\nabc"...)
		} else {
			b = append(b, "\r\n"...)
		}
	}
	return b
}

// served returns how many requests must be answered: up to and including the
// first one after which the connection ends.
func served(c *Case) int {
	for i, r := range c.Reqs {
		if r.Close || c.Progs[i].Close || (r.Proto == "HTTP/1.0" && !r.KeepAlive) {
			return i + 1
		}
	}
	return len(c.Reqs)
}

func expectBody(r Req, p *Prog) []byte {
	if wire.Bodiless(r.Method, p.Status) || p.Mode == mNone {
		return nil
	}
	return p.body
}

// Check runs the case and returns "" or the violation.
func Check(c *Case) string {
	for i := range c.Progs {
		p := &c.Progs[i]
		p.body = gen.Body(p.Size, i, p.Salt, p.Flavor)
	}
	curCase, curIdx = c, 0
	res := getServer().Serve(sconn.New([][]byte{encodeReqs(c)}, sconn.EOF))
	curCase = nil
	if res.Panic != nil {
		return fmt.Sprintf("panic: %v\n%s", res.Panic, res.Stack)
	}
	out := res.Output
	n := served(c)
	// decoder 1: strict reader
	pos := 0
	for i := 0; i < n; i++ {
		r, p := c.Reqs[i], &c.Progs[i]
		pr, err := wire.ReadResponse(out, pos, r.Method)
		if err != nil {
			return fmt.Sprintf("response #%d (%s, status %d, %s, size %d): strict reader: %v\nbytes from %d: %s", i, r.Method, p.Status, modeNames[p.Mode], p.Size, err, pos, shortAt(out, pos))
		}
		if pr.Framing == wire.FrUntilClose && i != n-1 {
			return fmt.Sprintf("response #%d is delimited by connection close although more responses follow", i)
		}
		if msg := compare(i, r, p, pr.Status, pr.Headers, pr.Body, pr.Trailers, pr.Framing == wire.FrChunked); msg != "" {
			return "strict reader: " + msg
		}
		pos = pr.End
	}
	if pos != len(out) {
		return fmt.Sprintf("%d stray bytes after the last expected response (%d responses expected): %s", len(out)-pos, n, shortAt(out, pos))
	}
	// decoder 2: net/http
	br := bufio.NewReader(bytes.NewReader(out))
	for i := 0; i < n; i++ {
		r, p := c.Reqs[i], &c.Progs[i]
		hr, err := http.ReadResponse(br, &http.Request{Method: r.Method})
		if err != nil {
			return fmt.Sprintf("response #%d (%s, status %d, %s): net/http.ReadResponse: %v", i, r.Method, p.Status, modeNames[p.Mode], err)
		}
		body, err := io.ReadAll(hr.Body)
		hr.Body.Close()
		if err != nil {
			return fmt.Sprintf("response #%d (%s, status %d, %s, size %d): net/http body: %v", i, r.Method, p.Status, modeNames[p.Mode], p.Size, err)
		}
		var hs []wire.KV
		for k, vs := range hr.Header {
			for _, v := range vs {
				hs = append(hs, wire.KV{K: k, V: v})
			}
		}
		var tr []wire.KV
		for k, vs := range hr.Trailer {
			for _, v := range vs {
				tr = append(tr, wire.KV{K: k, V: v})
			}
		}
		chunked := len(hr.TransferEncoding) > 0 && hr.TransferEncoding[0] == "chunked"
		if msg := compare(i, r, p, hr.StatusCode, hs, body, tr, chunked); msg != "" {
			return "net/http: " + msg
		}
	}
	if rest, _ := io.ReadAll(br); len(rest) != 0 {
		return fmt.Sprintf("net/http: %d stray bytes after the last response", len(rest))
	}
	if n < len(c.Reqs) && !res.Closed {
		return fmt.Sprintf("request #%d ended the connection but the server did not close it", n-1)
	}
	return ""
}

func compare(i int, r Req, p *Prog, status int, hs []wire.KV, body []byte, trailers []wire.KV, chunked bool) string {
	id := fmt.Sprintf("response #%d (%s %s, program status %d, %s, size %d)", i, r.Method, r.Proto, p.Status, modeNames[p.Mode], p.Size)
	if status != p.Status {
		return fmt.Sprintf("%s: decoded status %d", id, status)
	}
	// "framing matching the bytes sent": a 1xx or 204 response has no body and carries neither framing field (RFC
	// 7230 3.3.1, 3.3.2: MUST NOT); a client that believes a stray Transfer-Encoding: chunked waits for a chunk
	if (status/100 == 1 || status == 204) && !p.SetCLHeader {
		if cl, te := wire.Get(hs, "Content-Length"), wire.Get(hs, "Transfer-Encoding"); len(cl) > 0 || len(te) > 0 {
			return fmt.Sprintf("%s: a %d response announces a body it does not have: Content-Length %q, Transfer-Encoding %q", id, status, cl, te)
		}
	}
	want := expectBody(r, p)
	if !bytes.Equal(body, want) {
		d := 0
		for d < len(body) && d < len(want) && body[d] == want[d] {
			d++
		}
		return fmt.Sprintf("%s: decoded body has %d bytes, want %d (first difference at %d)", id, len(body), len(want), d)
	}
	for _, h := range p.Headers {
		found := false
		for _, v := range wire.Get(hs, h.K) {
			if v == strings.Trim(h.V, " \t") {
				found = true
			}
		}
		if !found {
			return fmt.Sprintf("%s: header %s: %q set by the handler is missing; got %q", id, h.K, h.V, wire.Get(hs, h.K))
		}
	}
	if chunked && !wire.Bodiless(r.Method, p.Status) {
		for _, t := range p.Trailers {
			found := false
			for _, v := range wire.Get(trailers, t.K) {
				if v == t.V {
					found = true
				}
			}
			if !found {
				return fmt.Sprintf("%s: chunked response lacks trailer %s: %q; got %q", id, t.K, t.V, trailers)
			}
		}
	}
	return ""
}

func shortAt(b []byte, pos int) string {
	e := pos + 300
	if e > len(b) {
		e = len(b)
	}
	return fmt.Sprintf("%q", b[pos:e])
}

var statuses = []int{100, 101, 102, 199, 200, 200, 200, 201, 204, 205, 206, 301, 304, 400, 404, 500, 599}

func genCase(t *rapid.T) *Case {
	k := rapid.IntRange(1, 5).Draw(t, "nReqs")
	c := &Case{}
	for i := 0; i < k; i++ {
		r := Req{Method: rapid.SampledFrom([]string{"GET", "GET", "HEAD", "POST", "PUT", "OPTIONS"}).Draw(t, "method"), Proto: "HTTP/1.1"}
		if rapid.IntRange(0, 7).Draw(t, "http10") == 0 {
			r.Proto = "HTTP/1.0"
			r.KeepAlive = rapid.Bool().Draw(t, "keepAlive")
		} else if rapid.IntRange(0, 9).Draw(t, "reqClose") == 0 {
			r.Close = true
		}
		p := Prog{Status: rapid.SampledFrom(statuses).Draw(t, "status"), StatusAfterBody: rapid.Bool().Draw(t, "statusAfterBody")}
		p.Mode = rapid.IntRange(0, nModes-1).Draw(t, "mode")
		lateBodiless := false
		if p.Mode == mChunkedWriter && wire.Bodiless(r.Method, p.Status) {
			// documented exclusion (the property's quantifier): the hijacked chunked writer is not INSTALLED on a response
			// that may not have a body. What remains inside: the writer is installed while the response is a 200 to a
			// GET/POST, nothing is written, and the status becomes 204/304/1xx afterwards (ctx.AbortWithStatus(304), a
			// conditional-request check behind the streaming set-up).
			if r.Method == "HEAD" || rapid.Bool().Draw(t, "writerExcludedNotLate") {
				p.Mode = rapid.IntRange(0, mChunkedWriter-1).Draw(t, "modeInsteadOfChunkedWriter")
			} else {
				lateBodiless = true
			}
		}
		if p.Mode == mChunkedWriter {
			p.StatusAfterBody = lateBodiless // otherwise the header goes out with the first Write
		}
		p.ModeName = modeNames[p.Mode]
		if p.Mode != mNone {
			p.Size = gen.BodyLen(t, "size", false)
		}
		if lateBodiless {
			p.Size = 0 // nothing written: the header block has not left when the status changes
		}
		p.Salt = byte(rapid.IntRange(0, 255).Draw(t, "salt"))
		p.Flavor = rapid.IntRange(0, 8).Draw(t, "flavor")
		np := rapid.IntRange(1, 4).Draw(t, "nPieces")
		for j := 0; j < np; j++ {
			p.Pieces = append(p.Pieces, rapid.SampledFrom([]int{1, 2, 7, 100, 1000, 4095, 4096, 4097, 8192, 20000, 1 << 20}).Draw(t, "piece"))
			p.Flush = append(p.Flush, rapid.Bool().Draw(t, "flush"))
		}
		if p.Size > 4000 && p.Pieces[0] < 7 && (p.Mode == mChunkedWriter || p.Mode == mWrite || p.Mode == mAppendBody) {
			p.Pieces[0] = 100 // keep the number of writes bounded
		}
		nh := rapid.IntRange(0, 4).Draw(t, "nHeaders")
		p.HeaderAPI = rapid.IntRange(0, 2).Draw(t, "headerAPI")
		for j := 0; j < nh; j++ {
			v, _ := gen.HeaderValue(t, false)
			v = strings.Trim(v, " \t")
			if v == "" {
				v = "e" // setting an empty value is a deletion in this API family, not a header
			}
			p.Headers = append(p.Headers, wire.KV{K: fmt.Sprintf("X-H%d", j), V: v})
		}
		if rapid.IntRange(0, 3).Draw(t, "trailers") == 0 && (p.Mode == mStreamUnknown || p.Mode == mChunkedWriter) {
			p.Trailers = []wire.KV{{K: "X-Trailer-A", V: "tv"}}
		}
		if rapid.IntRange(0, 12).Draw(t, "progClose") == 0 {
			p.Close = true
		}
		p.ResetFirst = rapid.IntRange(0, 3).Draw(t, "responseResetFirst") == 0
		p.EmptyWrites = (p.Mode == mChunkedWriter || p.Mode == mWrite) && rapid.IntRange(0, 2).Draw(t, "emptyWrites") == 0
		if p.Mode == mStreamKnown || p.Mode == mStreamUnknown || p.Mode == mStreamLimited {
			if rapid.IntRange(0, 4).Draw(t, "zeroReads") == 0 {
				p.ZeroReads = rapid.SampledFrom([]int{2, 3, 7}).Draw(t, "zeroReadsEvery")
			}
			p.CloseFails = rapid.IntRange(0, 4).Draw(t, "streamCloseFails") == 0
			if p.Mode == mStreamLimited && rapid.IntRange(0, 3).Draw(t, "limitedReaderSlack") == 0 {
				p.LimitSlack = rapid.SampledFrom([]int{1, 4096, 1 << 20}).Draw(t, "limitSlack")
			}
		}
		p.AbortAfter = p.Mode == mChunkedWriter && p.Size > 0 && !p.StatusAfterBody && rapid.IntRange(0, 5).Draw(t, "abortAfterWrites") == 0
		p.SetCLHeader = (p.Mode == mStreamUnknown || p.Mode == mStreamLimited) && len(p.Trailers) == 0 && rapid.IntRange(0, 2).Draw(t, "setContentLengthHeader") == 0
		if p.Mode != mChunkedWriter && rapid.IntRange(0, 5).Draw(t, "preStatus") == 0 {
			p.PreStatus = rapid.SampledFrom([]int{204, 304, 200, 404}).Draw(t, "preStatusValue")
		}
		if (p.PreStatus == 204 || p.PreStatus == 304) && (p.Mode == mStreamKnown || p.Mode == mStreamUnknown || p.Mode == mStreamLimited) && rapid.Bool().Draw(t, "earlierStream") {
			p.EarlierStream = rapid.SampledFrom([]int{3, 10, 5000}).Draw(t, "earlierStreamLen")
		}
		if p.Mode != mChunkedWriter && rapid.IntRange(0, 3).Draw(t, "delFramingHeader") == 0 {
			p.DelHeader = rapid.SampledFrom([]string{"Transfer-Encoding", "Content-Length", "transfer-encoding"}).Draw(t, "delHeader")
		}
		c.Reqs = append(c.Reqs, r)
		c.Progs = append(c.Progs, p)
	}
	c.NoRoute = rapid.IntRange(0, 4).Draw(t, "handlerIsNoRoute") == 0
	if c.NoRoute {
		for i := range c.Progs {
			// (a NoRoute handler that leaves the status at 404 and sets no body at all gets the engine's default
			// text: documented; such programs answer 410 instead)
			if p := &c.Progs[i]; p.Status == 404 && p.Mode != mChunkedWriter && (p.Size == 0 || p.Mode == mNone) {
				p.Status = 410
			}
		}
	}
	return c
}

func classify(c *Case) (bool, []string) {
	var cls []string
	nt := false
	n := served(c)
	for i := 0; i < n; i++ {
		r, p := c.Reqs[i], c.Progs[i]
		cls = append(cls, "mode-"+modeNames[p.Mode], fmt.Sprintf("status-%dxx", p.Status/100))
		bl := wire.Bodiless(r.Method, p.Status)
		if bl && p.Mode != mNone && p.Size > 0 {
			nt = true
			cls = append(cls, "body-set-on-bodiless")
		}
		if p.Mode >= mStreamKnown {
			nt = true
		}
		if i < n-1 && p.Mode >= mStreamUnknown {
			cls = append(cls, "non-CL-before-last")
		}
		if r.Method == "HEAD" {
			cls = append(cls, "HEAD")
		}
		if r.Proto == "HTTP/1.0" {
			cls = append(cls, "http10")
		}
		switch {
		case p.Size == 0:
		case p.Size < 4096:
			cls = append(cls, "size-lt4k")
		case p.Size <= 8192:
			cls = append(cls, "size-4k..8k")
		default:
			cls = append(cls, "size-gt8k")
		}
	}
	if n >= 2 {
		cls = append(cls, "sequence")
	}
	seen := map[string]bool{}
	var out []string
	for _, x := range cls {
		if !seen[x] {
			seen[x] = true
			out = append(out, x)
		}
	}
	return nt, out
}

func TestC04Programs(t *testing.T) {
	rec := ev.New("programs")
	rapid.Check(t, func(t *rapid.T) {
		c := genCase(t)
		nt, cls := classify(c)
		rec.Case(nt, ev.HashString(fmt.Sprintf("%+v", *c)), cls...)
		if msg := Check(c); msg != "" {
			if inD120(c) && ev.ReportKnown(prop, "D120") {
				rec.Excluded("D120-limited-reader-whose-limit-exceeds-the-source", 1)
				return
			}
			if inD92(c) && ev.ReportKnown(prop, "D92") {
				rec.Excluded("D92-response-replaced-after-the-chunked-writer-has-sent-the-header", 1)
				return
			}
			if inD48(c) && ev.ReportKnown(prop, "D48") {
				rec.Excluded("D48-bodiless-status-while-the-body-is-set-then-a-status-with-body", 1)
				return
			}
			t.Fatalf("%s\ncase: %+v", msg, *c)
		}
		if nt && rec.WantSample() {
			rec.Sample(c)
		}
	})
}

// inD48: known finding D48. A handler sets a status that cannot have a body (1xx, 204, 304), then the
// body, then a status that has one: the framing was decided against the first status and the body is
// lost. Cases of this shape are run; when one fails, it is reported as the known finding.
func inD48(c *Case) bool {
	for i, p := range c.Progs {
		if (p.PreStatus == 204 || p.PreStatus == 304) && p.Mode != mNone && !wire.Bodiless(c.Reqs[i].Method, p.Status) {
			return true
		}
	}
	return false
}

// inD120: known finding D120. SetBodyStream(io.LimitReader(src, n), -1) with a source that ends before n: hertz
// announces n as Content-Length (LimitedReader.N is read as the length; it is an upper bound), sends what the
// source had and drops the connection.
func inD120(c *Case) bool {
	for _, p := range c.Progs {
		if p.LimitSlack > 0 {
			return true
		}
	}
	return false
}

// inD92: known finding D92. The handler streams through the chunked body writer and, after the header
// block and some chunks have left, replaces the response (ctx.AbortWithMsg, NotFound: Response.Reset
// drops the writer without ending its message); a second response is then written inside the chunked
// body of the first. Cases of this shape are run; when one fails, it is reported as the known finding.
func inD92(c *Case) bool {
	for _, p := range c.Progs {
		if p.AbortAfter {
			return true
		}
	}
	return false
}

// TestC04Grid enumerates status x mode x method x size class exhaustively (single response + a follow-up).
func TestC04Grid(t *testing.T) {
	rec := ev.New("grid")
	shard, nshards := ev.Shard()
	sizes := []int{0, 1, 4095, 4096, 4097, 8192, 8193, 70000}
	var global, evals, nontriv int64
	fails := 0
	for _, st := range []int{100, 101, 199, 200, 204, 205, 206, 304, 404, 500} {
		for mode := 0; mode < nModes; mode++ {
			for _, method := range []string{"GET", "HEAD", "POST"} {
				for _, proto := range []string{"HTTP/1.1", "HTTP/1.0"} {
					for _, size := range sizes {
						for _, after := range []bool{false, true} {
							// chunked writer: installed on a response that may have a body (the property's documented exclusion);
							// status after the body phase only in the shape "installed under 200, nothing written, then 204/304/1xx"
							if mode == mChunkedWriter && (method == "HEAD" || after != wire.Bodiless(method, st) || (after && size != 0)) {
								continue
							}
							if mode == mNone && size != 0 {
								continue
							}
							global++
							if global%int64(nshards) != int64(shard) {
								continue
							}
							c := &Case{
								Reqs: []Req{{Method: method, Proto: proto, KeepAlive: proto == "HTTP/1.0"}, {Method: "GET", Proto: "HTTP/1.1"}},
								Progs: []Prog{{Status: st, StatusAfterBody: after, Mode: mode, ModeName: modeNames[mode], Size: size, Pieces: []int{1000, 4096}, Flush: []bool{true, false}, Headers: []wire.KV{{K: "X-H0", V: "v"}}},
									{Status: 200, Mode: mSetBodyString, ModeName: modeNames[mSetBodyString], Size: 5}},
							}
							if mode == mStreamUnknown || mode == mChunkedWriter {
								c.Progs[0].Trailers = []wire.KV{{K: "X-Trailer-A", V: "tv"}}
							}
							evals++
							if nt, _ := classify(c); nt {
								nontriv++
							}
							if msg := Check(c); msg != "" {
								fails++
								ev.Fail(prop, "grid", c, msg)
								t.Errorf("%s", msg)
								if fails > 6 {
									rec.Exact(evals, nontriv)
									return
								}
							}
						}
					}
				}
			}
		}
	}
	rec.Exact(evals, nontriv)
	rec.Exhaustive("status {100,101,199,200,204,205,206,304,404,500} x 9 body modes x {GET,HEAD,POST} x {HTTP/1.1, HTTP/1.0 keep-alive} x size {0,1,4095,4096,4097,8192,8193,70000} x status set before/after the body, each followed by a second response on the same connection")
}

func TestC04Replay(t *testing.T) {
	f := ev.ReplayFile()
	if f == "" {
		t.Skip("no replay file")
	}
	var c Case
	if err := ev.LoadReplay(f, &c); err != nil {
		t.Fatal(err)
	}
	if msg := Check(&c); msg != "" {
		ev.Fail(prop, "replay", &c, msg)
		t.Fatal(msg)
	}
}
