// Package wire is an independent HTTP/1.1 serialiser and a pair of strict
// readers written from RFC 7230/7231. It shares no code with hertz and is the
// oracle side of the connection-level checks.
package wire

import (
	"bytes"
	"errors"
	"fmt"
	"sort"
	"strconv"
	"strings"
)

// KV is one header field as written on the wire.
type KV struct {
	K string `json:"k"`
	V string `json:"v"`
}

type FramingKind int

const (
	FrNone FramingKind = iota
	FrCL
	FrChunked
	FrUntilClose // responses only
)

func (f FramingKind) String() string {
	return [...]string{"none", "content-length", "chunked", "until-close"}[f]
}

// Req is an abstract request. Lines is the complete header block as written
// (including Host and framing fields, in wire order); the other fields say
// what the message means.
type Req struct {
	Method  string      `json:"method"`
	Target  string      `json:"target"`
	Proto   string      `json:"proto"`
	Lines   []KV        `json:"lines"` // raw: value may contain obs-fold ("\r\n " / "\r\n\t")
	Framing FramingKind `json:"framing"`
	Body    []byte      `json:"-"`
	BodyLen int         `json:"body_len"`
	// chunked details
	ChunkSizes   []int `json:"chunk_sizes,omitempty"`
	HexUpper     bool  `json:"hex_upper,omitempty"`
	LeadingZeros int   `json:"leading_zeros,omitempty"`
	ChunkExt     string `json:"chunk_ext,omitempty"`
	Trailers     []KV  `json:"trailers,omitempty"`
	Expect100    bool  `json:"expect100,omitempty"`
	Close        bool  `json:"close,omitempty"` // connection ends after this request
}

// Marks are byte offsets inside an encoded stream.
type Marks struct {
	Start       int   // first byte of the message
	HeaderEnd   int   // first byte after the blank line
	End         int   // first byte after the message
	ChunkStarts []int // offset of each chunk-size line
	BodyStart   int
}

func hexLen(n int, upper bool, zeros int) string {
	s := strconv.FormatInt(int64(n), 16)
	if upper {
		s = strings.ToUpper(s)
	}
	return strings.Repeat("0", zeros) + s
}

// EncodeBody writes the framed body (no headers).
func encodeChunked(dst []byte, body []byte, sizes []int, upper bool, zeros int, ext string, trailers []KV, base int, m *Marks) []byte {
	pos := 0
	for _, sz := range sizes {
		if sz <= 0 {
			continue
		}
		if pos+sz > len(body) {
			sz = len(body) - pos
		}
		if sz == 0 {
			break
		}
		if m != nil {
			m.ChunkStarts = append(m.ChunkStarts, base+len(dst))
		}
		dst = append(dst, hexLen(sz, upper, zeros)...)
		dst = append(dst, ext...)
		dst = append(dst, "\r\n"...)
		dst = append(dst, body[pos:pos+sz]...)
		dst = append(dst, "\r\n"...)
		pos += sz
	}
	if pos < len(body) {
		if m != nil {
			m.ChunkStarts = append(m.ChunkStarts, base+len(dst))
		}
		dst = append(dst, hexLen(len(body)-pos, upper, zeros)...)
		dst = append(dst, "\r\n"...)
		dst = append(dst, body[pos:]...)
		dst = append(dst, "\r\n"...)
	}
	if m != nil {
		m.ChunkStarts = append(m.ChunkStarts, base+len(dst))
	}
	dst = append(dst, "0\r\n"...)
	for _, t := range trailers {
		dst = append(dst, t.K...)
		dst = append(dst, ": "...)
		dst = append(dst, t.V...)
		dst = append(dst, "\r\n"...)
	}
	dst = append(dst, "\r\n"...)
	return dst
}

// Encode appends the request to dst and returns marks relative to dst's start.
func (r *Req) Encode(dst []byte) ([]byte, Marks) {
	var m Marks
	m.Start = len(dst)
	dst = append(dst, r.Method...)
	dst = append(dst, ' ')
	dst = append(dst, r.Target...)
	dst = append(dst, ' ')
	dst = append(dst, r.Proto...)
	dst = append(dst, "\r\n"...)
	for _, l := range r.Lines {
		dst = append(dst, l.K...)
		dst = append(dst, ':')
		if l.V != "" {
			dst = append(dst, ' ')
		}
		dst = append(dst, l.V...)
		dst = append(dst, "\r\n"...)
	}
	dst = append(dst, "\r\n"...)
	m.HeaderEnd = len(dst)
	m.BodyStart = len(dst)
	switch r.Framing {
	case FrCL:
		dst = append(dst, r.Body...)
	case FrChunked:
		dst = encodeChunked(dst, r.Body, r.ChunkSizes, r.HexUpper, r.LeadingZeros, r.ChunkExt, r.Trailers, 0, &m)
	}
	m.End = len(dst)
	return dst, m
}

// ---------------------------------------------------------------------------
// Strict readers.

// ErrIncomplete means the input ended inside a message.
var ErrIncomplete = errors.New("wire: incomplete message")

// ParseError is a syntax error at a byte position.
type ParseError struct {
	Pos int
	Msg string
}

func (e *ParseError) Error() string { return fmt.Sprintf("wire: %s at byte %d", e.Msg, e.Pos) }

func perr(pos int, f string, a ...interface{}) error {
	return &ParseError{Pos: pos, Msg: fmt.Sprintf(f, a...)}
}

func isTchar(c byte) bool {
	switch {
	case 'a' <= c && c <= 'z', 'A' <= c && c <= 'Z', '0' <= c && c <= '9':
		return true
	}
	return strings.IndexByte("!#$%&'*+-.^_`|~", c) >= 0
}

func isToken(s string) bool {
	if s == "" {
		return false
	}
	for i := 0; i < len(s); i++ {
		if !isTchar(s[i]) {
			return false
		}
	}
	return true
}

// line returns the line without CRLF and the offset after it. Only CRLF ends a line.
func line(b []byte, pos int) (string, int, error) {
	i := bytes.IndexByte(b[pos:], '\n')
	if i < 0 {
		if j := bytes.IndexByte(b[pos:], '\r'); j >= 0 && pos+j != len(b)-1 {
			return "", 0, perr(pos+j, "bare CR")
		}
		return "", 0, ErrIncomplete
	}
	if i == 0 || b[pos+i-1] != '\r' {
		return "", 0, perr(pos+i, "bare LF")
	}
	l := b[pos : pos+i-1]
	if j := bytes.IndexByte(l, '\r'); j >= 0 {
		return "", 0, perr(pos+j, "bare CR")
	}
	return string(l), pos + i + 1, nil
}

// headerBlock parses header lines up to and including the blank line.
// allowFold accepts obs-fold continuation lines (requests generated by the
// harness use them); the folded value is returned with the raw CRLF+WSP inside.
func headerBlock(b []byte, pos int, allowFold bool) ([]KV, int, error) {
	var hs []KV
	for {
		l, next, err := line(b, pos)
		if err != nil {
			return nil, 0, err
		}
		if l == "" {
			return hs, next, nil
		}
		if l[0] == ' ' || l[0] == '\t' {
			if !allowFold || len(hs) == 0 {
				return nil, 0, perr(pos, "unexpected continuation line")
			}
			hs[len(hs)-1].V += "\r\n" + l
			pos = next
			continue
		}
		c := strings.IndexByte(l, ':')
		if c <= 0 {
			return nil, 0, perr(pos, "header line without a field name: %q", l)
		}
		name := l[:c]
		if !isToken(name) {
			return nil, 0, perr(pos, "field name %q is not a token", name)
		}
		val := strings.Trim(l[c+1:], " \t")
		for i := 0; i < len(val); i++ {
			if ch := val[i]; ch < 0x20 && ch != '\t' || ch == 0x7f {
				return nil, 0, perr(pos+c+1+i, "control byte %#x in field value", ch)
			}
		}
		hs = append(hs, KV{name, val})
		pos = next
	}
}

// Get returns the values of a field (case-insensitive name).
func Get(hs []KV, name string) []string {
	var out []string
	for _, h := range hs {
		if strings.EqualFold(h.K, name) {
			out = append(out, h.V)
		}
	}
	return out
}

// Has reports whether a comma-separated field contains token (case-insensitive).
func HasToken(hs []KV, name, token string) bool {
	for _, v := range Get(hs, name) {
		for _, p := range strings.Split(v, ",") {
			if strings.EqualFold(strings.Trim(p, " \t"), token) {
				return true
			}
		}
	}
	return false
}

func parseCL(hs []KV, pos int) (int, bool, error) {
	vs := Get(hs, "Content-Length")
	if len(vs) == 0 {
		return 0, false, nil
	}
	n := -1
	for _, v := range vs {
		if v == "" {
			return 0, false, perr(pos, "empty Content-Length")
		}
		for i := 0; i < len(v); i++ {
			if v[i] < '0' || v[i] > '9' {
				return 0, false, perr(pos, "non-digit in Content-Length %q", v)
			}
		}
		x, err := strconv.ParseInt(v, 10, 62)
		if err != nil {
			return 0, false, perr(pos, "Content-Length %q out of range", v)
		}
		if n >= 0 && int(x) != n {
			return 0, false, perr(pos, "conflicting Content-Length values")
		}
		n = int(x)
	}
	return n, true, nil
}

// readChunked parses a chunked body starting at pos.
func readChunked(b []byte, pos int) (body []byte, trailers []KV, next int, nchunks int, err error) {
	for {
		l, n2, e := line(b, pos)
		if e != nil {
			return nil, nil, 0, 0, e
		}
		sz := l
		if i := strings.IndexByte(l, ';'); i >= 0 {
			sz = l[:i]
		}
		sz = strings.TrimRight(sz, " \t")
		if sz == "" || len(sz) > 15 {
			return nil, nil, 0, 0, perr(pos, "bad chunk size %q", l)
		}
		for i := 0; i < len(sz); i++ {
			c := sz[i]
			if !('0' <= c && c <= '9' || 'a' <= c && c <= 'f' || 'A' <= c && c <= 'F') {
				return nil, nil, 0, 0, perr(pos+i, "bad chunk size %q", l)
			}
		}
		v, _ := strconv.ParseInt(sz, 16, 63)
		pos = n2
		if v == 0 {
			tr, n3, e := headerBlock(b, pos, true)
			if e != nil {
				return nil, nil, 0, 0, e
			}
			return body, tr, n3, nchunks, nil
		}
		nchunks++
		if int64(len(b)-pos) < v+2 {
			return nil, nil, 0, 0, ErrIncomplete
		}
		body = append(body, b[pos:pos+int(v)]...)
		pos += int(v)
		if b[pos] != '\r' || b[pos+1] != '\n' {
			return nil, nil, 0, 0, perr(pos, "chunk data not followed by CRLF")
		}
		pos += 2
	}
}

// ParsedReq is a request decoded by the strict request reader.
type ParsedReq struct {
	Method, Target, Proto string
	Headers               []KV
	Body                  []byte
	Trailers              []KV
	Framing               FramingKind
	Chunks                int
	End                   int // offset after the message
}

// ReadRequest decodes one request from b[pos:].
func ReadRequest(b []byte, pos int) (*ParsedReq, error) {
	l, next, err := line(b, pos)
	if err != nil {
		return nil, err
	}
	parts := strings.Split(l, " ")
	if len(parts) != 3 {
		return nil, perr(pos, "request line %q does not have three parts", l)
	}
	if !isToken(parts[0]) {
		return nil, perr(pos, "method %q is not a token", parts[0])
	}
	if parts[1] == "" {
		return nil, perr(pos, "empty request target")
	}
	for i := 0; i < len(parts[1]); i++ {
		if c := parts[1][i]; c <= 0x20 || c == 0x7f {
			return nil, perr(pos, "control byte in request target")
		}
	}
	if parts[2] != "HTTP/1.1" && parts[2] != "HTTP/1.0" {
		return nil, perr(pos, "unsupported version %q", parts[2])
	}
	r := &ParsedReq{Method: parts[0], Target: parts[1], Proto: parts[2]}
	hs, next, err := headerBlock(b, next, true)
	if err != nil {
		return nil, err
	}
	r.Headers = hs
	te := Get(hs, "Transfer-Encoding")
	cl, hasCL, err := parseCL(hs, pos)
	if err != nil {
		return nil, err
	}
	switch {
	case len(te) > 0:
		if hasCL {
			return nil, perr(pos, "both Transfer-Encoding and Content-Length")
		}
		if len(te) != 1 || !strings.EqualFold(te[0], "chunked") {
			return nil, perr(pos, "unsupported Transfer-Encoding %q", te)
		}
		body, tr, n2, nch, err := readChunked(b, next)
		if err != nil {
			return nil, err
		}
		r.Body, r.Trailers, r.Framing, r.Chunks, next = body, tr, FrChunked, nch, n2
	case hasCL:
		if len(b)-next < cl {
			return nil, ErrIncomplete
		}
		r.Body, r.Framing = b[next:next+cl], FrCL
		next += cl
	}
	r.End = next
	return r, nil
}

// ParsedResp is a response decoded by the strict response reader.
type ParsedResp struct {
	Proto    string
	Status   int
	Reason   string
	Headers  []KV
	Body     []byte
	Trailers []KV
	Framing  FramingKind
	Chunks   int
	Start    int
	End      int
}

// Bodiless reports whether a response to method with status cannot have a body.
func Bodiless(method string, status int) bool {
	return method == "HEAD" || status/100 == 1 || status == 204 || status == 304
}

// ReadResponse decodes one response from b[pos:]; method is the request
// method it answers (decides whether a body follows, RFC 7230 §3.3.3).
// last says whether an until-close body is acceptable (nothing can follow).
func ReadResponse(b []byte, pos int, method string) (*ParsedResp, error) {
	l, next, err := line(b, pos)
	if err != nil {
		return nil, err
	}
	if len(l) < 12 || (l[:9] != "HTTP/1.1 " && l[:9] != "HTTP/1.0 ") {
		return nil, perr(pos, "bad status line %q", l)
	}
	for i := 9; i < 12; i++ {
		if l[i] < '0' || l[i] > '9' {
			return nil, perr(pos+i, "bad status code in %q", l)
		}
	}
	if len(l) > 12 && l[12] != ' ' {
		return nil, perr(pos+12, "status code not followed by SP in %q", l)
	}
	st, _ := strconv.Atoi(l[9:12])
	r := &ParsedResp{Proto: l[:8], Status: st, Start: pos}
	if len(l) > 13 {
		r.Reason = l[13:]
	}
	hs, next, err := headerBlock(b, next, false)
	if err != nil {
		return nil, err
	}
	r.Headers = hs
	cl, hasCL, err := parseCL(hs, pos)
	if err != nil {
		return nil, err
	}
	te := Get(hs, "Transfer-Encoding")
	switch {
	case Bodiless(method, st):
		r.Framing = FrNone
	case len(te) > 0:
		if len(te) != 1 || !strings.EqualFold(te[0], "chunked") {
			return nil, perr(pos, "unsupported Transfer-Encoding %q", te)
		}
		if hasCL {
			return nil, perr(pos, "response carries both Transfer-Encoding and Content-Length")
		}
		body, tr, n2, nch, err := readChunked(b, next)
		if err != nil {
			return nil, err
		}
		r.Body, r.Trailers, r.Framing, r.Chunks, next = body, tr, FrChunked, nch, n2
	case hasCL:
		if len(b)-next < cl {
			return nil, ErrIncomplete
		}
		r.Body, r.Framing = b[next:next+cl], FrCL
		next += cl
	default:
		r.Body, r.Framing = b[next:], FrUntilClose
		next = len(b)
	}
	r.End = next
	return r, nil
}

// ---------------------------------------------------------------------------
// Normal forms.

var hopByHop = map[string]bool{"content-length": true, "transfer-encoding": true, "connection": true, "trailer": true, "expect": true, "keep-alive": true}

// Unfold replaces each obs-fold by a single space and trims OWS.
func Unfold(v string) string {
	for {
		i := strings.Index(v, "\r\n")
		if i < 0 {
			break
		}
		j := i + 2
		for j < len(v) && (v[j] == ' ' || v[j] == '\t') {
			j++
		}
		k := i
		for k > 0 && (v[k-1] == ' ' || v[k-1] == '\t') {
			k--
		}
		v = v[:k] + " " + v[j:]
	}
	return strings.Trim(v, " \t")
}

// squeeze collapses runs of SP/HTAB into one SP (used only to compare folded values leniently).
func squeeze(v string) string {
	var sb strings.Builder
	sp := false
	for i := 0; i < len(v); i++ {
		if v[i] == ' ' || v[i] == '\t' {
			sp = true
			continue
		}
		if sp && sb.Len() > 0 {
			sb.WriteByte(' ')
		}
		sp = false
		sb.WriteByte(v[i])
	}
	return sb.String()
}

// Norm returns the comparison form of a header list: lower-case names, OWS
// trimmed, folds as one space, hop-by-hop/framing fields dropped, sorted.
// skip lists additional lower-case names to drop.
func Norm(hs []KV, skip ...string) []string {
	var out []string
outer:
	for _, h := range hs {
		k := strings.ToLower(h.K)
		if hopByHop[k] {
			continue
		}
		for _, s := range skip {
			if k == s {
				continue outer
			}
		}
		v := h.V
		if strings.Contains(v, "\r\n") {
			v = squeeze(Unfold(v))
		} else {
			v = strings.Trim(v, " \t")
		}
		out = append(out, k+": "+v)
	}
	sort.Strings(out)
	return out
}

// NormFolded is like Norm but squeezes whitespace in every value whose name is in folded.
func NormLoose(hs []KV, foldedNames map[string]bool, skip ...string) []string {
	var out []string
outer:
	for _, h := range hs {
		k := strings.ToLower(h.K)
		if hopByHop[k] {
			continue
		}
		for _, s := range skip {
			if k == s {
				continue outer
			}
		}
		v := strings.Trim(Unfold(h.V), " \t")
		if foldedNames[k] {
			v = squeeze(v)
		}
		out = append(out, k+": "+v)
	}
	sort.Strings(out)
	return out
}

// Resp is an abstract response for the client-direction checks.
type Resp struct {
	Proto        string      `json:"proto"`
	Status       int         `json:"status"`
	Reason       string      `json:"reason"`
	Lines        []KV        `json:"lines"`
	Framing      FramingKind `json:"framing"`
	Body         []byte      `json:"-"`
	BodyLen      int         `json:"body_len"`
	ChunkSizes   []int       `json:"chunk_sizes,omitempty"`
	HexUpper     bool        `json:"hex_upper,omitempty"`
	LeadingZeros int         `json:"leading_zeros,omitempty"`
	Trailers     []KV        `json:"trailers,omitempty"`
	Interim100   int         `json:"interim100,omitempty"` // number of interim responses before it
	// InterimStatus: which interim response precedes it (0 = "100 Continue"; 102 Processing, 103 Early Hints with a Link field)
	InterimStatus int    `json:"interim_status,omitempty"`
	ChunkExt      string `json:"chunk_ext,omitempty"`
}

// Encode appends the response to dst.
func (r *Resp) Encode(dst []byte) ([]byte, Marks) {
	var m Marks
	m.Start = len(dst)
	for i := 0; i < r.Interim100; i++ {
		switch r.InterimStatus {
		case 102:
			dst = append(dst, "HTTP/1.1 102 Processing\r\n\r\n"...)
		case 103:
			dst = append(dst, "HTTP/1.1 103 Early Hints\r\nLink: </style.css>; rel=preload\r\n\r\n"...)
		default:
			dst = append(dst, "HTTP/1.1 100 Continue\r\n\r\n"...)
		}
	}
	dst = append(dst, r.Proto...)
	dst = append(dst, ' ')
	dst = append(dst, strconv.Itoa(r.Status)...)
	dst = append(dst, ' ')
	dst = append(dst, r.Reason...)
	dst = append(dst, "\r\n"...)
	for _, l := range r.Lines {
		dst = append(dst, l.K...)
		dst = append(dst, ':')
		if l.V != "" {
			dst = append(dst, ' ')
		}
		dst = append(dst, l.V...)
		dst = append(dst, "\r\n"...)
	}
	dst = append(dst, "\r\n"...)
	m.HeaderEnd = len(dst)
	m.BodyStart = len(dst)
	switch r.Framing {
	case FrCL, FrUntilClose:
		dst = append(dst, r.Body...)
	case FrChunked:
		dst = encodeChunked(dst, r.Body, r.ChunkSizes, r.HexUpper, r.LeadingZeros, r.ChunkExt, r.Trailers, 0, &m)
	}
	m.End = len(dst)
	return dst, m
}

// MaskDate replaces the value of every Date header line in an output stream
// so that two runs can be compared byte for byte.
func MaskDate(b []byte) []byte {
	out := append([]byte(nil), b...)
	p := 0
	for {
		i := bytes.Index(out[p:], []byte("\r\nDate: "))
		if i < 0 {
			return out
		}
		s := p + i + 8
		e := bytes.Index(out[s:], []byte("\r\n"))
		if e < 0 {
			return out
		}
		for k := s; k < s+e; k++ {
			out[k] = 'D'
		}
		p = s + e
	}
}
