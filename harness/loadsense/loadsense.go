// Package loadsense tells the wall-clock verdicts of C10 and C18 whether the machine was short of
// CPU while a scenario ran. A sleeping heartbeat goroutine only measures how late timers fire; on a
// machine with several runnable tasks per core the kernel still wakes a sleeper promptly (it has
// used no CPU) while the threads that do the work wait for a core for hundreds of milliseconds. The
// kernel's pressure-stall accounting sees exactly that: /proc/pressure/cpu "some total" is the number
// of microseconds during which at least one task was runnable without a CPU.
package loadsense

import (
	"os"
	"runtime"
	"strconv"
	"strings"
	"time"
)

// Probe measures CPU pressure between Start and Stalled.
type Probe struct {
	t0    time.Time
	some0 uint64
	ok    bool
}

func someTotal() (uint64, bool) {
	b, err := os.ReadFile("/proc/pressure/cpu")
	if err != nil {
		return 0, false
	}
	for _, line := range strings.Split(string(b), "\n") {
		if !strings.HasPrefix(line, "some ") {
			continue
		}
		if i := strings.Index(line, "total="); i >= 0 {
			v, err := strconv.ParseUint(strings.TrimSpace(line[i+6:]), 10, 64)
			return v, err == nil
		}
	}
	return 0, false
}

func loadavg1() (float64, bool) {
	b, err := os.ReadFile("/proc/loadavg")
	if err != nil {
		return 0, false
	}
	f := strings.Fields(string(b))
	if len(f) == 0 {
		return 0, false
	}
	v, err := strconv.ParseFloat(f[0], 64)
	return v, err == nil
}

// Start begins a measurement.
func Start() *Probe {
	p := &Probe{t0: time.Now()}
	p.some0, p.ok = someTotal()
	return p
}

// Stalled returns the fraction of the time since Start during which some task on the machine was
// waiting for a CPU. Without pressure-stall accounting it falls back to the one-minute load average
// divided by the number of CPUs, minus one half (so a machine with a free core per task reads 0).
func (p *Probe) Stalled() float64 {
	if p.ok {
		if now, ok := someTotal(); ok {
			el := time.Since(p.t0)
			if el < time.Millisecond {
				el = time.Millisecond
			}
			return float64(now-p.some0) / float64(el.Microseconds())
		}
	}
	if l, ok := loadavg1(); ok {
		f := l/float64(runtime.NumCPU()) - 0.5
		if f < 0 {
			f = 0
		}
		return f
	}
	return 0
}

// Busy is the threshold above which the tight wall-clock verdicts are not taken: for more than a
// quarter of the scenario some task had no CPU.
const Busy = 0.25
