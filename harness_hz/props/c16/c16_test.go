package c16

import (
	"bytes"
	"context"
	"encoding/json"
	"fmt"
	"go/ast"
	"go/parser"
	"go/token"
	"os"
	"os/exec"
	"path/filepath"
	"sort"
	"strconv"
	"strings"
	"testing"

	"github.com/cloudwego/hertz/pkg/app"
	"github.com/cloudwego/hertz/pkg/app/server"
	"github.com/cloudwego/hertz/pkg/common/hlog"
	"pgregory.net/rapid"

	"verifharnesshz/ev"
)

const prop = "C16"

func TestMain(m *testing.M) {
	hlog.SetLevel(hlog.LevelFatal)
	code := m.Run()
	ev.Flush()
	os.Exit(code)
}

type Method struct {
	Name      string `json:"name"`
	Verb      string `json:"verb"`
	Path      string `json:"path"`
	OutputDir string `json:"output_dir"`
	Extra     bool   `json:"extra_annotation,omitempty"` // a further (verb, path) annotation of the previous method's function: same handler, no handler generated
}

type Case struct {
	ProjPackage     string   `json:"proj_package"`
	OutDir          string   `json:"out_dir"`
	Methods         []Method `json:"methods"`
	SortRouter      bool     `json:"sort_router"`
	SnakeMiddleware bool     `json:"snake_middleware"`
	HandlerByMethod bool     `json:"handler_by_method"`
	CmdType         string   `json:"cmd_type"`
	Update          bool     `json:"update_run"` // generate all but the last method first, then run the update over the existing files
}

// "zq", "zq0", "zq1", "users0": a literal segment that looks like the name hz derives for the
// second / third occurrence of another segment ("zq" again under another parent becomes _zq0)
var segs = []string{"Users", "Zq", "AB", "a-b", "a_b", "a.b", "A_B", "ab", "1a", "a1", ":id", ":a_b", "*rest", "v1", "v1", "users", "a-b", "a_b", "zq", "zq", "zq0", "zq1", "users0", "zq"}
var verbs = []string{"GET", "GET", "POST", "PUT", "DELETE", "PATCH", "HEAD", "OPTIONS", "Any"}

func genCase(t *rapid.T) *Case {
	c := &Case{Update: rapid.IntRange(0, 3).Draw(t, "updateRun") == 0, SortRouter: rapid.Bool().Draw(t, "sortRouter"), SnakeMiddleware: rapid.Bool().Draw(t, "snakeMiddleware"), HandlerByMethod: rapid.IntRange(0, 3).Draw(t, "handlerByMethod") == 0}
	n := rapid.IntRange(1, 10).Draw(t, "nMethods")
	seen := map[string]bool{}
	usedNames := map[string]bool{}
	for i := 0; i < n; i++ {
		k := rapid.IntRange(0, 4).Draw(t, "nSegs")
		p := ""
		for j := 0; j < k; j++ {
			s := rapid.SampledFrom(segs).Draw(t, "seg")
			if s[0] == '*' && j != k-1 {
				s = "ab"
			}
			p += "/" + s
		}
		if p == "" {
			p = "/"
		} else if !strings.Contains(p, "*") && rapid.IntRange(0, 5).Draw(t, "trailingSlash") == 0 {
			p += "/"
		}
		v := rapid.SampledFrom(verbs).Draw(t, "verb")
		if seen[v+" "+p] || seen["Any "+p] || (v == "Any" && hasPath(seen, p)) {
			continue
		}
		seen[v+" "+p] = true
		name := fmt.Sprintf("H%d", i)
		switch rapid.IntRange(0, 4).Draw(t, "nameStyle") {
		case 0:
			name = fmt.Sprintf("GetUser%d", i)
		case 1:
			name = fmt.Sprintf("AB%dHandler", i)
		case 2:
			// a function named like a path segment (GET /users -> Users): its middleware name meets
			// the names hz derives from the path prefixes of the groups
			cand := rapid.SampledFrom([]string{"Users", "Ab", "V1", "Zq", "Zq0", "A1", "AB", "Users0", "AB0",
				// a name that is a prefix of another one's middleware name (List / ListMwStats: "_ListMw" is inside "_ListMwStatsMw");
				// names whose snake form ends in a suffix the go tool gives a meaning to (create_test.go, download_windows.go)
				"List", "ListMwStats", "CreateTest", "DownloadWindows", "GetArm64"}).Draw(t, "segmentLikeName")
			if !usedNames[cand] {
				name = cand
			}
		}
		usedNames[name] = true
		if len(c.Methods) > 0 && v != "Any" && c.Methods[len(c.Methods)-1].Verb != "Any" && rapid.IntRange(0, 5).Draw(t, "extraAnnotation") == 0 {
			// one IDL function, several annotations
			c.Methods = append(c.Methods, Method{Name: c.Methods[len(c.Methods)-1].Name, Verb: v, Path: p, Extra: true})
			continue
		}
		c.Methods = append(c.Methods, Method{Name: name, Verb: v, Path: p, OutputDir: ""})
	}
	if len(c.Methods) == 0 {
		c.Methods = []Method{{Name: "H0", Verb: "GET", Path: "/"}}
	}
	// handler names that meet the generator's own naming: drawn rarely by the name styles above, so a sixth of
	// the cases is built around them
	last := len(c.Methods) - 1
	plain := func(i int) bool {
		return !c.Methods[i].Extra && (i == last || !c.Methods[i+1].Extra)
	}
	switch rapid.IntRange(0, 11).Draw(t, "hostileNames") {
	case 0:
		// the update adds "List" to a middleware.go that already has "_ListMwStatsMw" ("_ListMw" is a prefix of it)
		if last >= 1 && plain(0) && plain(last) && !usedNames["List"] && !usedNames["ListMwStats"] {
			c.Methods[0].Name, c.Methods[last].Name = "ListMwStats", "List"
			c.SnakeMiddleware, c.Update = true, true
		}
	case 1:
		// one file per handler, named after it: create_test.go, download_windows.go, get_arm64.go
		if plain(0) && !usedNames["CreateTest"] && !usedNames["DownloadWindows"] {
			c.Methods[0].Name = rapid.SampledFrom([]string{"CreateTest", "DownloadWindows", "GetArm64"}).Draw(t, "goToolSuffix")
			c.HandlerByMethod = true
		}
	}
	return c
}

func hasPath(seen map[string]bool, p string) bool {
	for k := range seen {
		if strings.HasSuffix(k, " "+p) {
			return true
		}
	}
	return false
}

var anyVerbs = []string{"GET", "POST", "PUT", "PATCH", "HEAD", "OPTIONS", "DELETE", "CONNECT", "TRACE"}

// registrable: the declared set must be accepted by hertz's own router when registered directly.
func registrable(c *Case) (ok bool) {
	defer func() {
		if recover() != nil {
			ok = false
		}
	}()
	h := server.New()
	nop := func(ctx context.Context, c *app.RequestContext) {}
	for _, m := range c.Methods {
		if m.Verb == "Any" {
			h.Any(m.Path, nop)
		} else {
			h.Handle(m.Verb, m.Path, nop)
		}
	}
	return true
}

// ---------------------------------------------------------------------------
// Reading the generated router source.

type groupInfo struct {
	parent, prefix, mw string
}

type routeInfo struct {
	groupVar, verb, path, hmw, handlerPkg, handlerName string
}

type routerAST struct {
	groups  map[string]groupInfo
	routes  []routeInfo
	imports map[string]string // alias -> path
	engine  string
}

func strLit(e ast.Expr) (string, bool) {
	b, ok := e.(*ast.BasicLit)
	if !ok || b.Kind != token.STRING {
		return "", false
	}
	s, err := strconv.Unquote(b.Value)
	return s, err == nil
}

func mwCallName(e ast.Expr) string {
	if c, ok := e.(*ast.CallExpr); ok {
		if id, ok := c.Fun.(*ast.Ident); ok {
			return id.Name
		}
	}
	return ""
}

func parseRouter(path string) (*routerAST, error) {
	fset := token.NewFileSet()
	f, err := parser.ParseFile(fset, path, nil, 0)
	if err != nil {
		return nil, err
	}
	ra := &routerAST{groups: map[string]groupInfo{}, imports: map[string]string{}}
	for _, im := range f.Imports {
		p, _ := strconv.Unquote(im.Path.Value)
		alias := filepath.Base(p)
		if im.Name != nil {
			alias = im.Name.Name
		}
		ra.imports[alias] = p
	}
	var reg *ast.FuncDecl
	for _, d := range f.Decls {
		if fd, ok := d.(*ast.FuncDecl); ok && fd.Name.Name == "Register" {
			reg = fd
		}
	}
	if reg == nil {
		return nil, fmt.Errorf("no Register function")
	}
	ra.engine = reg.Type.Params.List[0].Names[0].Name
	var walk func(stmts []ast.Stmt) error
	walk = func(stmts []ast.Stmt) error {
		for _, st := range stmts {
			switch s := st.(type) {
			case *ast.BlockStmt:
				if err := walk(s.List); err != nil {
					return err
				}
			case *ast.AssignStmt:
				if len(s.Lhs) != 1 || len(s.Rhs) != 1 {
					return fmt.Errorf("unexpected assignment")
				}
				call, ok := s.Rhs[0].(*ast.CallExpr)
				if !ok {
					return fmt.Errorf("unexpected assignment rhs")
				}
				sel, ok := call.Fun.(*ast.SelectorExpr)
				if !ok || sel.Sel.Name != "Group" || len(call.Args) != 2 {
					return fmt.Errorf("unexpected assignment call")
				}
				prefix, _ := strLit(call.Args[0])
				ra.groups[s.Lhs[0].(*ast.Ident).Name] = groupInfo{parent: sel.X.(*ast.Ident).Name, prefix: prefix, mw: mwCallName(call.Args[1])}
			case *ast.ExprStmt:
				call, ok := s.X.(*ast.CallExpr)
				if !ok {
					return fmt.Errorf("unexpected expression statement")
				}
				sel, ok := call.Fun.(*ast.SelectorExpr)
				if !ok || len(call.Args) != 2 {
					return fmt.Errorf("unexpected call")
				}
				p, _ := strLit(call.Args[0])
				app, ok := call.Args[1].(*ast.CallExpr)
				if !ok || len(app.Args) != 2 {
					return fmt.Errorf("unexpected handler expression")
				}
				hsel, ok := app.Args[1].(*ast.SelectorExpr)
				if !ok {
					return fmt.Errorf("unexpected handler reference")
				}
				ra.routes = append(ra.routes, routeInfo{groupVar: sel.X.(*ast.Ident).Name, verb: sel.Sel.Name, path: p, hmw: mwCallName(app.Args[0]), handlerPkg: hsel.X.(*ast.Ident).Name, handlerName: hsel.Sel.Name})
			default:
				return fmt.Errorf("unexpected statement %T", st)
			}
		}
		return nil
	}
	if err := walk(reg.Body.List); err != nil {
		return nil, err
	}
	return ra, nil
}

// chain returns the middleware names from the outermost group down to v and the cumulative prefix parts.
func (ra *routerAST) chain(v string) (mws []string, prefixes []string, err error) {
	for v != ra.engine {
		g, ok := ra.groups[v]
		if !ok {
			return nil, nil, fmt.Errorf("group variable %q is not defined", v)
		}
		mws = append([]string{g.mw}, mws...)
		prefixes = append([]string{g.prefix}, prefixes...)
		v = g.parent
		if len(mws) > 50 {
			return nil, nil, fmt.Errorf("cyclic groups")
		}
	}
	return
}

func funcNames(path string) ([]string, error) {
	fset := token.NewFileSet()
	f, err := parser.ParseFile(fset, path, nil, 0)
	if err != nil {
		return nil, err
	}
	var ns []string
	for _, d := range f.Decls {
		if fd, ok := d.(*ast.FuncDecl); ok && fd.Recv == nil {
			ns = append(ns, fd.Name.Name)
		}
	}
	return ns, nil
}

// ---------------------------------------------------------------------------

type caseOut struct {
	Panic  string              `json:"panic"`
	Routes []string            `json:"routes"`
	Probes map[string][]string `json:"probes"` // "VERB path" -> trace
	Status map[string]int      `json:"status"`
}

func root() string {
	if r := os.Getenv("VERIF_ROOT"); r != "" {
		return r
	}
	return "/verif"
}

func goEnv() []string {
	e := os.Environ()
	return append(e, "GOFLAGS=-mod=mod", "GOPROXY=off", "GOSUMDB=off", "GOTOOLCHAIN=local", "GOWORK=off")
}

var shadowedRoutes int64

func concreteWith(p, anyFill string) string {
	parts := strings.Split(p, "/")
	for i, s := range parts {
		if strings.HasPrefix(s, ":") {
			parts[i] = "val" + strconv.Itoa(i)
		} else if strings.HasPrefix(s, "*") {
			parts[i] = anyFill
		}
	}
	return strings.Join(parts, "/")
}

// segKind: 0 static, 1 :param, 2 *catch-all (the documented priority order of the router).
func segKind(s string) int {
	switch {
	case strings.HasPrefix(s, ":"):
		return 1
	case strings.HasPrefix(s, "*"):
		return 2
	}
	return 0
}

func patternMatches(pattern, path string) bool {
	ps, xs := strings.Split(pattern, "/"), strings.Split(path, "/")
	for i, seg := range ps {
		switch segKind(seg) {
		case 2:
			return i < len(xs)
		case 1:
			if i >= len(xs) || xs[i] == "" {
				return false
			}
		default:
			if i >= len(xs) || xs[i] != seg {
				return false
			}
		}
	}
	return len(ps) == len(xs)
}

// morePrior reports whether pattern a wins over b for a path both match: at the first segment where
// their kinds differ, static beats :param beats *catch-all (what a trie search with backtracking does).
func morePrior(a, b string) bool {
	as, bs := strings.Split(a, "/"), strings.Split(b, "/")
	for i := 0; i < len(as) && i < len(bs); i++ {
		if ka, kb := segKind(as[i]), segKind(bs[i]); ka != kb {
			return ka < kb
		}
	}
	return false
}

// concrete chooses a probe path for method m that, under the router's documented priority, reaches
// m's own route and not another declared route of the same verb (a probe for "/*rest" must not look
// like "/:id/:name"). ok=false: every candidate is claimed by a higher-priority route; not probed.
func concrete(m Method, all []Method) (string, bool) {
	verb := func(x Method) string {
		if x.Verb == "Any" {
			return "GET"
		}
		return x.Verb
	}
	for _, fill := range []string{"x/y", "deep/er/than/any/declared/route", "solo", "x/y/z"} {
		cand := concreteWith(m.Path, fill)
		best := ""
		for _, o := range all {
			if verb(o) != verb(m) && o.Verb != "Any" && m.Verb != "Any" {
				continue
			}
			if patternMatches(o.Path, cand) && (best == "" || morePrior(o.Path, best)) {
				best = o.Path
			}
		}
		if best == m.Path {
			return cand, true
		}
	}
	return "", false
}

type prepared struct {
	c   *Case
	ra  *routerAST
	dir string
	idx int
}

// buildAndRun builds one Go module for the given prepared cases and runs it.
func buildAndRun(batchDir string, ps []*prepared) (map[int]*caseOut, string, error) {
	var main bytes.Buffer
	main.WriteString("package main\n\nimport (\n\t\"encoding/json\"\n\t\"fmt\"\n\t\"os\"\n\t\"strings\"\n\n\t\"github.com/cloudwego/hertz/pkg/app/server\"\n\t\"github.com/cloudwego/hertz/pkg/common/hlog\"\n\t\"github.com/cloudwego/hertz/pkg/common/ut\"\n")
	for _, p := range ps {
		fmt.Fprintf(&main, "\tr%d \"c16batch/case%d/biz/router/api\"\n", p.idx, p.idx)
	}
	main.WriteString(")\n\ntype out struct {\n\tPanic  string              `json:\"panic\"`\n\tRoutes []string            `json:\"routes\"`\n\tProbes map[string][]string `json:\"probes\"`\n\tStatus map[string]int      `json:\"status\"`\n}\n\n")
	main.WriteString("func run(reg func(*server.Hertz), probes [][2]string) (o out) {\n\to.Probes = map[string][]string{}\n\to.Status = map[string]int{}\n\tdefer func() {\n\t\tif r := recover(); r != nil {\n\t\t\to.Panic = fmt.Sprint(r)\n\t\t}\n\t}()\n\th := server.New()\n\treg(h)\n\tfor _, ri := range h.Routes() {\n\t\to.Routes = append(o.Routes, ri.Method+\" \"+ri.Path)\n\t}\n\tfor _, p := range probes {\n\t\tw := ut.PerformRequest(h.Engine, p[0], p[1], nil)\n\t\tresp := w.Result()\n\t\ttr := string(resp.Header.Peek(\"X-Trace\"))\n\t\tvar parts []string\n\t\tif tr != \"\" {\n\t\t\tparts = strings.Split(strings.TrimPrefix(tr, \",\"), \",\")\n\t\t}\n\t\to.Probes[p[0]+\" \"+p[1]] = parts\n\t\to.Status[p[0]+\" \"+p[1]] = resp.StatusCode()\n\t}\n\treturn\n}\n\n")
	main.WriteString("func main() {\n\thlog.SetLevel(hlog.LevelFatal)\n\tres := map[string]out{}\n")
	for _, p := range ps {
		fmt.Fprintf(&main, "\tres[\"%d\"] = run(r%d.Register, [][2]string{", p.idx, p.idx)
		for _, m := range p.c.Methods {
			v := m.Verb
			if v == "Any" {
				v = "GET"
			}
			if cp, ok := concrete(m, p.c.Methods); ok {
				fmt.Fprintf(&main, "{%q, %q}, ", v, cp)
			}
		}
		main.WriteString("})\n")
	}
	main.WriteString("\tjson.NewEncoder(os.Stdout).Encode(res)\n}\n")
	if err := os.WriteFile(filepath.Join(batchDir, "main.go"), main.Bytes(), 0o644); err != nil {
		return nil, "", err
	}
	bin := filepath.Join(batchDir, "batch.bin")
	os.Remove(bin)
	cmd := exec.Command("go", "build", "-o", bin, ".")
	cmd.Dir = batchDir
	cmd.Env = goEnv()
	if outb, err := cmd.CombinedOutput(); err != nil {
		return nil, string(outb), fmt.Errorf("go build failed")
	}
	run := exec.Command(bin)
	run.Dir = batchDir
	outb, err := run.Output()
	if err != nil {
		return nil, string(outb), fmt.Errorf("running the batch failed: %v", err)
	}
	raw := map[string]*caseOut{}
	if err := json.Unmarshal(outb, &raw); err != nil {
		return nil, string(outb), err
	}
	res := map[int]*caseOut{}
	for k, v := range raw {
		i, _ := strconv.Atoi(k)
		res[i] = v
	}
	return res, "", nil
}

const trSrc = `package tr

import "github.com/cloudwego/hertz/pkg/app"

// Add appends name to the per-request trace kept in a response header.
func Add(c *app.RequestContext, name string) {
	c.Response.Header.Set("X-Trace", string(c.Response.Header.Peek("X-Trace"))+","+name)
}
`

// prepare runs hzgen for one case and replaces middleware and handlers by recording stubs.
func prepare(batchDir string, idx int, c *Case) (*prepared, string, string) {
	dir := filepath.Join(batchDir, fmt.Sprintf("case%d", idx))
	os.RemoveAll(dir)
	os.MkdirAll(dir, 0o755)
	c.ProjPackage = fmt.Sprintf("c16batch/case%d", idx)
	c.OutDir = dir
	if c.Update && len(c.Methods) >= 2 {
		first := *c
		first.Methods = c.Methods[:len(c.Methods)-1]
		first.CmdType = "new"
		in1, _ := json.Marshal(&first)
		cmd1 := exec.Command(filepath.Join(root(), ".build", "hzgen"))
		cmd1.Stdin = bytes.NewReader(in1)
		cmd1.Dir = dir
		if ob, err := cmd1.CombinedOutput(); err != nil || !strings.Contains(string(ob), "HZGEN-OK") {
			return nil, "refused", "first generation: " + lastLines(string(ob), 3)
		}
		c.CmdType = "update"
	}
	in, _ := json.Marshal(c)
	cmd := exec.Command(filepath.Join(root(), ".build", "hzgen"))
	cmd.Stdin = bytes.NewReader(in)
	cmd.Dir = dir
	outb, err := cmd.CombinedOutput()
	out := string(outb)
	if err != nil {
		return nil, "crash", fmt.Sprintf("hz generator crashed: %v\n%s", err, lastLines(out, 15))
	}
	if strings.Contains(out, "HZGEN-REFUSED") || strings.Contains(out, "HZGEN-PERSIST-ERROR") {
		return nil, "refused", lastLines(out, 3)
	}
	routerFile := filepath.Join(dir, "biz", "router", "api", "api.go")
	ra, err := parseRouter(routerFile)
	if err != nil {
		src, _ := os.ReadFile(routerFile)
		return nil, "invalid-go", fmt.Sprintf("generated router source is not what a Go parser / the router template shape accepts: %v\n%s", err, src)
	}
	// middleware stub with the same function names
	mwFile := filepath.Join(dir, "biz", "router", "api", "middleware.go")
	names, err := funcNames(mwFile)
	if err != nil {
		src, _ := os.ReadFile(mwFile)
		return nil, "invalid-go", fmt.Sprintf("generated middleware.go does not parse: %v\n%s", err, src)
	}
	var mw bytes.Buffer
	fmt.Fprintf(&mw, "package api\n\nimport (\n\t\"context\"\n\n\t\"github.com/cloudwego/hertz/pkg/app\"\n\t\"c16batch/tr\"\n)\n\nfunc rec(name string) []app.HandlerFunc {\n\treturn []app.HandlerFunc{func(ctx context.Context, c *app.RequestContext) { tr.Add(c, name); c.Next(ctx) }}\n}\n\n")
	for _, n := range names {
		fmt.Fprintf(&mw, "func %s() []app.HandlerFunc { return rec(%q) }\n", n, n)
	}
	os.WriteFile(mwFile, mw.Bytes(), 0o644)
	// handler stubs: one package per imported handler package
	os.RemoveAll(filepath.Join(dir, "biz", "handler"))
	byPkg := map[string][]string{}
	for _, r := range ra.routes {
		p, ok := ra.imports[r.handlerPkg]
		if !ok {
			return nil, "invalid-go", fmt.Sprintf("router references package alias %q that it does not import", r.handlerPkg)
		}
		byPkg[p] = append(byPkg[p], r.handlerName)
	}
	for p, fns := range byPkg {
		rel := strings.TrimPrefix(p, c.ProjPackage+"/")
		hd := filepath.Join(dir, filepath.FromSlash(rel))
		os.MkdirAll(hd, 0o755)
		var hb bytes.Buffer
		fmt.Fprintf(&hb, "package %s\n\nimport (\n\t\"context\"\n\n\t\"github.com/cloudwego/hertz/pkg/app\"\n\t\"c16batch/tr\"\n)\n\n", filepath.Base(rel))
		sort.Strings(fns)
		seen := map[string]bool{}
		for _, fn := range fns {
			if seen[fn] {
				continue
			}
			seen[fn] = true
			fmt.Fprintf(&hb, "func %s(ctx context.Context, c *app.RequestContext) { tr.Add(c, %q) }\n", fn, "H:"+fn)
		}
		os.WriteFile(filepath.Join(hd, "stub.go"), hb.Bytes(), 0o644)
	}
	os.Remove(filepath.Join(dir, "biz", "router", "register.go"))
	return &prepared{c: c, ra: ra, dir: dir, idx: idx}, "ok", ""
}

func lastLines(s string, n int) string {
	ls := strings.Split(strings.TrimSpace(s), "\n")
	if len(ls) > n {
		ls = ls[len(ls)-n:]
	}
	return strings.Join(ls, "\n")
}

// verify compares what the compiled router does with the declared set.
func verify(p *prepared, o *caseOut) string {
	if o == nil {
		return "no output for this case"
	}
	if o.Panic != "" {
		return fmt.Sprintf("registering the generated routes panics although the declared set registers fine directly: %s", o.Panic)
	}
	var want []string
	for _, m := range p.c.Methods {
		if m.Verb == "Any" {
			for _, v := range anyVerbs {
				want = append(want, v+" "+m.Path)
			}
		} else {
			want = append(want, m.Verb+" "+m.Path)
		}
	}
	got := append([]string(nil), o.Routes...)
	sort.Strings(want)
	sort.Strings(got)
	if strings.Join(want, "\n") != strings.Join(got, "\n") {
		return fmt.Sprintf("Engine.Routes() after Register differs from the declared (verb, path) set:\n declared: %v\n registered: %v", want, got)
	}
	for _, m := range p.c.Methods {
		// the AST route of this method
		// (a handler may be declared for several (verb, path) pairs: one IDL function with several
		// annotations; each of them is one route of the same handler)
		var ar *routeInfo
		n, declared := 0, 0
		for _, o := range p.c.Methods {
			if o.Name == m.Name {
				declared++
			}
		}
		for i := range p.ra.routes {
			if p.ra.routes[i].handlerName == m.Name {
				n++
				r := &p.ra.routes[i]
				if declared == 1 {
					ar = r
					continue
				}
				if _, prefixes, err := p.ra.chain(r.groupVar); err == nil {
					cum := ""
					for _, pre := range prefixes {
						cum = joinPath(cum, pre)
					}
					if joinPath(cum, r.path) == m.Path && (strings.EqualFold(r.verb, m.Verb)) {
						ar = r
					}
				}
			}
		}
		if n != declared {
			return fmt.Sprintf("handler %s is referenced %d times in the generated router, declared for %d (verb, path) pairs", m.Name, n, declared)
		}
		if ar == nil {
			return fmt.Sprintf("no registration of handler %s resolves to the declared %s %s", m.Name, m.Verb, m.Path)
		}
		mws, prefixes, err := p.ra.chain(ar.groupVar)
		if err != nil {
			return fmt.Sprintf("route of %s: %v", m.Name, err)
		}
		if len(mws) == 0 || mws[0] != "rootMw" {
			return fmt.Sprintf("route of %s (%s %s) is not registered under the root group (middleware chain %v)", m.Name, m.Verb, m.Path, mws)
		}
		// cumulative prefixes must strictly extend and end at the route's parent path
		cum := ""
		for _, pre := range prefixes {
			cum = joinPath(cum, pre)
			if !isSegPrefix(cum, m.Path) {
				return fmt.Sprintf("route of %s (%s): group prefix %q is not a prefix of the declared path", m.Name, m.Path, cum)
			}
		}
		if full := joinPath(cum, ar.path); full != m.Path {
			return fmt.Sprintf("route of %s: generated registration resolves to %q, declared %q", m.Name, full, m.Path)
		}
		v := m.Verb
		if v == "Any" {
			v = "GET"
		}
		cp, probed := concrete(m, p.c.Methods)
		if !probed {
			shadowedRoutes++ // every probe for this route is claimed by a higher-priority declared route
			continue
		}
		key := v + " " + cp
		trace := o.Probes[key]
		wantTrace := append(append([]string(nil), mws...), ar.hmw, "H:"+m.Name)
		if strings.Join(trace, ",") != strings.Join(wantTrace, ",") {
			return fmt.Sprintf("probe %s (declared %s %s -> %s) ran %v (status %d); every group on its path, then the handler's own middleware, then the declared handler would be %v", key, m.Verb, m.Path, m.Name, trace, o.Status[key], wantTrace)
		}
		seen := map[string]bool{}
		for _, x := range trace {
			if seen[x] {
				return fmt.Sprintf("probe %s: %s ran twice: %v", key, x, trace)
			}
			seen[x] = true
		}
	}
	return ""
}

func joinPath(a, b string) string {
	if b == "" {
		return a
	}
	res := strings.TrimRight(a, "/") + "/" + strings.TrimLeft(b, "/")
	if strings.HasSuffix(b, "/") && !strings.HasSuffix(res, "/") {
		res += "/"
	}
	if b == "/" && a != "" && a != "/" {
		res = strings.TrimRight(a, "/") + "/"
	}
	return res
}

func isSegPrefix(pre, p string) bool {
	if pre == "/" || pre == "" {
		return true
	}
	pre = strings.TrimRight(pre, "/")
	return p == pre || strings.HasPrefix(p, pre+"/")
}

func batchSize() int {
	if s, err := strconv.Atoi(os.Getenv("VERIF_C16_BATCH")); err == nil && s > 0 {
		return s
	}
	return 30
}

func nontrivial(c *Case) bool {
	mangled := map[string]int{}
	paths := map[string]int{}
	for _, m := range c.Methods {
		paths[m.Path]++
		for _, s := range strings.Split(m.Path, "/") {
			if s == "" {
				continue
			}
			if s[0] == ':' || s[0] == '*' {
				return true
			}
			k := strings.ToLower(strings.NewReplacer("-", "_", ".", "_").Replace(s))
			mangled[k+"|"+s]++
		}
	}
	for _, n := range paths {
		if n >= 2 {
			return true
		}
	}
	keys := map[string]map[string]bool{}
	for k := range mangled {
		parts := strings.SplitN(k, "|", 2)
		if keys[parts[0]] == nil {
			keys[parts[0]] = map[string]bool{}
		}
		keys[parts[0]][parts[1]] = true
	}
	for _, v := range keys {
		if len(v) >= 2 {
			return true
		}
	}
	for _, a := range c.Methods {
		for _, b := range c.Methods {
			if a.Path != b.Path && isSegPrefix(a.Path, b.Path) && a.Path != "/" {
				return true
			}
		}
	}
	return false
}

func TestC16Batch(t *testing.T) {
	rec := ev.New("programs")
	defer func() {
		if shadowedRoutes > 0 {
			rec.Class("route-not-probed-every-probe-claimed-by-a-higher-priority-route", shadowedRoutes)
		}
	}()
	shard, _ := ev.Shard()
	rapid.Check(t, func(t *rapid.T) {
		wd, _ := os.Getwd()
		batchDir := filepath.Join(wd, "batch")
		os.RemoveAll(batchDir)
		os.MkdirAll(filepath.Join(batchDir, "tr"), 0o755)
		defer os.RemoveAll(batchDir)
		os.WriteFile(filepath.Join(batchDir, "tr", "tr.go"), []byte(trSrc), 0o644)
		os.WriteFile(filepath.Join(batchDir, "go.mod"), []byte("module c16batch\n\ngo 1.19\n\nrequire github.com/cloudwego/hertz v0.0.0\n\nreplace github.com/cloudwego/hertz => "+repoDir()+"\n"), 0o644)
		sum, _ := os.ReadFile(filepath.Join(repoDir(), "go.sum"))
		os.WriteFile(filepath.Join(batchDir, "go.sum"), sum, 0o644)
		n := batchSize()
		var ps []*prepared
		for i := 0; i < n; i++ {
			c := genCase(t)
			if !registrable(c) {
				rec.Class("declared-set-rejected-by-hertz-router", 1)
				continue
			}
			p, status, msg := prepare(batchDir, i, c)
			nt := nontrivial(c)
			cls := []string{"generate-" + status}
			if c.SortRouter {
				cls = append(cls, "opt-sort-router")
			}
			if c.SnakeMiddleware {
				cls = append(cls, "opt-snake-middleware")
			}
			if c.HandlerByMethod {
				cls = append(cls, "opt-handler-by-method")
			}
			if c.Update && len(c.Methods) >= 2 {
				cls = append(cls, "update-over-existing-files")
			}
			rec.Case(nt, ev.HashString(fmt.Sprintf("%+v", c.Methods), fmt.Sprint(c.SortRouter, c.SnakeMiddleware, c.HandlerByMethod)), cls...)
			switch status {
			case "ok":
				ps = append(ps, p)
				if nt && rec.WantSample() {
					rec.Sample(c)
				}
			case "refused":
				// hz declined to generate: nothing generated, nothing to validate (counted)
			default:
				ev.Fail(prop, "programs", c, msg)
				t.Fatalf("shard %d case %d: %s\ncase: %+v", shard, i, msg, *c)
			}
		}
		if len(ps) == 0 {
			return
		}
		res, buildOut, err := buildAndRun(batchDir, ps)
		if err != nil {
			// attribute a compile error to single cases
			for _, p := range ps {
				if _, bo, e := buildAndRun(batchDir, []*prepared{p}); e != nil {
					src, _ := os.ReadFile(filepath.Join(p.dir, "biz", "router", "api", "api.go"))
					msg := fmt.Sprintf("the generated router code does not compile: %s\n--- router ---\n%s", lastLines(bo, 12), src)
					ev.Fail(prop, "programs", p.c, msg)
					t.Fatalf("case %d: %s\ncase: %+v", p.idx, msg, *p.c)
				}
			}
			t.Skipf("batch build failed but every case builds alone: %v\n%s", err, lastLines(buildOut, 10))
		}
		for _, p := range ps {
			if msg := verify(p, res[p.idx]); msg != "" {
				src, _ := os.ReadFile(filepath.Join(p.dir, "biz", "router", "api", "api.go"))
				ev.Fail(prop, "programs", p.c, msg)
				t.Fatalf("case %d: %s\ncase: %+v\n--- router ---\n%s", p.idx, msg, *p.c, src)
			}
			rec.Class("disagreement_checked", int64(uniquified(p)))
		}
	})
}

// uniquified counts identifiers hz had to make unique (numeric suffix after mangling).
func uniquified(p *prepared) int {
	n := 0
	for v := range p.ra.groups {
		if len(v) > 1 && v[len(v)-1] >= '0' && v[len(v)-1] <= '9' {
			n++
		}
	}
	if n > 0 {
		return 1
	}
	return 0
}

func repoDir() string {
	if r := os.Getenv("VERIF_REPO"); r != "" {
		return r
	}
	return "/repo"
}
