// hzgen links the real cmd/hz/generator package and generates the handler,
// router, middleware and register files for one declared method set into a
// fresh output directory. It is executed once per case in a fresh process
// because the generator keeps process-global uniquifying maps.
package main

import (
	"encoding/json"
	"fmt"
	"os"

	"github.com/cloudwego/hertz/cmd/hz/generator"
	"github.com/cloudwego/hertz/cmd/hz/meta"
)

type Method struct {
	Name      string `json:"name"`
	Verb      string `json:"verb"`
	Path      string `json:"path"`
	OutputDir string `json:"output_dir"`
	Extra     bool   `json:"extra_annotation,omitempty"`
}

type Case struct {
	ProjPackage     string   `json:"proj_package"`
	OutDir          string   `json:"out_dir"`
	Methods         []Method `json:"methods"`
	SortRouter      bool     `json:"sort_router"`
	SnakeMiddleware bool     `json:"snake_middleware"`
	HandlerByMethod bool     `json:"handler_by_method"`
	CmdType         string   `json:"cmd_type"`
}

func main() {
	var c Case
	if err := json.NewDecoder(os.Stdin).Decode(&c); err != nil {
		fmt.Println("HZGEN-ERROR: bad input:", err)
		os.Exit(3)
	}
	var ms []*generator.HttpMethod
	for _, m := range c.Methods {
		ms = append(ms, &generator.HttpMethod{
			Name: m.Name, HTTPMethod: m.Verb, Path: m.Path, Serializer: "JSON", ReturnTypeName: "struct{}", GenHandler: !m.Extra, OutputDir: m.OutputDir,
		})
	}
	pkg := &generator.HttpPackage{IdlName: "api.thrift", Package: "api", Services: []*generator.Service{{Name: "Svc", Methods: ms}}}
	g := generator.HttpPackageGenerator{
		HandlerDir: "biz/handler", RouterDir: "biz/router", ModelDir: "biz/model",
		TemplateGenerator:    generator.TemplateGenerator{OutputDir: c.OutDir},
		ProjPackage:          c.ProjPackage,
		HandlerByMethod:      c.HandlerByMethod,
		CmdType:              cmdType(c.CmdType),
		SnakeStyleMiddleware: c.SnakeMiddleware,
		SortRouter:           c.SortRouter,
	}
	generator.SetDefaultTemplateConfig()
	if err := g.Generate(pkg); err != nil {
		fmt.Println("HZGEN-REFUSED:", err)
		os.Exit(0)
	}
	if err := g.Persist(); err != nil {
		fmt.Println("HZGEN-PERSIST-ERROR:", err)
		os.Exit(0)
	}
	fmt.Println("HZGEN-OK")
}

func cmdType(s string) string {
	if s == "update" {
		return meta.CmdUpdate
	}
	return meta.CmdNew
}
