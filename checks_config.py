# Per-property configuration of the driver. Units are Test functions of the
# property's package; "rapid" units are sharded by PRNG seed, "plain" units
# receive VERIF_SHARD/VERIF_NSHARDS and partition their enumeration.
CHECKS = {}
NOT_APPLICABLE = {}
HOOK_COMMITS = ["62d9977", "2330afa"]

CHECKS["C07"] = {
    "pkg": "props/c07",
    "level": "exploration",
    "rule": "Exhaustive: every string of 0..8 (thorough 0..10) tokens over {'/','.','a','%2e','%2f','%','\\\\'} as request target for URI.Parse "
            "and as CleanPath argument (distinct by construction; tokenisation is unique); non-trivial = a dot token adjacent to a separator token. "
            "Random: targets of up to 64 tokens incl. mixed-case / double / truncated escapes, query and fragment suffixes; non-trivial = contains '.' or an escape; distinct by FNV-64 of the target. "
            "FS sandbox: every origin-form target of 1..5 (thorough 1..6) tokens plus random ones served by the real FS handler behind the real engine with canary files outside the root. fs-vhost unit: exhaustive over 16 hostile Host values (.., ., %2e%2e, ..%2f.., a/.., backslash, ports) x all targets of one or two tokens, served through app.NewVHostPathRewriter in front of the FS handler with index pages and listings on; canaries (file content, index.html and a file name) sit in the directory above the root. Round 4: fs-vhost: files of another host and of no host inside the root, doubly encoded dot segments and separators; unit file-from-fs: the request path before and after RequestContext.FileFromFS for every target of one or two tokens plus doubly encoded ones.",
    "assumptions": [
        "Linux build (backslash is an ordinary byte)",
        "targets containing CTL bytes are only checked for containment (URI.parse refuses them and yields '/')",
        "CleanPath equality reference is path.Clean('/'+p) plus the documented trailing-slash rule",
    ],
    "level_text": "Bounded-exhaustive exploration: every token string up to the stated length is checked against an independent segment-stack reference (equality) and the containment predicates of the statement, for URI.Path and CleanPath; the real FS handler is driven with every short target against a tree with canaries outside the root. Complete within the bound, sampled beyond it.",
    "level_note": "Trusts the 40-line reference normaliser and Go's path.Clean; Linux path semantics only; targets with CTL bytes checked for containment only.",
    "technique": "bounded-exhaustive enumeration + rapid random generation against a reference model (segment stack) and containment predicates; FS sandbox with canary files",
    "nontrivial_floor": 1000,
    "units": [
        {"name": "file-from-fs", "run": "^TestC07FileFromFS$", "kind": "plain"},
        {"name": "file-by-param", "run": "^TestC07FileByParam$", "kind": "plain"},
        {"name": "fs-vhost", "run": "^TestC07VHost$", "kind": "plain", "shards": 4},
        {"name": "regress", "run": "^TestC07Regress$", "kind": "plain"},
        {"name": "exhaustive", "run": "^TestC07Exhaustive$", "kind": "plain", "shards": 16},
        {"name": "random", "run": "^TestC07Random$", "kind": "rapid", "checks": {"quick": 40000, "thorough": 1600000}, "shards": {"quick": 4, "thorough": 16}},
        {"name": "fs-sandbox", "run": "^TestC07FS$", "kind": "plain", "shards": {"quick": 4, "thorough": 16}},
        {"name": "fs-random", "run": "^TestC07FSRandom$", "kind": "rapid", "checks": {"quick": 4000, "thorough": 160000}, "shards": {"quick": 2, "thorough": 16}},
    ],
}

CHECKS["C13"] = {
    "pkg": "props/c13",
    "level": "exploration",
    "rule": "rapid-generated operation sequences (1..60 steps quick, 1..200 thorough) on the real standard.Conn over a scripted net.Conn: initial buffer size in {0,1,4096,8192,65536}, "
            "position-dependent stream of 0..620000 bytes cut by a cyclic fragment pattern (1 B..20 KiB), EOF or timeout end; reader ops Peek/Skip/ReadByte/ReadBinary/Read/Release/Len with sizes around 1 KiB/4 KiB/8 KiB/64 KiB/512 KiB, Len() and remaining; "
            "writer ops Malloc/WriteBinary/Flush/Write with sizes around the 4 KiB zero-copy threshold and optional write-error injection. "
            "Non-trivial (reader) = a peek needing >=2 wire reads or >4 KiB, later a Release/Read, later another Peek; (writer) = Malloc and zero-copy WriteBinary mixed between two flushes. Distinct by FNV-64 of (config, op log).",
    "assumptions": [
        "callers respect the documented preconditions: Skip(n) only with n <= Len(); peeked slices not examined after Release/Read; WriteBinary buffers unmodified until Flush",
        "a short Peek may return any (possibly empty) prefix together with an error; the bytes stay readable",
    ],
    "level_text": "Model-based random exploration: every operation's result is compared with a plain byte-queue model, Len() with delivered-minus-consumed, every live peeked slice is re-compared after each later step until the next release, and at each Flush the peer must hold exactly the concatenation written so far.",
    "level_note": "Trusts the byte-queue model and the scripted net.Conn; sequences are sampled, not enumerated; needs hook H1 (NewConnForVerif).",
    "technique": "stateful property-based testing (rapid) against a byte-queue reference model",
    "nontrivial_floor": 50,
    "units": [
        {"name": "reader", "run": "^TestC13Reader$", "kind": "rapid", "checks": {"quick": 4000, "thorough": 80000}, "shards": {"quick": 8, "thorough": 16}},
        {"name": "writer", "run": "^TestC13Writer$", "kind": "rapid", "checks": {"quick": 3000, "thorough": 60000}, "shards": {"quick": 4, "thorough": 16}},
    ],
}

CHECKS["C01"] = {
    "pkg": "props/c01",
    "level": "exploration",
    "rule": "rapid-generated pipelined streams of 1..6 well-formed, unambiguously framed requests (methods incl. a custom token; header sets with repeated, mixed-case, obs-folded and near-miss framing names; "
            "bodies 0 B..70 KiB (512 KiB in thorough) centred on 1 KiB/4 KiB/8 KiB/64 KiB boundaries and salted with HTTP look-alikes; Content-Length with leading zeros/identical duplicate, chunked with arbitrary chunk sizes, hex case, leading zeros, declared trailers; "
            "Expect: 100-continue; HTTP/1.0 keep-alive; close on the last request) x segmentation (whole, byte-wise, fixed-size reads, cuts biased to message/chunk boundaries and 4 KiB multiples) x {buffered, streaming} x read buffer {1, 4096, 8192}, served by the real engine over a scripted connection. "
            "Non-trivial = >=2 requests, or chunked, or body >=4 KiB, or a cut strictly inside a body, or a folded/near-miss/mixed-case framing header; distinct by FNV-64 of (stream bytes, config, cuts). "
            "hostile-near-miss unit: exhaustive over every single-byte replacement at every position of the two framing names (value 5 / chunked) x real framing x placement x body mode. In streaming cases the echo handler sometimes stops after 0..20000 bytes of each body (the prefix is compared, all requests behind must still be served). loopback unit: the same reference over unix sockets behind the real netpoll transport, netpoll with IdleTimeout(0) (connection returned to the poller after every request) and the standard transport; the last request asks for close, segmentation is only suggested by pauses. Round 4: unit continue-declined: a ContinueHandler that refuses, the body sent without waiting (length or chunked framing, body = 1..3 look-alike requests behind 0..9000 padding bytes), an optional pipelined request, all cuts; no handler may run for anything but the refused request and the pipelined one.",
    "assumptions": [
        "obs-fold continuation lines that contain a colon are outside the generated domain (hertz rejects them with a clean 400, which RFC 7230 §3.2.4 allows)",
        "chunk extensions are not generated (hertz answers 400; C03 covers rejections)",
        "Host, Content-Type, User-Agent are never duplicated; no Cookie header in this generator",
        "header equality uses normal forms: case-insensitive names, OWS trimmed, fold = one or more SP, hop-by-hop/framing fields compared through framing instead",
    ],
    "level_text": "Random exploration against an independent RFC 7230 framing model: handler observations (method, target, header multiset, exact body bytes, declared trailers) must equal the abstract requests, and the output must decode under a strict response reader to exactly one final response per request in order (plus 100-continue exactly when asked).",
    "level_note": "Trusts the harness's own serialiser/strict reader (wire) and the scripted connection; standard transport via hook H1; netpoll only in the thorough loopback subset.",
    "technique": "property-based testing (rapid) with a reference framing model + bounded-exhaustive near-miss header enumeration",
    "nontrivial_floor": 500,
    "units": [
        {"name": "continue-declined", "run": "^TestC01ContinueDeclined$", "kind": "rapid", "checks": {"quick": 3000, "thorough": 60000}, "shards": {"quick": 2, "thorough": 8}},
        {"name": "regress", "run": "^TestC01Regress$", "kind": "plain"},
        {"name": "hostile-near-miss", "run": "^TestC01HostileNearMiss$", "kind": "plain", "shards": 8},
        {"name": "streams", "run": "^TestC01Streams$", "kind": "rapid", "checks": {"quick": 12000, "thorough": 400000}, "shards": {"quick": 8, "thorough": 16}},
        {"name": "multipart-epilogue", "run": "^TestC01Multipart$", "kind": "rapid", "checks": {"quick": 2400, "thorough": 80000}, "shards": {"quick": 4, "thorough": 16}},
        {"name": "loopback", "run": "^TestC01Loopback$", "kind": "rapid", "checks": {"quick": 600, "thorough": 24000}, "shards": {"quick": 4, "thorough": 16}},
    ],
}

CHECKS["C14"] = {
    "pkg": "props/c14",
    "level": "exploration",
    "rule": "Streaming mode. rapid: one request (body 0..70 KiB centred on the 8192/8193 prefetch limit, Content-Length or chunked with arbitrary chunk sizes/trailers, optional Expect: 100-continue) x consumption program (cyclic read sizes from {1..65536}, stop after 0 / any byte count / chunk edge +-1 / 8191..8193 / end, or read to EOF and once more) x {pipelined probe, end of stream, peer closes mid-message} x segmentation x read buffer. "
            "Exhaustive unit: small bodies and bodies whose tail looks like a terminating chunk plus a smuggled request x every chunking x every stop point x read size {1,2,64} x {whole, byte-wise, every single cut}. "
            "Non-trivial = non-empty body, probe follows, and (stop strictly inside the body, or body > 8192, or >= 2 chunks); distinct by FNV-64 of (request bytes, program, cuts). MaxRequestBodySize (in streaming mode the size of the pre-read window) is drawn from {8 MiB, 16, 1000, 8192, 20000}. loopback unit: the same programs over unix sockets behind netpoll, netpoll with IdleTimeout(0) and the standard transport, followed by a probe that asks for close. Round 4: handler programs may take the body through Request.Body() and may detach the stream afterwards (SetBodyString, ResetBody, CloseBodyStream, SetBodyStream); unit read-timeout: netpoll and standard transports behind unix sockets, read timeout 80 ms, a pause of 120 / 140 / 20 ms in front of a chunk-size line whose chunk reads like a trailer section and a request.",
    "assumptions": [
        "closing the connection instead of resynchronising is allowed (as the statement says); a 4xx written after the streamed request's response is not: it means unread body bytes were parsed as a request",
        "for a peer that closes mid-body the stream must report an error other than io.EOF when read to the end",
        "the 'never waits for bytes beyond the body' clause is checked without timing: no wire Read may be issued during the handler once all bytes of the message were delivered",
    ],
    "level_text": "Random + bounded-exhaustive exploration with a prefix/EOF oracle on the body stream, a wire-read phase oracle for over-reading, and a pipelined probe that must be served as itself (or the connection closed) after the handler returns.",
    "level_note": "Trusts wire's serialiser/strict reader and the scripted connection; standard transport only in the quick tier.",
    "technique": "property-based testing (rapid) + bounded-exhaustive stop-point enumeration with prefix/EOF and resynchronisation oracles",
    "nontrivial_floor": 500,
    "units": [
        {"name": "read-timeout", "run": "^TestC14ReadTimeout$", "kind": "plain"},
        {"name": "regress", "run": "^TestC14Regress$", "kind": "plain"},
        {"name": "exhaustive-stops", "run": "^TestC14Exhaustive$", "kind": "plain", "shards": 8},
        {"name": "stream", "run": "^TestC14Stream$", "kind": "rapid", "checks": {"quick": 16000, "thorough": 400000}, "shards": {"quick": 8, "thorough": 16}},
        {"name": "loopback", "run": "^TestC14Loopback$", "kind": "rapid", "checks": {"quick": 480, "thorough": 16000}, "shards": {"quick": 4, "thorough": 16}},
    ],
}

CHECKS["C02"] = {
    "pkg": "props/c02",
    "level": "exploration",
    "rule": "Metamorphic: obs(bytes delivered whole) == obs(same bytes under another segmentation). Server direction: streams of 1..3 requests from the C01 generator (folded headers, chunk boundaries, trailers, pipelined successors), one third structure-aware mutants, buffered and streaming; "
            "client direction: responses from the wire generator (fixed, chunked+trailers, until-close, bodiless with stray framing, 100-continue interim, folded headers), mutants and trailing second responses, read by the real HostClient.Do through a scripted dialer, buffered and ResponseBodyStream. "
            "Segmentations per stream: EVERY 2-way cut (streams <= 1500 bytes; otherwise <=260 cuts at part boundaries +-3, 4 KiB multiples +-1 and 1% steps), byte-wise (<= 6000 bytes), and 5 rapid-drawn k-way splits. "
            "One evaluation = one (stream, segmentation) pair; non-trivial = cut strictly inside a message that has a folded line/chunked body/trailer/pipelined successor; distinct by FNV-64 of (bytes, mode, cuts).",
    "assumptions": [
        "observations: server = handler-seen requests, output bytes with Date masked, closed, panicked; client = error class, status, VisitAll header list, body, trailers, connection closed/pooled",
        "error values are compared by class: the diagnostic buffer dump hertz appends to parse errors (buffer size + quoted snippet) is stripped because it legitimately reflects how much had been read",
    ],
    "level_text": "Metamorphic exploration without a reference model: the same bytes must give the same observable result whatever way they are cut into reads; every 2-way split point of every generated stream is enumerated, in both directions and both body modes.",
    "level_note": "Trusts the scripted connection to deliver exactly the generated fragments (one fragment per Read at most); says nothing about whether the common result is right (C01/C11 do).",
    "technique": "metamorphic property-based testing (rapid) with exhaustive 2-way split enumeration per generated stream",
    "nontrivial_floor": 1000,
    "units": [
        {"name": "server", "run": "^TestC02Server$", "kind": "rapid", "checks": {"quick": 480, "thorough": 9600}, "shards": {"quick": 12, "thorough": 16}},
        {"name": "client", "run": "^TestC02Client$", "kind": "rapid", "checks": {"quick": 400, "thorough": 8000}, "shards": {"quick": 4, "thorough": 16}},
    ],
}

CHECKS["C03"] = {
    "pkg": "props/c03",
    "level": "exploration",
    "rule": "server: structure-aware mutants (delete/duplicate/transpose line, truncate, replace delimiter by a hostile byte, insert hostile bytes/snippets such as 'Trailer: a,,b', 'GET a:b', overflowing numbers, bit flips, splices) of generated pipelined streams, plus pure havoc strings, under random segmentation, EOF/timeout/reset endings, buffered and streaming, on the default engine without recovery middleware; "
            "body-limit: well-formed requests with MaxRequestBodySize in {1,100,4096,8192} and bodies around the limit, CL and chunked, with/without Expect; client: mutants of generated responses read by HostClient.Do (buffered + streaming); "
            "parsers: hostile atom strings into 17 exported parser entry points (URI, Args, Cookie, request cookies, Set-Cookie, Trailer, multipart boundary/form, Range, Content-Length, If-Modified-Since, Accept-Encoding); thorough adds 8 native coverage-guided fuzz targets. "
            "Non-trivial (server) = the strict request reader rejects the input or finds fewer than 3 well-formed requests; distinct by FNV-64 of (input, mode, cuts). Round 4: a quarter of the server cases run with the request body limit switched off (MaxRequestBodySize 0); saved inputs announce 9e18 / 2^63-1 / 2^62 bytes under that configuration.",
    "assumptions": [
        "whether lenient hertz rejects a given malformed message is not asserted; only the shape of a rejection (one 4xx + Connection: close, last bytes written, connection closed, no handler) and, for the body limit, that it always happens",
        "engine-level 4xx without Connection: close (e.g. missing Host) are ordinary responses; silent close without a response is allowed",
        "prefix-correctness: while the strict reader finds well-formed requests, what a handler sees for them must have the same method, target and body",
        "resource exhaustion by absurd but allocatable declared lengths is not counted as a panic",
    ],
    "level_text": "Random structure-aware mutation and havoc against oracles 'no panic escapes', 'output is a sequence of well-formed responses under a strict reader', the rejection shape and the body-limit rule; thorough tier adds coverage-guided native fuzzing with the same oracles.",
    "level_note": "Sampling only; trusts the strict readers in wire; panics are observed by recovering around engine.onData / HostClient.Do / each parser call.",
    "technique": "property-based testing with structure-aware mutators (rapid) + native coverage-guided fuzzing; strict-reader and rejection-shape oracles",
    "nontrivial_floor": 1000,
    "units": [
        {"name": "redirects", "run": "^TestC03Redirects$", "kind": "plain", "shards": 4},
        {"name": "client-redirect", "run": "^TestC03ClientRedirect$", "kind": "rapid", "checks": {"quick": 400, "thorough": 8000}, "shards": {"quick": 4, "thorough": 8}},
        {"name": "regress", "run": "^TestC03Regress$", "kind": "plain"},
        {"name": "client", "run": "^TestC03Client$", "kind": "rapid", "checks": {"quick": 8000, "thorough": 160000}, "shards": {"quick": 4, "thorough": 16}},
        {"name": "parsers", "run": "^TestC03Parsers$", "kind": "rapid", "checks": {"quick": 120000, "thorough": 2400000}, "shards": {"quick": 8, "thorough": 16}},
        {"name": "server", "run": "^TestC03Server$", "kind": "rapid", "checks": {"quick": 24000, "thorough": 480000}, "shards": {"quick": 8, "thorough": 16}},
        {"name": "body-limit", "run": "^TestC03BodyLimit$", "kind": "rapid", "checks": {"quick": 4000, "thorough": 80000}, "shards": {"quick": 4, "thorough": 16}},
    ] + [
        {"name": n, "run": "^%s$" % n, "kind": "fuzz", "tiers": ["thorough"], "exclusive": True, "fuzztime": {"thorough": "40s"}, "parallel": 16}
        for n in ["FuzzServerBytes", "FuzzClientBytes", "FuzzURI", "FuzzCookie", "FuzzArgs", "FuzzRange", "FuzzTrailer", "FuzzMultipart"]
    ],
}

CHECKS["C04"] = {
    "pkg": "props/c04",
    "level": "exploration",
    "rule": "A case is a connection of 1..5 requests (GET/HEAD/POST/PUT/OPTIONS, HTTP/1.1 or 1.0 with/without keep-alive, optional close), each answered by a generated handler program: status from {100,101,102,199,200,201,204,205,206,301,304,400,404,500,599} set before or after the body call; 0..4 headers via ctx.Header/Header.Set/Header.Add; "
            "body mode in {none, SetBodyString, SetBody, repeated ctx.Write, repeated AppendBody, SetBodyStream(known length), SetBodyStream(-1), SetBodyStream(LimitedReader,-1), hijacked chunked writer with arbitrary Write/Flush pattern}; sizes centred on 4 KiB/8 KiB/64 KiB; stream readers delivering arbitrary piece sizes; optional trailers and SetConnectionClose. "
            "grid unit: exhaustive status x mode x method x protocol x size class x status-before/after, each followed by a second response. Non-trivial = stream/chunked-writer body, or a body set on a bodiless status/HEAD; distinct by FNV-64 of the case. Round 4: zero-length writes before every real one (ctx.Write and chunked writer), Content-Length set through the header API after SetBodyStream(r,-1), a status set first and replaced after the body was set (known finding D48 for bodiless-first).",
    "assumptions": [
        "documented exclusion (the property's quantifier): the hijacked chunked writer is not installed when (method, status) forbids a body; with it, status and headers are set before the first Write. Inside the quantifier and generated since round 7: installed under 200 to a GET/POST, nothing written, status then 204/304/1xx",
        "stream readers deliver exactly the declared number of bytes and never (0, nil); header values are non-empty (setting an empty value is a deletion in this API)",
        "default headers hertz adds (Server, Date, Content-Type) are ignored; the presence of Connection: close is not asserted (only that nothing follows and the connection is closed)",
    ],
    "level_text": "Random + grid exploration decoded by two independent clients (own strict RFC 7230 response reader and net/http.ReadResponse): both must yield exactly the programmed status, headers and body for every response of the connection, with nothing between or after the messages.",
    "level_note": "Trusts wire's strict reader and Go's net/http as decoders; standard transport over a scripted connection.",
    "technique": "property-based testing (rapid) over handler programs + exhaustive grid, differential decoding by two independent HTTP clients",
    "nontrivial_floor": 500,
    "units": [
        {"name": "grid", "run": "^TestC04Grid$", "kind": "plain", "shards": 8},
        {"name": "programs", "run": "^TestC04Programs$", "kind": "rapid", "checks": {"quick": 8000, "thorough": 160000}, "shards": {"quick": 8, "thorough": 16}},
    ],
}

CHECKS["C19"] = {
    "pkg": "props/c19",
    "level": "exploration",
    "rule": "Connection histories served by the real engine with a recording tracer (server.WithTracer): 0..5 requests, each with an outcome from {ok, handler panic + recovery middleware, malformed header, body too large, peer closes mid-body, hijack, Expect: 100-continue, streamed body partially read, write error injected at the middle of that response}; "
            "end of connection {peer EOF, idle timeout (scripted timeout error), Connection: close}; trace level {disabled, base, detailed}; IdleTimeout non-zero (in-loop keep-alive) or zero (protocol server returns to the poller after each request; re-entered while data is readable); buffered/streaming; optional segmentation. "
            "exhaustive unit: all histories of <=3 requests x all configurations. Non-trivial = >=2 requests, or a non-ok outcome, or a keep-alive connection ended by the peer/idle timeout; distinct by FNV-64 of the history. Every history is preceded by an exchange that ends in an error on a connection of its own (the pooled context it used is the one the history gets); Finish records Stats().Error().",
    "assumptions": [
        "a start/finish pair without request data is accepted only for a connection that sent nothing",
        "for rejected requests (malformed, too large in buffered mode, truncated body) the pair must exist but the data its Finish carries is not asserted",
        "stage timestamps are those hertz recorded itself and are compared with <= (no tolerance needed); events absent because of the trace level are not required",
        "the return-to-poller mode is emulated by re-entering engine.onData while unread data remains, as a poller-based transport does",
    ],
    "level_text": "Random + bounded-exhaustive exploration of connection histories against an alternation automaton (S F)*, an exact pair count per started request, request identity in Finish, and stage ordering/closure read inside Finish.",
    "level_note": "Trusts the recording tracer and the scripted connection; netpoll's real idle handling is emulated, not run.",
    "technique": "property-based testing (rapid) + bounded-exhaustive history enumeration against a trace automaton",
    "nontrivial_floor": 300,
    "units": [
        {"name": "finish-after-release", "run": "^TestC19FinishAfterRelease$", "kind": "plain"},
        {"name": "finish-after-buffers-released", "run": "^TestC19FinishAfterBuffersReleased$", "kind": "plain"},
        {"name": "exhaustive-nopool", "run": "^TestC19Exhaustive$", "kind": "plain", "shards": 4, "env": {"HERTZ_DISABLE_REQUEST_CONTEXT_POOL": "true"}},
        {"name": "exhaustive", "run": "^TestC19Exhaustive$", "kind": "plain", "shards": 8},
        {"name": "histories", "run": "^TestC19Histories$", "kind": "rapid", "checks": {"quick": 6000, "thorough": 120000}, "shards": {"quick": 8, "thorough": 16}},
    ],
}

CHECKS["C12"] = {
    "pkg": "props/c12",
    "level": "exploration",
    "rule": "chains: EVERY sequence of length 1..5 (thorough 1..7) over the seven behaviours {return, Next, Abort, Next;Abort, Abort;Next, Next;Next, AbortWithStatus} as the handler chain of a route, executed through Engine.ServeHTTP (19,607 / 960,799 programs, distinct by construction); non-trivial = length >= 2 with at least one Next and one Abort-family behaviour. "
            "assembly: rapid-generated interleavings of Use / Group(prefix[, mw]) / route registration / NoRoute / NoMethod on group trees of depth <= 3, HandleMethodNotAllowed on/off, probed with matched, wrong-method and unmatched requests; non-trivial = a Use after a route registration; distinct by FNV-64 of the op list. Round 4: units wire / wire-nopool: every chain of length 1..3 (thorough 1..5) behind one engine-level middleware, twice per connection plus the not-found path, through the HTTP/1 server loop with the request context pool on and off (HERTZ_DISABLE_REQUEST_CONTEXT_POOL).",
    "assumptions": [
        "chains stay below the documented 63-handler limit",
        "middleware an ancestor group receives AFTER a descendant group was created is accepted either way for routes of that descendant (the statement pins down middleware attached 'before a route is registered'; hertz copies the ancestors' middleware when a group is created)",
    ],
    "level_text": "Complete enumeration of handler chains up to the stated length against a reference interpreter of the onion rule plus the statement's predicates checked directly on the trace; random exploration of group assembly against the chain each route must have.",
    "level_note": "Exhaustive within the chain-length bound; trusts the 30-line reference interpreter (cross-checked by the direct predicates).",
    "technique": "bounded-exhaustive enumeration against a reference interpreter + rapid-generated group assembly programs",
    "nontrivial_floor": 1000,
    "units": [
        {"name": "wire", "run": "^TestC12Wire$", "kind": "plain", "shards": {"quick": 1, "thorough": 4}},
        {"name": "wire-nopool", "run": "^TestC12Wire$", "kind": "plain", "shards": {"quick": 1, "thorough": 4}, "env": {"HERTZ_DISABLE_REQUEST_CONTEXT_POOL": "true"}},
        {"name": "chains", "run": "^TestC12Chains$", "kind": "plain", "shards": {"quick": 4, "thorough": 16}},
        {"name": "assembly", "run": "^TestC12Assembly$", "kind": "rapid", "checks": {"quick": 4000, "thorough": 80000}, "shards": {"quick": 4, "thorough": 16}},
    ],
}

CHECKS["C20"] = {
    "pkg": "props/c20",
    "level": "exploration",
    "rule": "typed: rapid-generated typed expression trees (Num: literals incl. negatives/fractions, numeric fields of kinds int64/float64/uint8/int32/int, len(), + - * / %, unary minus; Str: literals with escaped quotes, string fields, concatenation; Bool: literals, bool field, !, numeric/string/bool comparisons, && ||, regexp(), in()) of depth <= 4 (thorough <= 6), "
            "each printed three ways (minimal parentheses relying on precedence and left associativity, fully parenthesised, randomly redundant) with random spacing, compiled afresh as the vd tag of a reflect.StructOf type, evaluated on generated field values. Non-trivial = minimal printing differs from full printing and the tree has >= 2 precedence levels; distinct by FNV-64 of (minimal printing, values). "
            "wild-nopanic: untyped operator soups over the property's alphabet (literals, nil, field refs to nil pointers/slices/maps/interfaces, element access, len/regexp/in) checked for panics only. wild-relations unit: two operands of any kind (nil pointers, NaN from division by zero, strings against numbers, slices, booleans) and the implications between the verdicts of >=, >, <=, <, ==, != that the documented operator names mean. Round 4: negation relations (!X vs !(X) for every atom; !f vs f for regexp/in), element indexes below zero and computed from a field, a typed nil pointer in the interface field; unit by-value: 6 field kinds x tags x {single field, single field in a struct, in a one-element array, two fields} x values, validated by value and by pointer.",
    "assumptions": [
        "division or remainder by zero (or a divisor truncating to zero, or operands beyond 2^62 for %) is classified undefined-arith: only 'no panic' and 'all three printings agree' are required there",
        "only well-typed expressions are compared with the evaluator; registered functions other than len/regexp/in are outside the statement",
    ],
    "level_text": "Random exploration against an independent float64 evaluator over the expression TREE (documented precedence, left associativity, % as float64(int64(a)%int64(b))) plus the metamorphic relation 'parenthesisation implied by precedence == explicit parentheses'; panics are caught around binding.Validate.",
    "level_note": "Trusts the 100-line evaluator and the printer; sampled, not exhaustive.",
    "technique": "property-based testing (rapid) with a reference evaluator and a metamorphic re-parenthesisation relation",
    "nontrivial_floor": 500,
    "units": [
        {"name": "nested-selectors", "run": "^TestC20NestedSelectors$", "kind": "plain"},
        {"name": "binder-nested", "run": "^TestC20BinderNested$", "kind": "plain"},
        {"name": "containers", "run": "^TestC20Containers$", "kind": "rapid", "race": True, "checks": {"quick": 3000, "thorough": 80000}, "shards": {"quick": 4, "thorough": 16}},
        {"name": "by-value", "run": "^TestC20ByValue$", "kind": "plain"},
        {"name": "regress", "run": "^TestC20Regress$", "kind": "plain"},
        {"name": "typed", "run": "^TestC20Typed$", "kind": "rapid", "checks": {"quick": 8000, "thorough": 240000}, "shards": {"quick": 8, "thorough": 16}},
        {"name": "wild-nopanic", "run": "^TestC20Wild$", "kind": "rapid", "checks": {"quick": 6000, "thorough": 160000}, "shards": {"quick": 4, "thorough": 16}},
        {"name": "wild-relations", "run": "^TestC20Relations$", "kind": "rapid", "checks": {"quick": 4000, "thorough": 160000}, "shards": {"quick": 4, "thorough": 16}},
    ],
}

CHECKS["C06"] = {
    "pkg": "props/c06",
    "level": "exploration",
    "rule": "exhaustive: ALL route sets of size 1..2 (thorough also size 3) over the patterns with <= 2 segments from {a,b,ab,ba,c,:x,:y,a:x,*z} (+ trailing-slash variants and '/'), EVERY registration order, EVERY request path with <= 3 segments over {a,b,ab,ba,c,abc} (+ trailing slash); "
            "random: sets of 3..12 patterns with <= 4 segments and shared prefixes over GET/POST, 4 registration orders, request paths derived from the patterns (parameters filled with values colliding with sibling static text, segments dropped/appended, trailing slash toggled, static prefix extended). "
            "One evaluation = one (route set, method, path) lookup compared across all orders and with the reference; non-trivial = the reference trie offers more than one kind of child at some position or backtracks. Round 4: a quarter of the random sets run with UseRawPath (route on the raw target, parameter values unescaped afterwards), with escaped separators and letters inside parameter values.",
    "assumptions": [
        "route sets that registration rejects (panics) in any tested order are outside the property's domain; they are counted, not checked",
        "whether a parameter may match the empty string is not pinned down by the statement: lookups where the two readings differ are checked for order independence only (class ambiguous-empty-param)",
        "default engine options (RedirectTrailingSlash on, UseRawPath off); a redirect counts as 'no route handler ran'",
    ],
    "level_text": "Bounded-exhaustive + random differential check against an uncompressed-trie reference matcher written from the documented priority rule (static > parameter > catch-all with backtracking), comparing which handler ran, the parameter values and FullPath(), plus the metamorphic relation 'all registration orders give the same outcome'.",
    "level_note": "Complete within the stated pattern/path alphabet and set size; trusts the 80-line reference matcher.",
    "technique": "bounded-exhaustive enumeration + rapid random route sets against a reference matcher; order-independence metamorphic relation",
    "nontrivial_floor": 1000,
    "units": [
        {"name": "exhaustive", "run": "^TestC06Exhaustive$", "kind": "plain", "shards": 16},
        {"name": "exhaustive-triples", "run": "^TestC06Triples$", "kind": "plain", "shards": 16, "tiers": ["thorough"]},
        {"name": "random-sets", "run": "^TestC06Random$", "kind": "rapid", "checks": {"quick": 2000, "thorough": 80000}, "shards": {"quick": 4, "thorough": 16}},
    ],
}

CHECKS["C17"] = {
    "pkg": "props/c17",
    "level": "exploration",
    "rule": "Args: every (key,value) pair with 0..2 symbols each over the hostile alphabet {% + & = ; # ? / : @ SP NUL a Z 0 e-acute 0xff quote comma} alone and inside a 3-entry list (round-trip and fixed point); every query string of 0..4 (thorough 0..5) symbols over {% + & = ; a 4 1 %41 %2 %zz SP e-acute / ?} compared with net/url.ParseQuery where it accepts; random lists of arbitrary bytes. "
            "URI: every string of 0..3 (thorough 0..4) alphabet symbols as path segment / inner segment / arg key+value / fragment / raw query x schemes x hosts incl. ports and IPv6 literals (parse(FullURI) equality, fixed point, RequestURI re-parse); random longer ones. "
            "URI programs: rapid-drawn sequences of 1..7 setter calls (SetQueryString, QueryArgs().Add/Del/Peek, SetPath, SetHash, SetHost, CopyTo) with path normalizing on or off; the URI's own view (getters, QueryArgs() of a copy) when the string is taken must equal what parsing the string yields; non-trivial = two query operations, a query operation after a read, or normalizing off. A fragment with a control byte is run and reported as known finding D36 (counted under excluded). "
            "Cookie: keys x values x domains x paths x all flag subsets x 5 SameSite modes x Max-Age x Expires exhaustively, plus random token/value strings. Non-trivial = a slot contains a byte that must be escaped or a delimiter of its context; exhaustive units are distinct by construction.",
    "assumptions": [
        "excluded by construction (counted): raw query strings containing '#' or CTL bytes (a raw query is given in wire form), hosts containing / ? # @, cookie values with ';' or surrounding quotes/spaces; a fragment with a CTL byte is run and is known finding D36",
        "userinfo is not part of FullURI and is not compared; host and scheme are compared lower-cased (documented)",
        "entries with both key and value empty are excepted, as the statement says; the public Args API cannot create a key without '='",
        "when both Max-Age and Expires are set hertz serialises Max-Age only (documented in SetMaxAge): then Max-Age is compared",
    ],
    "level_text": "Bounded-exhaustive + random round-trip and fixed-point checks for the three codecs, plus a differential check of query parsing against net/url on every generated string net/url accepts.",
    "level_note": "Complete within the stated alphabets and lengths; trusts net/url as the independent query parser.",
    "technique": "bounded-exhaustive enumeration + rapid; round-trip / fixed-point oracles and differential testing against net/url",
    "nontrivial_floor": 1000,
    "units": [
        {"name": "uri-programs", "run": "^TestC17URIPrograms$", "kind": "rapid", "checks": {"quick": 20000, "thorough": 400000}, "shards": {"quick": 2, "thorough": 16}},
        {"name": "args-exhaustive", "run": "^TestC17ArgsExhaustive$", "kind": "plain", "shards": 8},
        {"name": "args-vs-neturl", "run": "^TestC17ArgsDifferential$", "kind": "plain", "shards": 8},
        {"name": "args-random", "run": "^TestC17ArgsRandom$", "kind": "rapid", "checks": {"quick": 20000, "thorough": 800000}, "shards": {"quick": 4, "thorough": 16}},
        {"name": "uri-exhaustive", "run": "^TestC17URIExhaustive$", "kind": "plain", "shards": 8},
        {"name": "uri-random", "run": "^TestC17URIRandom$", "kind": "rapid", "checks": {"quick": 20000, "thorough": 800000}, "shards": {"quick": 4, "thorough": 16}},
        {"name": "cookie-exhaustive", "run": "^TestC17CookieExhaustive$", "kind": "plain", "shards": 8},
        {"name": "cookie-random", "run": "^TestC17CookieRandom$", "kind": "rapid", "checks": {"quick": 20000, "thorough": 800000}, "shards": {"quick": 4, "thorough": 16}},
    ],
}

CHECKS["C05"] = {
    "pkg": "props/c05",
    "level": "exploration",
    "rule": "(entry point, name input a, value input b): 58 closures, one per public header-writing API on RequestHeader, Request, ResponseHeader (incl. SetCookie with hostile key/value/domain/path and re-parsed cookies), Trailer (header announcement and trailer section) and the RequestContext helpers (Header, SetCookie, SetPartitionedCookie, Redirect, SetContentType); "
            "exhaustive: every string of <=1 (thorough <=2) symbols over {CR, LF, NUL, ':', SP, 'a', ';', '='} as name (alone and after a benign token) x every string of <=3 (thorough <=4) symbols as value, plus classic CRLF payloads; random: 0..24 bytes over the hostile alphabet. "
            "Each message (written by the real request/response serialisers) is compared with its benign twin (hostile bytes replaced by 'x'). Non-trivial = the input contains CR or LF (or ':', NUL, SP in a name). Round 4: the empty string as a header name (its benign twin is a valid name); unit streamed-late-set: chunked body writer, header blocks of 0..9000 bytes around the 4 KiB zero-copy threshold, hostile setter calls between the first Write and the flush.",
    "assumptions": [
        "method and request-URI stay benign (the statement does not list them)",
        "a field whose name is hostile may be dropped (one line fewer than the twin); an empty field name is garbage-in and skipped (class twin-unparseable)",
        "NUL and other control bytes inside values may pass through: the statement is about line breaks",
        "a panic produces no message and is C03's business (class panicked)",
    ],
    "level_text": "Bounded-exhaustive + random exploration with a strict line reader and a benign-twin differential: exactly one start line, no bare CR/LF in any line, every line 'token: value', the same number of header lines as the twin (or one fewer when the name was hostile), and the header block ending at the same place (identical body).",
    "level_note": "Trusts the table of entry points (cross-checked by reflection against the exported Set*/Add*/Update* methods of the header types; an uncovered setter makes the run inconclusive).",
    "technique": "bounded-exhaustive enumeration + rapid over an entry-point table, differential against a benign twin under a strict header-line reader",
    "nontrivial_floor": 1000,
    "units": [
        {"name": "streamed-late-set", "run": "^TestC05Streamed$", "kind": "rapid", "checks": {"quick": 1500, "thorough": 40000}, "shards": {"quick": 2, "thorough": 16}},
        {"name": "trailer-late-set", "run": "^TestC05TrailerLate$", "kind": "rapid", "checks": {"quick": 400, "thorough": 8000}, "shards": {"quick": 2, "thorough": 16}},
        {"name": "selftest", "run": "^TestC05SelfTest$", "kind": "plain"},
        {"name": "exhaustive", "run": "^TestC05Exhaustive$", "kind": "plain", "shards": 8},
        {"name": "random", "run": "^TestC05Random$", "kind": "rapid", "checks": {"quick": 40000, "thorough": 800000}, "shards": {"quick": 4, "thorough": 16}},
    ],
}

CHECKS["C15"] = {
    "pkg": "props/c15",
    "level": "exploration",
    "rule": "Struct types built at run time with reflect.StructOf (1..6 exported fields; kinds bool, int/int8..64, uint/uint8..64, float32/64, string; as scalar, pointer or slice; any subset of the six source tags path/form/query/cookie/header/json with distinct key names per source, optional 'required' on one tag, optional default tag; some fields untagged), each a new type identity (cold decoder cache); "
            "1..4 requests per type, real wire bytes parsed by hertz, carrying values under any subset of the sources (body none/urlencoded/multipart/JSON): valid text incl. min/max of the width, invalid and out-of-range text as a separate class; every (type, request) bound twice (Bind then BindAndValidate) and earlier types re-bound after later ones were introduced; concurrent unit: 4..12 types bound from 8 goroutines (thorough: under the race detector). "
            "Non-trivial = a field with a value in >= 2 of its sources, or a required/default field with no value; distinct by FNV-64 of (field specs, request spec). Round 4: json bodies under Application/JSON and charset spellings, json bodies that arrive chunked as a body stream (parsed with ReadBodyStream), header tags in lower case.",
    "assumptions": [
        "distinct key names per source take hertz's documented form-falls-back-to-query behaviour out of the picture",
        "present-but-empty values for non-string kinds, file/struct/map fields and raw_body are not generated; slices only receive valid texts",
        "a missing required value must be an error even when a default is declared",
    ],
    "level_text": "Random exploration against a 60-line reference binder written from the documented priority list (path, form, query, cookie, header, JSON), strconv conversions, default/required rules; results must be identical on repeated and concurrent use.",
    "level_note": "Trusts the reference binder and reflect.StructOf type generation; sampled.",
    "technique": "property-based testing (rapid) with run-time generated types against a reference binder; repeat/concurrency metamorphic relation",
    "nontrivial_floor": 300,
    "units": [
        {"name": "regress", "run": "^TestC15Regress$", "kind": "plain"},
        {"name": "bind", "run": "^TestC15Bind$", "kind": "rapid", "checks": {"quick": 1600, "thorough": 32000}, "shards": {"quick": 8, "thorough": 16}},
        {"name": "concurrent", "run": "^TestC15Concurrent$", "kind": "rapid", "checks": {"quick": 160, "thorough": 1600}, "shards": {"quick": 4, "thorough": 8}},
        {"name": "concurrent-race", "run": "^TestC15Concurrent$", "kind": "rapid", "race": True, "tiers": ["thorough"], "checks": {"thorough": 400}, "shards": {"thorough": 8}},
    ],
}

CHECKS["C08"] = {
    "pkg": "props/c08",
    "level": "exploration",
    "rule": "A temp tree (files of every length 0..12, files of MaxSmallFileSize-1/0/+1 bytes and 70000 bytes, directories with and without index file, a canary outside the root) served by the real engine through StaticFS (+PathRewrite; byte ranges on/off; Compress; GenerateIndexPages; IndexNames), Static, StaticFile, ctx.File and ctx.FileFromFS. "
            "range-grid: every file length 0..6 (thorough 0..12) x 5 routes x every Range form a-b / a- / -n for a,b,n in 0..N+1 plus 20 malformed, reversed, wrong-unit and overflowing forms x {GET, HEAD, GET again}; random: keep-alive connections of 1..5 requests over paths incl. traversal attempts, directories, missing files, random ranges around the file length, If-Modified-Since older/equal/newer/garbage, Accept-Encoding gzip, repeated requests (file cache). "
            "One evaluation = one request judged; non-trivial = carries a Range header or is a repeated (cached) request. cache-expiry unit: 40 ms file cache behind a middleware that holds the response 170 ms after the file handler returned (small, big, compressed files, ranges): the announced bytes must still be delivered. replaced-file unit: a file is replaced (same second, +500 ms mtime) after its gzip variant was cached; after expiry every request gets the new content (polled, no timing verdict). Round 4: file names of 246, 250 and 255 bytes (name + compressed-copy suffix beyond NAME_MAX) in the tree and in the random path pool.",
    "assumptions": [
        "single ranges only; ignoring Range (200 whole file) is always acceptable; unsatisfiable/invalid ranges may get 416 or 200 but never 206",
        "a byte position beyond int64 may be clamped (RFC) or refused with 416 (hertz)",
        "directories: index file, generated listing, 403/404 or the router's trailing-slash redirect are all accepted; Content-Type is not compared",
        "files are created with a fixed mtime in the past; 304 is only legal when If-Modified-Since >= mtime",
    ],
    "level_text": "Bounded-exhaustive + random exploration against an RFC 7233 single-range reference computed over the real file bytes, with the response decoded by a strict reader (Content-Length == body, keep-alive stream in sync), HEAD mirrored against GET, gzip bodies decompressed and compared, and a canary outside the root.",
    "level_note": "Trusts the reference range classifier and path normaliser; standard transport over a scripted connection.",
    "technique": "bounded-exhaustive range grid + rapid request sequences against an RFC 7233 reference over real files",
    "nontrivial_floor": 500,
    "units": [
        {"name": "vhost", "run": "^TestC08VHost$", "kind": "plain"},
        {"name": "raw-param", "run": "^TestC08RawParam$", "kind": "plain"},
        {"name": "replaced-file", "run": "^TestC08Replaced$", "kind": "plain"},
        {"name": "cache-expiry", "run": "^TestC08CacheExpiry$", "kind": "plain", "shards": 8},
        {"name": "range-grid", "run": "^TestC08RangeGrid$", "kind": "plain", "shards": 8},
        {"name": "random", "run": "^TestC08Random$", "kind": "rapid", "checks": {"quick": 4000, "thorough": 100000}, "shards": {"quick": 4, "thorough": 16}},
    ],
}

CHECKS["C09"] = {
    "pkg": "props/c09",
    "level": "exploration",
    "rule": "context: a random program of 1..12 calls over the exported method sets of RequestContext, Request, RequestHeader, Response, ResponseHeader, URI, query/post Args and both Trailers (every method whose parameters can be synthesised from string/[]byte/int/bool/time/io.Reader/error/interface/map/CookieSameSite/*Cookie/context, ~370 methods enumerated by reflection, minus a deny-list of methods that end the experiment) plus direct assignments to exported fields, "
            "run while serving one of 4 dirty requests (form POST, HEAD, chunked multipart PUT with trailer, JSON POST with Expect) and ending in return / Abort / AbortWithStatus / panic caught by the recovery middleware / SetConnectionClose; then one of 3 probe requests (matched route, unmatched route with form body, multipart) on the same keep-alive connection or on a new connection (context from the pool). "
            "pooled-objects: Acquire -> random calls -> Release -> Acquire for Request, Response, URI, Cookie. Non-trivial = the program changed the dump during the dirty request AND the probe got the pointer-identical context/object; distinct by FNV-64 of the case. concurrent: 8 goroutines interleave dirty and probe connections on one engine (race detector in the thorough tier). Three server configurations are drawn (default; default Date/Content-Type disabled; header-name normalising off + raw path options) with fresh baselines per configuration; probe requests include value-less keys and empty values in every position of query, form, cookie and header. Round 4: pooled objects: a climbing path (/.., /a/../..) before the random calls, then a second program applied both to the recycled and to a new object (dumps must agree) and a probe of a zero URI; context programs end in a panic inside a ForEachKey callback as a sixth ending, the probe writes a key (bounded); unit wiring-setters (known finding D60).",
    "assumptions": [
        "the dump is every exported zero-argument getter of those objects (enumerated by reflection, canonically rendered, Date masked) plus VisitAll enumerations, Params, Keys, Errors, exported flags, cookie/form/query/multipart lookups, and the probe's serialised response",
        "connection- and engine-scoped state (conn, trace info object, binder/validator, HTMLRender, maxKeepBodySize) is excluded from the random programs; the TLS flag, HTMLRender, the client-IP and form-value functions and Exile are exercised by the wiring-setters unit (the survival of the last three is known finding D60); slice capacities are not observable and not compared",
        "a probe that is not dispatched is accepted only when the dirty exchange demonstrably ended the connection",
    ],
    "level_text": "Random differential exploration: the full observable state a probe request sees on a recycled context (same connection or from the pool) must equal what the identical probe sees on a brand-new engine with a brand-new context; mutators and getters are enumerated by reflection so new setters/getters are covered without editing the harness.",
    "level_note": "Sampling over a very large program space; trusts the reflection-based dump to expose the state that matters (cross-checked by deleting reset lines one at a time).",
    "technique": "model-free differential property-based testing (rapid): reflection-enumerated mutator programs, state dump of recycled vs fresh object",
    "nontrivial_floor": 500,
    "units": [
        {"name": "wiring-setters", "run": "^TestC09Wiring$", "kind": "plain"},
        {"name": "hijack-after-panic", "run": "^TestC09HijackAfterPanic$", "kind": "plain"},
        {"name": "sense-disconnect", "run": "^TestC09SenseDisconnect$", "kind": "plain", "race": True},
        {"name": "preread-window", "run": "^TestC09PreReadWindow$", "kind": "rapid", "checks": {"quick": 60, "thorough": 600}, "shards": {"quick": 2, "thorough": 8}},
        {"name": "context", "run": "^TestC09Context$", "kind": "rapid", "checks": {"quick": 4000, "thorough": 160000}, "shards": {"quick": 8, "thorough": 16}},
        {"name": "pooled-objects", "run": "^TestC09Pooled$", "kind": "rapid", "checks": {"quick": 4000, "thorough": 160000}, "shards": {"quick": 4, "thorough": 16}},
        {"name": "concurrent", "run": "^TestC09Concurrent$", "kind": "rapid", "checks": {"quick": 40, "thorough": 400}, "shards": {"quick": 2, "thorough": 4}},
        {"name": "concurrent-race", "run": "^TestC09Concurrent$", "kind": "rapid", "race": True, "tiers": ["thorough"], "checks": {"thorough": 200}, "shards": {"thorough": 8}},
    ],
}

CHECKS["C11"] = {
    "pkg": "props/c11",
    "level": "exploration",
    "rule": "A case is a client configuration (ResponseBodyStream on/off, MaxResponseBodySize unset/100/1 MiB, header-name normalisation on/off, via proxy) and a sequence of 1..5 exchanges through the real HostClient.Do over reactive scripted connections (a response becomes readable only after its request was completely written). "
            "Requests through the public API: method; URL via SetRequestURI or via URI setters (paths with spaces, non-ASCII, + ; = % ~ @ :, query args needing escaping); 0..5 headers via SetHeader/Header.Add, optional Cookie; body none / SetBody / SetBodyStream(known) / SetBodyStream(-1) / SetFormData / multipart fields and file readers; sizes centred on buffer boundaries. "
            "Responses from the wire generator: statuses 200/201/204/206/302/304/404/500, Content-Length, chunked (+trailers), until-close, bodiless with stray framing headers, 1..2 interim 100 Continue, arbitrary segmentation. Non-trivial = stream/multipart request body, chunked/until-close response, position >= 2 in a sequence, or a size >= 4096; distinct by FNV-64 of the case. URL forms (round 4): no slash after the authority (http://host?next=/home/x), a fragment appended (never to be sent, also not to a proxy), and a query replaced through SetQueryString after the first one had been read.",
    "assumptions": [
        "default headers hertz adds (User-Agent, Content-Type for bodies, Content-Length) are allowed extras; only headers the application set are required to arrive",
        "the client may dial a new connection whenever it likes (closing conservatively is allowed); reusing a connection after a close-delimited or Connection: close response is detected because that connection then yields EOF",
        "with MaxResponseBodySize = L a larger body must give ErrBodyTooLarge; in buffered mode that is checked, in streaming mode the client delivers the whole body (known finding D64) and the check still requires that the stream never yields more than the declared body; after a silent close by the peer a request that is not safe to repeat may fail, one that is safe must arrive intact on the new connection",
    ],
    "level_text": "Random exploration with three independent request decoders (own strict reader, net/http.ReadRequest, the real hertz server) that must all agree with the abstract request (method, target, Host, application headers, body bytes / decoded form and multipart fields), exactly one request per Do; and the abstract response must come back intact (status, headers, body, trailers) in buffered and streaming mode across reused connections.",
    "level_note": "Trusts wire's codecs, net/http and mime/multipart as independent decoders; scripted connections instead of sockets.",
    "technique": "property-based testing (rapid) with differential decoding by three independent parsers and a response round-trip oracle",
    "nontrivial_floor": 300,
    "units": [
        {"name": "exchanges", "run": "^TestC11Exchanges$", "kind": "rapid", "checks": {"quick": 3000, "thorough": 60000}, "shards": {"quick": 8, "thorough": 16}},
        {"name": "body-or-error", "run": "^TestC11BodyOrError$", "kind": "plain"},
        {"name": "caller-connection-header", "run": "^TestC11CallerConnectionHeader$", "kind": "plain"},
    ],
}

CHECKS["C10"] = {
    "pkg": "props/c10",
    "level": "exploration",
    "rule": "A history plan drawn up front by rapid: MaxConns 1..4; MaxConnWaitTimeout in {0, 30 ms, 300 ms}; 1..6 goroutines x 1..6 calls of the real HostClient.Do; per call: method (GET/PUT retryable, POST not), 40 ms read timeout or none, context live / cancelled before / cancelled 5 ms into the call, a delay of 0..3 ms before the call, and the fault of the exchange that serves it "
            "{ok, ok + Connection: close, ok then silent close, close before first byte, close mid-header, close mid-body, stall 130 ms (past the read timeout), 100-continue then ok}; per dial {ok, error, 15 ms slow}. Connections are in-memory pipes (with TCP-like write semantics) served by scripted peer goroutines that parse requests with the strict reader and answer by request id. "
            "Non-trivial = >= 2 goroutines contending for fewer connections than goroutines with >= 1 fault or cancellation; distinct by FNV-64 of the plan. Further dimensions: whole-request timeouts (300 ms) and the fault \"silent 180 ms then close, stall when the request is repeated\"; calls through HostClient.GetTimeout (the exchange outlives the caller); MaxConnDuration 1/4 ms (the client announces Connection: close); a rapid-drawn table of yields/sleeps applied at the pool lock boundaries through hook H2. A scheduling heartbeat gates every wall-clock verdict. Round 4: the close option of a response is spelled one of 7 ways (case, token lists, two Connection lines); units get-helpers / get-helpers-race: 12 goroutines x 60 HostClient.GetTimeout calls on a streaming client, every second response cut inside its body, each successful call must return its own body (the second unit is the same test built with the race detector); ResponseBodyStream on/off per history with response bodies padded to 100 B..40 KB (8192/8193 included) and close-mid-body cutting them in half, i.e. inside or behind the 8 KiB a streaming client reads before it returns.",
    "assumptions": [
        "schedules are sampled by real-time perturbation, not enumerated; rapid cannot shrink a schedule-dependent failure, the full history is printed instead",
        "timeouts are asserted as 'returns within T + 2 s' (pure scheduling slack); conservation is polled for up to 3 s before it counts as a leak",
        "stale waiter-queue entries are swept by one final clean request before the queue is required to be empty (the queue is cleaned lazily by design)",
        "a call made with an already cancelled context may fail or succeed",
    ],
    "level_text": "Random concurrent histories against history invariants: every successful call got the response to its own request id; a peer never receives a second request before answering the first, nor any request on a connection that carried Connection: close or a client-side timeout; ConnPoolState().TotalConnNum <= MaxConns at every dial (the connection being dialed is already counted) and in a 200 us sampler; a connection on which the client announced Connection: close is closed by the client; a connection whose exchange the peer ended inside the response (before the first byte, inside the header, inside the body) has been closed by the client once all calls returned, whatever the caller did with a streamed body; a call with a request timeout returns within it (+2 s, or +100 ms while the scheduling heartbeat is below 20 ms); a POST is received at most once; calls with a read timeout return; at quiescence PendingRequests()==0, counted connections == pooled, dialed == closed + pooled, no waiter queued.",
    "level_note": "Sampled schedules on a 16-core machine (thorough tier also under the race detector); the peer and pipe model are part of the trusted base.",
    "technique": "property-based testing of concurrent histories (rapid-generated plans, fault injection by a scripted peer) against history invariants",
    "nontrivial_floor": 20,
    "units": [
        {"name": "get-helpers", "run": "^TestC10GetHelpers$", "kind": "plain"},
        {"name": "get-helpers-race", "run": "^TestC10GetHelpers$", "kind": "plain", "race": True},
        {"name": "real-dialers", "run": "^TestC10RealDialers$", "kind": "plain"},
        {"name": "tls-stall", "run": "^TestC10TLSStall$", "kind": "plain"},
        {"name": "retry-pause", "run": "^TestC10RetryPause$", "kind": "plain"},
        {"name": "helper-late-write", "run": "^TestC10HelperLateWrite$", "kind": "plain"},
        {"name": "waiter-fresh-conn", "run": "^TestC10WaiterFreshConn$", "kind": "plain"},
        {"name": "regress", "run": "^TestC10Regress$", "kind": "plain"},
        {"name": "histories", "run": "^TestC10Histories$", "kind": "rapid", "checks": {"quick": 1280, "thorough": 16000}, "shards": {"quick": 16, "thorough": 16}, "shrinktime": "30s"},
        {"name": "histories-race", "run": "^TestC10Histories$", "kind": "rapid", "race": True, "tiers": ["thorough"], "checks": {"thorough": 1600}, "shards": {"thorough": 8}, "shrinktime": "30s"},
    ],
}

CHECKS["C18"] = {
    "pkg": "props/c18",
    "level": "exploration",
    "rule": "A scenario is a real server (server.New, standard or netpoll transport) on a unix-domain socket or a loopback TCP port with ExitWaitTimeout in {150 ms, 1.5 s}, 1..6 client connections each in a state {busy: request sent and its handler parked on a harness channel; idle keep-alive after a completed request; mid-request: partial headers sent; just connected}, "
            "busy responses of 1 B..256 KiB, handler release point {before Shutdown is called, right after a shutdown hook fired, 60 ms after the hook fired, after the wait}, hooks {none, fast, 50 ms + fast, longer than the wait}; then a dial attempt, a second Shutdown and a Shutdown of an engine that never ran. "
            "Non-trivial = at least one busy connection whose handler returns after shutdown began together with another connection; distinct by FNV-64 of the plan. Further dimensions: SenseClientDisconnection on the standard transport with clients that go away while their handler runs; hooks that take 60 % of the wait or overrun it; a slow OnConnect callback with a last connection that is inside the callback (request sent) when Shutdown is called, sometimes as the only connection. Round 4: a service registry whose Deregister succeeds or fails (known finding D49), busy connections whose handler streams the response with the chunked body writer (known finding D67); the tight bound is gated by CPU pressure as well as by the heartbeat.",
    "assumptions": [
        "'already received' is counted for requests whose handler was entered before Shutdown was called, and for a request sent on a connection that the server had accepted (its OnConnect callback had been entered) before Shutdown was called; connections still in the kernel backlog and the keep-alive race are not counted",
        "liveness is checked as bounded response: Shutdown returns within ExitWaitTimeout + 2 s; hooks are started; handlers released after the wait expired are not asserted on",
        "when Shutdown returns before its deadline, no request received before the call may still be inside its handler (server-side timestamps, no slack)",
        "idle keep-alive connections are not required to be closed by Shutdown (the standard transport leaves them to the idle timeout)",
    ],
    "level_text": "Random scenarios on real sockets against history invariants: complete untruncated responses for in-flight requests (with Connection: close when the handler returned after shutdown began), hooks started, bounded return, early return only when nothing is in flight, no service for connections dialled afterwards, errors for a second Shutdown and for a never-started engine.",
    "level_note": "The technique is weakest here: schedules include the kernel and are sampled by real-time perturbation; liveness is only checked as bounded response.",
    "technique": "property-based scenario generation (rapid) on real sockets with history invariants",
    "nontrivial_floor": 10,
    "units": [
        {"name": "spin-signals", "run": "^TestC18Signals$", "kind": "plain"},
        {"name": "standard-transport", "run": "^TestC18Standard$", "kind": "rapid", "checks": {"quick": 192, "thorough": 960}, "shards": {"quick": 16, "thorough": 16}, "shrinktime": "30s"},
        {"name": "netpoll-transport", "run": "^TestC18Netpoll$", "kind": "rapid", "checks": {"quick": 32, "thorough": 480}, "shards": {"quick": 16, "thorough": 16}, "shrinktime": "30s"},
        {"name": "concurrent-shutdown", "run": "^TestC18ConcurrentShutdown$", "kind": "rapid", "checks": {"quick": 160, "thorough": 1600}, "shards": {"quick": 4, "thorough": 16}, "shrinktime": "20s"},
    ],
}

CHECKS["C16"] = {
    "pkg": "props/c16",
    "module": "harness_hz",
    "prebuild": "cd harness_hz && go build -o ../.build/hzgen ./cmd/hzgen",
    "level": "translation_validation",
    "programs_unit": "programs",
    "rule": "A program is a declared method set (1..10 methods; unique handler names in several styles; verb in {GET, POST, PUT, DELETE, PATCH, HEAD, OPTIONS, Any}; path of 0..4 segments over {a-b, a_b, a.b, A_B, ab, 1a, a1, :id, :a_b, *rest, v1, users} with root and trailing-slash variants, so that segments collide after identifier mangling, repeat at different depths and share prefixes) "
            "x options {sort-router, snake-style middleware, handler-by-method} x {fresh generation, update over the files of a first generation without the last method}. The real cmd/hz/generator runs once per program in a fresh process (hzgen); the generated router file is compiled UNCHANGED together with recording stubs that define exactly the middleware/handler functions it references (batches of 30 programs per go build). "
            "Non-trivial = two segments that mangle to the same identifier, the same path under >= 2 verbs, a parameter/catch-all, or a route that is a prefix of another; disagreements_checked = programs for which hz had to uniquify an identifier. Round 4: capitalised path segments (Users, Zq, AB) and handler names drawn from the same words, so that a handler middleware name can meet a path-derived group name.",
    "assumptions": [
        "declared sets that hertz's own router refuses when registered directly (conflicting wildcards) are outside the property and counted; sets hz itself refuses to generate are counted as refused, not validated",
        "handler and model templates are not under test (stubs replace them); the router and the set of functions middleware.go must define are",
    ],
    "level_text": "Translation validation of generated programs: every generated router must parse and compile, Engine.Routes() after Register must equal the declared (verb, path) multiset (Any = 9 verbs), a probe per declared route must run root middleware, then the middleware of every group on its path (read from the router AST, prefixes strictly extending to the route's parent path), then the handler's own middleware, then the handler of the declared name, each exactly once.",
    "level_note": "Trusts go/parser, the Go compiler and the hertz router as the target semantics; generation is sampled by rapid.",
    "technique": "translation validation of rapid-generated IDL method sets: generate, compile, register, probe",
    "nontrivial_floor": 20,
    "units": [
        {"name": "programs", "run": "^TestC16Batch$", "kind": "rapid", "checks": {"quick": 8, "thorough": 160}, "shards": {"quick": 8, "thorough": 16}, "shrinktime": "1s", "timeout": {"quick": 900, "thorough": 5400}},
    ],
}

# Round 5 (second independent hunt, DESIGN 8.7): what each rule gained.
ROUND5 = {
    "C01": "the values of the framing fields may carry horizontal tabs as optional whitespace (generator option TabOWS); chunk extensions on request chunks.",
    "C03": "the body-limit unit draws the method from {POST, PUT, HEAD}: the 413 that answers a HEAD request carries no body.",
    "C04": "Header.Del(\"Content-Length\") after SetBodyStream(r, n) is a program like any other (the exclusion is withdrawn); chunked-writer programs that call ctx.AbortWithMsg after their writes (known finding D92).",
    "C06": "for the first 8 paths of every set: targets with a control byte (0x01, 0x1f, 0x7f) appended or as a further segment, as HTTP/1.1 and HTTP/1.0: a route handler may only run if its pattern matches the literal path.",
    "C07": "unit file-by-param: download handlers that hand dir + ctx.Param(\"name\") to ctx.File and \"/h/\"+name to ctx.FileFromFS after the check an application makes; the file served is the file of exactly that name (files whose names contain %41, %20, '?', '#', %2e%2e%2f exist beside their decoded twins).",
    "C08": "a last-byte-pos or suffix-length beyond int64 is clamped, a refusal is no longer accepted; route /gzi (Compress + IndexNames) with a directory whose index file's compressed copy cannot be created: an existing index file must be served; unit raw-param: WithUseRawPath and a rewriter built on the route parameter, targets ending in /.. in five spellings.",
    "C09": "field mutators append(Request.Body(), ...) and append(Header.Peek(...), ...); unit sense-disconnect (race build): real standard transport with SenseClientDisconnection, 8 workers x 60 connections whose response write fails / whose peer leaves inside a streamed body / which are clean / whose handler starts a goroutine waiting on ctx.Finished().",
    "C10": "unit tls-stall: HostClient over TLS (and plain, as control) against a peer that accepts and never speaks, request timeout / read+write timeouts / read timeout only.",
    "C13": "writer op ReadFrom (reader of 0..102400 bytes delivering 7..all bytes per read) over an underlying connection with and without ReaderFrom; afterwards the peer holds at least everything written before the call and at most everything written.",
    "C14": "consumption via wrapped-body (a reader that yields every byte twice in 256-byte steps is set as the body stream and read through Request.Body()); regress families: chunk-size lines the reader refuses or used to refuse, trailer sections with bare-LF line ends followed by two pipelined requests.",
    "C15": "requests parsed into a recycled Request object; a header tag may name User-Agent; the streamed body read with Request.Body() before Bind; form and multipart media types in mixed case and with parameters; empty texts for string fields in form, query and json.",
    "C16": "a twelfth of the programs is built around hostile handler names: List / ListMwStats with snake-style middleware names and an update run.",
    "C17": "cookie paths that percent-decode to a ';' or an outer space are run (known finding D93) instead of being kept out; nameless cookies; every cookie string is also filed by a ResponseHeader and looked up under its key; URI programs have the op update (9 reference forms).",
    "C18": "registry \"slow\" (Deregister returns after the exit wait time); unit concurrent-shutdown: 2..8 goroutines leave a spin barrier into Engine.Shutdown while a request is parked in its handler: at most one call returns nil, and none before the handler has returned.",
}
for _k, _v in ROUND5.items():
    CHECKS[_k]["rule"] += " Round 5: " + _v

# Round 6 (third hunt, DESIGN 8.8): what each rule gained.
ROUND6 = {
    "C01": "with TabOWS and Fold: a Content-Length whose value stands on a continuation line of its own; tab separators inside the Trailer list; a Trailer list split over two header lines.",
    "C04": "stream modes: every n-th Read returns (0, nil); the stream has a Close that fails; LimitedReader whose limit exceeds the source (known finding D120); a fifth of the cases runs the programs as the engine's NoRoute handler (status 404 with a chunked-writer body included).",
    "C05": "unit trailer-late-set: trailer sections of 10 B..20 KB on a chunked stream response whose Close sets another trailer with hostile bytes: clean field lines for trailers the application set, the empty line, nothing behind it.",
    "C08": "before every connection a gzip file named <root>.hertz.gz is put beside the root, alternately as old as the root directory and of another age: it is never served (compressed bodies are inflated and searched for the canary) and never removed.",
    "C09": "unit preread-window: streaming server with a 1 KiB body limit; an over-limit POST with a pipelined GET is answered the same on a new server as behind a request of 2..100 KB that grew the pooled body buffer (Body(), SetBody, AppendBody).",
    "C10": "unit retry-pause: RetryConfig.Delay 50 ms / 2 s with a custom RetryIf against a peer that closes every connection; the call returns within the request timeout plus slack.",
    "C11": "requests: Header.Set(\"Content-Length\") after SetBodyStream(r, -1), Header.Del(\"Content-Length\") after SetBodyStream(r, n); a quarter of the requests is built on a Request object that was written once as a POST with a body and then ResetBody(); responses: read-until-close with Connection: keep-alive (the next exchange must use a new connection).",
    "C14": "consumptions body-twice (what the second Body() says counts, on truncated messages too) and writeto-then-body (BodyWriteTo, then Body(): empty or the whole body, never a part or foreign bytes).",
    "C15": "a field may carry json:\"-\" while the body holds a decoy key with the field's Go name; header names not normalised by the server (spelled as the tag spells them, see the pinned Test_BindHeaderNormalize).",
    "C17": "URI programs: after Update(ref) the host is the one the reference form prescribes ('//' counts as authority only at the start or behind 'scheme:'); QueryString() of the subject equals QueryString() of the parsed string; cookies: values with an outer space or in double quotes, Max-Age -1 (known finding D126).",
    "C18": "a busy connection's client may already have written the first bytes of its next request when Shutdown is called, with bodies up to 1 MiB (known finding D132 on the standard transport).",
    "C19": "the hijack outcome is a POST with a body, the hijack handler reads what the peer sends afterwards (delivered by a later read); in buffered mode Finish records Request.Body(), which must be the body of the finished request.",
    "C20": "binder-nested shapes: slice and map receivers, an interface field holding a pointer to a struct with rules, recursive types with the rule before / after the recursive field, a recursive map, a mutually recursive pair; a map element selector whose key comes from a field holding a string, a number, nil, a slice or a map.",
}
for _k, _v in ROUND6.items():
    CHECKS[_k]["rule"] += " Round 6: " + _v

# Round 7 (fourth hunt, DESIGN 8.9): what each rule gained.
ROUND7 = {
    "C01": "an empty continuation line behind a folded value (OWS in front of a trailing fold); a declared trailer field sent on two field lines (both values reach the handler, as two entries or combined).",
    "C04": "a stream of another length set under the initial 200 before a bodiless pre-status (EarlierStream); the chunked writer installed under 200, never written to, with the status set to 204/304/1xx afterwards (the property excludes installing it on a bodiless response, not this).",
    "C09": "unit hijack-after-panic: a handler registers a hijack handler and panics, the next connection's requests are ordinary ones; wiring-setters also assigns ctx.HTMLRender and calls Request.SetIsTLS, which must be back in place for the next request (D60 is the three engine-owned mutators).",
    "C10": "unit helper-late-write: GetTimeout / GetDeadline with a caller-owned dst against a peer that answers after the deadline: dst is not written after the call returned.",
    "C11": "an application retry policy (RetryIfFunc) with multipart requests whose parts are readers; exchanges where the caller sets Response.SkipBody (the next exchange on the host must not read the leftover); until-close responses that offer an upgrade.",
    "C14": "chunk extensions behind tabs and blanks.",
    "C15": "json:\"-\" as the only tag of a field with a default; json bodies whose keys are spelled in another case than the json names; json names that contain a '.', with nested decoy objects under the part before the dot.",
    "C17": "nameless cookies whose value contains '='.",
    "C20": "unit containers (race build): values over ten container positions at once (optional nested struct at the top level, in slice elements, behind pointers in a slice, in map values; a one-pointer struct by value in a map, a one-element array, behind an interface, in a []interface{}; []interface{} fields referenced by their own rule), verdict = conjunction of the leaf rules over the leaves that exist, no panic, the judged value unchanged, two validations at once agree; binder-nested: embedded non-struct type, unexported field, struct map key, linked lists through a pointer member (known finding D152 beyond the registration-time depth).",
}
for _k, _v in ROUND7.items():
    CHECKS[_k]["rule"] += " Round 7: " + _v

# Round 8 (fifth hunt, DESIGN 8.10): what each rule gained.
ROUND8 = {
    "C01": "Expect: 100-continue on HTTP/1.0 requests (no interim response there); the close option of the last request spelled Close / CLOSE / in a token list / on two lines, with a further request on the wire behind it that must not be served.",
    "C02": "every segmentation is also run with the end of the stream reported by the read that delivers the last bytes (n > 0, io.EOF, as crypto/tls does).",
    "C03": "unit client-redirect: the client follows 302s whose Location is drawn from spaces, tabs, control and non-ASCII bytes, stray '%': what it writes next is a well-formed request line over visible ASCII.",
    "C04": "a 1xx or 204 response carries neither Content-Length nor Transfer-Encoding (unless the program sets the header itself).",
    "C09": "preread-window with body limits 10 and 300 (known finding D162).",
    "C10": "unit waiter-fresh-conn (MaxConns 1, waiting on, a peer that closes every request: at most 40 requests for 3 calls); regress: request-side close option in 6 spellings, WantConnectionCount on a new client.",
    "C11": "unit body-or-error (until-close / Content-Length / chunked x stall beyond the read timeout / cut x buffered / streaming: the whole body or an error, the same on a second BodyE()); unit caller-connection-header (MaxConnDuration).",
    "C14": "regress family lf-in-chunk-extension (a line feed inside a chunk extension in five spellings: never a smuggled request; without an error the body is what an LF-tolerant reader sees).",
    "C15": "empty texts for path parameters (scalar and slice); two fields whose json names differ only in case.",
    "C19": "unit finish-after-release: stream mode, two connections ordered by channels, a tracer that reads Request.Body() in Finish.",
    "C20": "containers: a ***T with a nil level, a sub-field reference through a nil embedded pointer, [][]interface{}, []map[string]interface{}, map[string][]interface{}, [][]map[K]int with a struct key; binder-nested: embedded named slice, type with a customized decoder.",
}
for _k, _v in ROUND8.items():
    CHECKS[_k]["rule"] += " Round 8: " + _v

# Round 9 (review of the repairs, DESIGN 8.11): what each rule gained.
ROUND9 = {
    "C03": "regress: a peer that stalls inside a well-formed header block until the read timeout is not answered 400.",
    "C10": "regress: a 101 answer whose upgrade option is spelled five ways, one of them on a second Connection line (never pooled).",
    "C14": "regress: a request whose body stream failed is given a new body through each of six setters: BodyE returns the new body.",
    "C11": "body-or-error also asks the URL helper (client.Get) after each exchange.",
    "C15": "source tags spelled \"-\" (a field with a default whose tags are all \"-\" and none of them json is known finding D175); trailing fields moved into an untagged embedded struct; an unexported sibling whose name equals a json name ignoring case, with body keys in another case (json names that differ only in case are kept on one embedding level).",
    "C19": "unit finish-after-buffers-released: buffered mode, bodies of 100 B..70 KB and multipart bodies whose form the handler asks for; a whole exchange of another connection runs inside the scripted connection's first Write; the tracer's Finish must see the handled body.",
    "C20": "containers: nil pointers to slices and maps beside walked ones, a ***T member with a rule of its own; binder-nested: a struct as the key of a map inside a slice / a map.",
}
for _k, _v in ROUND9.items():
    CHECKS[_k]["rule"] += " Round 9: " + _v
