# Per-property configuration of the driver. Units are Test functions of the
# property's package; "rapid" units are sharded by PRNG seed, "plain" units
# receive VERIF_SHARD/VERIF_NSHARDS and partition their enumeration.
CHECKS = {}

CHECKS["C07"] = {
    "pkg": "props/c07",
    "level": "exploration",
    "rule": "Exhaustive: every string of 0..8 (thorough 0..10) tokens over {'/','.','a','%2e','%2f','%','\\\\'} as request target for URI.Parse "
            "and as CleanPath argument (distinct by construction; tokenisation is unique); non-trivial = a dot token adjacent to a separator token. "
            "Random: targets of up to 64 tokens incl. mixed-case / double / truncated escapes, query and fragment suffixes; non-trivial = contains '.' or an escape; distinct by FNV-64 of the target. "
            "FS sandbox: every origin-form target of 1..5 (thorough 1..6) tokens plus random ones served by the real FS handler behind the real engine with canary files outside the root.",
    "assumptions": [
        "Linux build (backslash is an ordinary byte)",
        "targets containing CTL bytes are only checked for containment (URI.parse refuses them and yields '/')",
        "CleanPath equality reference is path.Clean('/'+p) plus the documented trailing-slash rule",
    ],
    "nontrivial_floor": 1000,
    "units": [
        {"name": "regress", "run": "^TestC07Regress$", "kind": "plain"},
        {"name": "exhaustive", "run": "^TestC07Exhaustive$", "kind": "plain", "shards": 16},
        {"name": "random", "run": "^TestC07Random$", "kind": "rapid", "checks": {"quick": 40000, "thorough": 1600000}, "shards": {"quick": 4, "thorough": 16}},
        {"name": "fs-sandbox", "run": "^TestC07FS$", "kind": "plain", "shards": {"quick": 4, "thorough": 16}},
        {"name": "fs-random", "run": "^TestC07FSRandom$", "kind": "rapid", "checks": {"quick": 4000, "thorough": 160000}, "shards": {"quick": 2, "thorough": 16}},
    ],
}
